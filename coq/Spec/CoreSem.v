(* A definitional interpreter for the core forms, written from the Emacs Lisp *)
(* manual for a dynamically bound Lisp-1: ordinary recursion (no trampoline,    *)
(* no task indirection for calls), one clause per core form.  It shares with     *)
(* the model only the value type, the store and the library of built-in          *)
(* functions (apply_prim), to which every non-core primitive is delegated.       *)
(* Fuel is "unspecified": malformed special forms and calls whose body yields a  *)
(* trampoline marker are not given a meaning here (C04 is about the latter).     *)
From TL Require Import Base.Base Model.Reader Model.Printer Model.Store Model.Eval.
From TL Require Import Proofs.Calls.
Local Open Scope list_scope.

Section CoreSem.
Variable F : fops.
Variable rec : task -> M sx.           (* this interpreter, one level of fuel down *)
Variable load : text -> M sx.

Definition unspecified {A} : M A := lift Fuel.
Definition eval (x : sx) : M sx := rec (TEval x).

(* forms in sequence, left to right; the value is the last one (nil if none) *)
Fixpoint progn (l : list sx) (last : sx) : M sx :=
  match l with
  | [] => ret last
  | x :: r => v <- eval x ;; progn r v
  end.

(* argument forms, left to right, each once *)
Fixpoint evlis (l : list sx) : M (list sx) :=
  match l with
  | [] => ret []
  | x :: r => v <- eval x ;; vs <- evlis r ;; ret (v :: vs)
  end.

(* temporary bindings: made in order, undone on every exit *)
Fixpoint push_all (syms vals : list sx) (done : list sx) : M unit :=
  match syms, vals with
  | p :: ps, v :: vs =>
      catch (sym_set_scope p v)
            (fun r => match r with
                      | Ok _ => push_all ps vs (done ++ [p])
                      | Err e => _ <- unbind_all done ;; fail e
                      | Panic n => panic n
                      | Fuel => unspecified
                      end)
  | _, _ => ret tt
  end.

Definition with_bindings {A} (syms vals : list sx) (body : M A) : M A :=
  _ <- push_all syms vals [] ;;
  catch body (fun r => _ <- unbind_all syms ;; lift r).

(* ordinary function call: the consumed argument forms are evaluated in the   *)
(* caller's bindings, then the parameters are bound, the body runs, and the     *)
(* parameters are unbound                                                       *)
Definition call_function (evalp : bool) (ps body : sx) (args : list sx) : M sx :=
  pl <- lift (parse_params ps) ;;
  let k := n_used pl (List.length args) in
  vals <- (if evalp then evlis (firstn k args) else ret (firstn k args)) ;;
  bound <- lift (zip_pure pl vals) ;;
  match skipn k args with
  | _ :: _ => fail EType                            (* too many arguments *)
  | [] =>
      r <- with_bindings (map p_sym pl) bound (progn (items body) Nil) ;;
      if is_bounced r then unspecified else ret r
  end.

(* let / let*: each initialiser is evaluated and bound in turn (tulisp's let  *)
(* is sequential: known finding D1); all are unbound when the body is left     *)
Fixpoint bind_vars (vars : list sx) (bound : list sx) : M (list sx) :=
  match vars with
  | [] => ret bound
  | v :: r =>
      let undo (e : ekind) : M (list sx) := _ <- unbind_all bound ;; fail e in
      let after (name : sx) (m : M unit) : M (list sx) :=
          catch m (fun o => match o with
                            | Ok _ => bind_vars r (bound ++ [name])
                            | Err e => undo e
                            | Panic n => panic n | Fuel => unspecified end) in
      if symbolp v then after v (sym_set_scope v Nil)
      else match v with
           | Cons name Nil =>
               if null name then undo EUndef
               else after name (val <- eval Nil ;; sym_set_scope name val)
           | Cons name (Cons init Nil) =>
               if null name then undo EUndef
               else after name (val <- eval init ;; sym_set_scope name val)
           | Cons _ (Cons _ (Cons _ _)) => unspecified
           | Cons _ _ => unspecified
           | _ => undo ESyntax
           end
  end.

(* cond: the first clause whose test is non-nil; a clause without body yields *)
(* the value of its test                                                        *)
Fixpoint cond_clauses (l : list sx) : M sx :=
  match l with
  | [] => ret Nil
  | Nil :: r => cond_clauses r
  | Cons c body :: r =>
      test <- eval c ;;
      if truthy test then (if null body then ret test else progn (items body) Nil)
      else cond_clauses r
  | _ :: _ => fail EType
  end.

Fixpoint and_forms (l : list sx) (last : sx) : M sx :=
  match l with
  | [] => ret last
  | x :: r => v <- eval x ;; if null v then ret v else and_forms r v
  end.
Fixpoint or_forms (l : list sx) : M sx :=
  match l with
  | [] => ret Nil
  | x :: r => v <- eval x ;; if null v then or_forms r else ret v
  end.

(* dolist: the variable is bound once (to the first element); after each run  *)
(* of the body it is assigned the next element (nil after the last one); the   *)
(* result form sees it nil                                                      *)
Fixpoint dolist_iter (var : sx) (elems : list sx) (body : sx) : M unit :=
  match elems with
  | [] => ret tt
  | _ :: r =>
      _ <- progn (items body) Nil ;;
      _ <- sym_set_unchecked var (List.hd Nil r) ;;
      dolist_iter var r body
  end.

(* the special forms and the core functions *)
Definition special (p : prim) (args : sx) : M sx :=
  match p, args with
  | PProgn, _ => progn (items args) Nil
  | PIf, Cons c (Cons thn els) =>
      v <- eval c ;; if truthy v then eval thn else progn (items els) Nil
  | PCond, _ => cond_clauses (items args)
  | PAnd, _ => and_forms (items args) T
  | POr, _ => or_forms (items args)
  | PNot, Cons a _ => v <- eval a ;; ret (of_bool (null v))
  | PXor, Cons a (Cons b _) =>
      x <- eval a ;; y <- eval b ;; ret (if null x then y else if null y then x else Nil)
  | PSetq, Cons name (Cons e Nil) =>
      v <- eval e ;; _ <- sym_set name v ;; ret v
  | PSet, Cons ne (Cons e Nil) =>
      n <- eval ne ;; v <- eval e ;; _ <- sym_set n v ;; ret v
  | PLet, Cons varlist (Cons b1 rest) | PLetStar, Cons varlist (Cons b1 rest) =>
      bound <- bind_vars (items varlist) [] ;;
      catch (progn (b1 :: items rest) Nil) (fun r => _ <- unbind_all bound ;; lift r)
  | PWhile, Cons c body => rec (TWhile c body Nil)
  | PDolist, Cons (Cons var (Cons lst rest)) body =>
      match rest with
      | Nil | Cons _ Nil =>
          let result := match rest with Cons r _ => r | _ => Nil end in
          l <- eval lst ;;
          match l with
          | Nil | Cons _ _ =>
              match tail_of l with
              | Nil =>
                  _ <- sym_set_scope var (match l with Cons x _ => x | _ => Nil end) ;;
                  catch (_ <- dolist_iter var (items l) body ;;
                         _ <- sym_set_unchecked var Nil ;; eval result)
                        (fun r => _ <- sym_unset var ;; lift r)
              | _ => unspecified
              end
          | _ => fail EType
          end
      | _ => unspecified
      end
  | PDotimes, Cons (Cons var (Cons cnt rest)) body =>
      match rest with
      | Nil | Cons _ Nil =>
          let result := match rest with Cons r _ => r | _ => Nil end in
          cv <- eval cnt ;;
          n <- lift (as_int cv) ;;
          _ <- sym_set_scope var (Int 0) ;;
          catch (_ <- rec (TDotimes var 0 n body) ;;
                 _ <- sym_set_unchecked var (Int n) ;; eval result)
                (fun r => _ <- sym_unset var ;; lift r)
      | _ => unspecified
      end
  | PFuncall, Cons fe rest =>
      f1 <- eval fe ;; f2 <- eval f1 ;; rec (TCall true f2 rest)
  | PEval, Cons e _ => v <- eval e ;; eval v
  | PTick, Cons id (Cons e Nil) => v <- eval e ;; do_tick F id v
  | _, _ => unspecified
  end.

Definition is_special (p : prim) : bool :=
  match p with
  | PProgn | PIf | PCond | PAnd | POr | PNot | PXor | PSetq | PSet | PLet | PLetStar
  | PWhile | PDolist | PDotimes | PFuncall | PEval | PTick => true
  | _ => false
  end.

Definition sstep (t : task) : M sx :=
  match t with
  | TEval x =>
      match x with
      | Nil | T | Int _ | Flt _ | Str _ => ret x                   (* constants *)
      | Sym _ | USym _ _ => if is_constant x then ret x else sym_get x   (* variables; keywords *)
      | Cell _ _ _ => sym_get x                                      (* captured variables *)
      | Quote v | Sharp v => ret v
      | Bq v => eval_bq rec v
      | Cons h args => f <- eval h ;; rec (TCall true f args)     (* Lisp-1: the head is a variable *)
      | Unq _ | Splice _ => fail EType
      | _ => ret x                                                  (* function objects *)
      end
  | TCall evalp fn args =>
      match fn with
      | Lam ps body => call_function evalp ps body (items args)
      | Prim p =>
          if is_special p && evalp then special p args
          else if evalp then apply_prim F rec load p args
          else apply_prim F rec load p (of_list (map quote_arg (items args)) Nil)
      | PMac _ | Mac _ _ => x <- rec (TExpand (Cons fn args)) ;; eval x
      | _ => fail EUndef
      end
  | TWhile c body last =>
      v <- eval c ;;
      if null v then ret Nil else r <- progn (items body) Nil ;; rec (TWhile c body r)
  | TDotimes var i n body =>
      if (i <? n)%Z then
        _ <- sym_set_unchecked var (Int i) ;; _ <- progn (items body) Nil ;;
        rec (TDotimes var (i + 1) n body)
      else ret Nil
  | TTramp _ _ _ => unspecified
  | TExpand _ => step F rec load t            (* macro expansion: C06 *)
  end.

End CoreSem.

Fixpoint spec (F : fops) (n : nat) (t : task) : M sx :=
  match n with
  | O => lift Fuel
  | S n' => sstep F (spec F n') (run_body F (spec F n')) t
  end.
