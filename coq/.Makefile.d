Base/Base.vo Base/Base.glob Base/Base.v.beautified Base/Base.required_vo: Base/Base.v 
Base/Base.vio: Base/Base.v 
Base/Base.vos Base/Base.vok Base/Base.required_vos: Base/Base.v 
Model/Reader.vo Model/Reader.glob Model/Reader.v.beautified Model/Reader.required_vo: Model/Reader.v Base/Base.vo
Model/Reader.vio: Model/Reader.v Base/Base.vio
Model/Reader.vos Model/Reader.vok Model/Reader.required_vos: Model/Reader.v Base/Base.vos
Model/Printer.vo Model/Printer.glob Model/Printer.v.beautified Model/Printer.required_vo: Model/Printer.v Base/Base.vo Model/Reader.vo
Model/Printer.vio: Model/Printer.v Base/Base.vio Model/Reader.vio
Model/Printer.vos Model/Printer.vok Model/Printer.required_vos: Model/Printer.v Base/Base.vos Model/Reader.vos
Model/Store.vo Model/Store.glob Model/Store.v.beautified Model/Store.required_vo: Model/Store.v Base/Base.vo Model/Reader.vo
Model/Store.vio: Model/Store.v Base/Base.vio Model/Reader.vio
Model/Store.vos Model/Store.vok Model/Store.required_vos: Model/Store.v Base/Base.vos Model/Reader.vos
Model/Eval.vo Model/Eval.glob Model/Eval.v.beautified Model/Eval.required_vo: Model/Eval.v Base/Base.vo Model/Reader.vo Model/Printer.vo Model/Store.vo
Model/Eval.vio: Model/Eval.v Base/Base.vio Model/Reader.vio Model/Printer.vio Model/Store.vio
Model/Eval.vos Model/Eval.vok Model/Eval.required_vos: Model/Eval.v Base/Base.vos Model/Reader.vos Model/Printer.vos Model/Store.vos
Model/Init.vo Model/Init.glob Model/Init.v.beautified Model/Init.required_vo: Model/Init.v Base/Base.vo Model/Reader.vo Model/Store.vo Model/Eval.vo
Model/Init.vio: Model/Init.v Base/Base.vio Model/Reader.vio Model/Store.vio Model/Eval.vio
Model/Init.vos Model/Init.vok Model/Init.required_vos: Model/Init.v Base/Base.vos Model/Reader.vos Model/Store.vos Model/Eval.vos
Model/Api.vo Model/Api.glob Model/Api.v.beautified Model/Api.required_vo: Model/Api.v Base/Base.vo Model/Reader.vo Model/Printer.vo
Model/Api.vio: Model/Api.v Base/Base.vio Model/Reader.vio Model/Printer.vio
Model/Api.vos Model/Api.vok Model/Api.required_vos: Model/Api.v Base/Base.vos Model/Reader.vos Model/Printer.vos
Proofs/ReaderTotal.vo Proofs/ReaderTotal.glob Proofs/ReaderTotal.v.beautified Proofs/ReaderTotal.required_vo: Proofs/ReaderTotal.v Base/Base.vo Model/Reader.vo
Proofs/ReaderTotal.vio: Proofs/ReaderTotal.v Base/Base.vio Model/Reader.vio
Proofs/ReaderTotal.vos Proofs/ReaderTotal.vok Proofs/ReaderTotal.required_vos: Proofs/ReaderTotal.v Base/Base.vos Model/Reader.vos
Proofs/EvalRel.vo Proofs/EvalRel.glob Proofs/EvalRel.v.beautified Proofs/EvalRel.required_vo: Proofs/EvalRel.v Base/Base.vo Model/Reader.vo Model/Printer.vo Model/Store.vo Model/Eval.vo Proofs/ReaderTotal.vo
Proofs/EvalRel.vio: Proofs/EvalRel.v Base/Base.vio Model/Reader.vio Model/Printer.vio Model/Store.vio Model/Eval.vio Proofs/ReaderTotal.vio
Proofs/EvalRel.vos Proofs/EvalRel.vok Proofs/EvalRel.required_vos: Proofs/EvalRel.v Base/Base.vos Model/Reader.vos Model/Printer.vos Model/Store.vos Model/Eval.vos Proofs/ReaderTotal.vos
Proofs/Numeric.vo Proofs/Numeric.glob Proofs/Numeric.v.beautified Proofs/Numeric.required_vo: Proofs/Numeric.v Base/Base.vo Model/Reader.vo Model/Printer.vo Model/Store.vo Model/Eval.vo
Proofs/Numeric.vio: Proofs/Numeric.v Base/Base.vio Model/Reader.vio Model/Printer.vio Model/Store.vio Model/Eval.vio
Proofs/Numeric.vos Proofs/Numeric.vok Proofs/Numeric.required_vos: Proofs/Numeric.v Base/Base.vos Model/Reader.vos Model/Printer.vos Model/Store.vos Model/Eval.vos
Proofs/Lists.vo Proofs/Lists.glob Proofs/Lists.v.beautified Proofs/Lists.required_vo: Proofs/Lists.v Base/Base.vo Model/Reader.vo Model/Printer.vo Model/Store.vo Model/Eval.vo Model/Init.vo
Proofs/Lists.vio: Proofs/Lists.v Base/Base.vio Model/Reader.vio Model/Printer.vio Model/Store.vio Model/Eval.vio Model/Init.vio
Proofs/Lists.vos Proofs/Lists.vok Proofs/Lists.required_vos: Proofs/Lists.v Base/Base.vos Model/Reader.vos Model/Printer.vos Model/Store.vos Model/Eval.vos Model/Init.vos
Proofs/Decimal.vo Proofs/Decimal.glob Proofs/Decimal.v.beautified Proofs/Decimal.required_vo: Proofs/Decimal.v Base/Base.vo Model/Reader.vo Model/Printer.vo
Proofs/Decimal.vio: Proofs/Decimal.v Base/Base.vio Model/Reader.vio Model/Printer.vio
Proofs/Decimal.vos Proofs/Decimal.vok Proofs/Decimal.required_vos: Proofs/Decimal.v Base/Base.vos Model/Reader.vos Model/Printer.vos
Proofs/Strings.vo Proofs/Strings.glob Proofs/Strings.v.beautified Proofs/Strings.required_vo: Proofs/Strings.v Base/Base.vo Model/Reader.vo Model/Printer.vo Model/Store.vo Model/Eval.vo Model/Init.vo Proofs/Decimal.vo
Proofs/Strings.vio: Proofs/Strings.v Base/Base.vio Model/Reader.vio Model/Printer.vio Model/Store.vio Model/Eval.vio Model/Init.vio Proofs/Decimal.vio
Proofs/Strings.vos Proofs/Strings.vok Proofs/Strings.required_vos: Proofs/Strings.v Base/Base.vos Model/Reader.vos Model/Printer.vos Model/Store.vos Model/Eval.vos Model/Init.vos Proofs/Decimal.vos
Proofs/Sort.vo Proofs/Sort.glob Proofs/Sort.v.beautified Proofs/Sort.required_vo: Proofs/Sort.v Base/Base.vo Model/Reader.vo Model/Printer.vo Model/Store.vo Model/Eval.vo
Proofs/Sort.vio: Proofs/Sort.v Base/Base.vio Model/Reader.vio Model/Printer.vio Model/Store.vio Model/Eval.vio
Proofs/Sort.vos Proofs/Sort.vok Proofs/Sort.required_vos: Proofs/Sort.v Base/Base.vos Model/Reader.vos Model/Printer.vos Model/Store.vos Model/Eval.vos
Proofs/Equality.vo Proofs/Equality.glob Proofs/Equality.v.beautified Proofs/Equality.required_vo: Proofs/Equality.v Base/Base.vo Model/Reader.vo Model/Printer.vo Model/Store.vo Model/Eval.vo
Proofs/Equality.vio: Proofs/Equality.v Base/Base.vio Model/Reader.vio Model/Printer.vio Model/Store.vio Model/Eval.vio
Proofs/Equality.vos Proofs/Equality.vok Proofs/Equality.required_vos: Proofs/Equality.v Base/Base.vos Model/Reader.vos Model/Printer.vos Model/Store.vos Model/Eval.vos
Proofs/Calls.vo Proofs/Calls.glob Proofs/Calls.v.beautified Proofs/Calls.required_vo: Proofs/Calls.v Base/Base.vo Model/Reader.vo Model/Printer.vo Model/Store.vo Model/Eval.vo
Proofs/Calls.vio: Proofs/Calls.v Base/Base.vio Model/Reader.vio Model/Printer.vio Model/Store.vio Model/Eval.vio
Proofs/Calls.vos Proofs/Calls.vok Proofs/Calls.required_vos: Proofs/Calls.v Base/Base.vos Model/Reader.vos Model/Printer.vos Model/Store.vos Model/Eval.vos
Proofs/Params.vo Proofs/Params.glob Proofs/Params.v.beautified Proofs/Params.required_vo: Proofs/Params.v Base/Base.vo Model/Reader.vo Model/Printer.vo Model/Store.vo Model/Eval.vo Proofs/Calls.vo Proofs/Lists.vo
Proofs/Params.vio: Proofs/Params.v Base/Base.vio Model/Reader.vio Model/Printer.vio Model/Store.vio Model/Eval.vio Proofs/Calls.vio Proofs/Lists.vio
Proofs/Params.vos Proofs/Params.vok Proofs/Params.required_vos: Proofs/Params.v Base/Base.vos Model/Reader.vos Model/Printer.vos Model/Store.vos Model/Eval.vos Proofs/Calls.vos Proofs/Lists.vos
Proofs/Contexts.vo Proofs/Contexts.glob Proofs/Contexts.v.beautified Proofs/Contexts.required_vo: Proofs/Contexts.v Base/Base.vo Model/Reader.vo Model/Printer.vo Model/Store.vo Model/Eval.vo Model/Init.vo
Proofs/Contexts.vio: Proofs/Contexts.v Base/Base.vio Model/Reader.vio Model/Printer.vio Model/Store.vio Model/Eval.vio Model/Init.vio
Proofs/Contexts.vos Proofs/Contexts.vok Proofs/Contexts.required_vos: Proofs/Contexts.v Base/Base.vos Model/Reader.vos Model/Printer.vos Model/Store.vos Model/Eval.vos Model/Init.vos
Proofs/Backquote.vo Proofs/Backquote.glob Proofs/Backquote.v.beautified Proofs/Backquote.required_vo: Proofs/Backquote.v Base/Base.vo Model/Reader.vo Model/Printer.vo Model/Store.vo Model/Eval.vo Proofs/Lists.vo
Proofs/Backquote.vio: Proofs/Backquote.v Base/Base.vio Model/Reader.vio Model/Printer.vio Model/Store.vio Model/Eval.vio Proofs/Lists.vio
Proofs/Backquote.vos Proofs/Backquote.vok Proofs/Backquote.required_vos: Proofs/Backquote.v Base/Base.vos Model/Reader.vos Model/Printer.vos Model/Store.vos Model/Eval.vos Proofs/Lists.vos
Proofs/Closures.vo Proofs/Closures.glob Proofs/Closures.v.beautified Proofs/Closures.required_vo: Proofs/Closures.v Base/Base.vo Model/Reader.vo Model/Printer.vo Model/Store.vo Model/Eval.vo
Proofs/Closures.vio: Proofs/Closures.v Base/Base.vio Model/Reader.vio Model/Printer.vio Model/Store.vio Model/Eval.vio
Proofs/Closures.vos Proofs/Closures.vok Proofs/Closures.required_vos: Proofs/Closures.v Base/Base.vos Model/Reader.vos Model/Printer.vos Model/Store.vos Model/Eval.vos
Proofs/Capture.vo Proofs/Capture.glob Proofs/Capture.v.beautified Proofs/Capture.required_vo: Proofs/Capture.v Base/Base.vo Model/Reader.vo Model/Printer.vo Model/Store.vo Model/Eval.vo Proofs/Closures.vo
Proofs/Capture.vio: Proofs/Capture.v Base/Base.vio Model/Reader.vio Model/Printer.vio Model/Store.vio Model/Eval.vio Proofs/Closures.vio
Proofs/Capture.vos Proofs/Capture.vok Proofs/Capture.required_vos: Proofs/Capture.v Base/Base.vos Model/Reader.vos Model/Printer.vos Model/Store.vos Model/Eval.vos Proofs/Closures.vos
Proofs/CaptureGen.vo Proofs/CaptureGen.glob Proofs/CaptureGen.v.beautified Proofs/CaptureGen.required_vo: Proofs/CaptureGen.v Base/Base.vo Model/Reader.vo Model/Printer.vo Model/Store.vo Model/Eval.vo Proofs/Closures.vo Proofs/Capture.vo
Proofs/CaptureGen.vio: Proofs/CaptureGen.v Base/Base.vio Model/Reader.vio Model/Printer.vio Model/Store.vio Model/Eval.vio Proofs/Closures.vio Proofs/Capture.vio
Proofs/CaptureGen.vos Proofs/CaptureGen.vok Proofs/CaptureGen.required_vos: Proofs/CaptureGen.v Base/Base.vos Model/Reader.vos Model/Printer.vos Model/Store.vos Model/Eval.vos Proofs/Closures.vos Proofs/Capture.vos
Proofs/Macros.vo Proofs/Macros.glob Proofs/Macros.v.beautified Proofs/Macros.required_vo: Proofs/Macros.v Base/Base.vo Model/Reader.vo Model/Printer.vo Model/Store.vo Model/Eval.vo Proofs/Lists.vo
Proofs/Macros.vio: Proofs/Macros.v Base/Base.vio Model/Reader.vio Model/Printer.vio Model/Store.vio Model/Eval.vio Proofs/Lists.vio
Proofs/Macros.vos Proofs/Macros.vok Proofs/Macros.required_vos: Proofs/Macros.v Base/Base.vos Model/Reader.vos Model/Printer.vos Model/Store.vos Model/Eval.vos Proofs/Lists.vos
Proofs/Cont.vo Proofs/Cont.glob Proofs/Cont.v.beautified Proofs/Cont.required_vo: Proofs/Cont.v Base/Base.vo Model/Reader.vo Model/Printer.vo Model/Store.vo Model/Eval.vo Proofs/ReaderTotal.vo Proofs/EvalRel.vo Proofs/Lists.vo Proofs/Backquote.vo
Proofs/Cont.vio: Proofs/Cont.v Base/Base.vio Model/Reader.vio Model/Printer.vio Model/Store.vio Model/Eval.vio Proofs/ReaderTotal.vio Proofs/EvalRel.vio Proofs/Lists.vio Proofs/Backquote.vio
Proofs/Cont.vos Proofs/Cont.vok Proofs/Cont.required_vos: Proofs/Cont.v Base/Base.vos Model/Reader.vos Model/Printer.vos Model/Store.vos Model/Eval.vos Proofs/ReaderTotal.vos Proofs/EvalRel.vos Proofs/Lists.vos Proofs/Backquote.vos
Spec/CoreSem.vo Spec/CoreSem.glob Spec/CoreSem.v.beautified Spec/CoreSem.required_vo: Spec/CoreSem.v Base/Base.vo Model/Reader.vo Model/Printer.vo Model/Store.vo Model/Eval.vo Proofs/Calls.vo
Spec/CoreSem.vio: Spec/CoreSem.v Base/Base.vio Model/Reader.vio Model/Printer.vio Model/Store.vio Model/Eval.vio Proofs/Calls.vio
Spec/CoreSem.vos Spec/CoreSem.vok Spec/CoreSem.required_vos: Spec/CoreSem.v Base/Base.vos Model/Reader.vos Model/Printer.vos Model/Store.vos Model/Eval.vos Proofs/Calls.vos
Proofs/CoreRefine.vo Proofs/CoreRefine.glob Proofs/CoreRefine.v.beautified Proofs/CoreRefine.required_vo: Proofs/CoreRefine.v Base/Base.vo Model/Reader.vo Model/Printer.vo Model/Store.vo Model/Eval.vo Proofs/ReaderTotal.vo Proofs/EvalRel.vo Proofs/Lists.vo Proofs/Calls.vo Proofs/Cont.vo Spec/CoreSem.vo
Proofs/CoreRefine.vio: Proofs/CoreRefine.v Base/Base.vio Model/Reader.vio Model/Printer.vio Model/Store.vio Model/Eval.vio Proofs/ReaderTotal.vio Proofs/EvalRel.vio Proofs/Lists.vio Proofs/Calls.vio Proofs/Cont.vio Spec/CoreSem.vio
Proofs/CoreRefine.vos Proofs/CoreRefine.vok Proofs/CoreRefine.required_vos: Proofs/CoreRefine.v Base/Base.vos Model/Reader.vos Model/Printer.vos Model/Store.vos Model/Eval.vos Proofs/ReaderTotal.vos Proofs/EvalRel.vos Proofs/Lists.vos Proofs/Calls.vos Proofs/Cont.vos Spec/CoreSem.vos
Proofs/TailCalls.vo Proofs/TailCalls.glob Proofs/TailCalls.v.beautified Proofs/TailCalls.required_vo: Proofs/TailCalls.v Base/Base.vo Model/Reader.vo Model/Printer.vo Model/Store.vo Model/Eval.vo Proofs/EvalRel.vo
Proofs/TailCalls.vio: Proofs/TailCalls.v Base/Base.vio Model/Reader.vio Model/Printer.vio Model/Store.vio Model/Eval.vio Proofs/EvalRel.vio
Proofs/TailCalls.vos Proofs/TailCalls.vok Proofs/TailCalls.required_vos: Proofs/TailCalls.v Base/Base.vos Model/Reader.vos Model/Printer.vos Model/Store.vos Model/Eval.vos Proofs/EvalRel.vos
Proofs/ReadPrint.vo Proofs/ReadPrint.glob Proofs/ReadPrint.v.beautified Proofs/ReadPrint.required_vo: Proofs/ReadPrint.v Base/Base.vo Model/Reader.vo Model/Printer.vo Model/Store.vo Model/Eval.vo Proofs/ReaderTotal.vo Proofs/Decimal.vo
Proofs/ReadPrint.vio: Proofs/ReadPrint.v Base/Base.vio Model/Reader.vio Model/Printer.vio Model/Store.vio Model/Eval.vio Proofs/ReaderTotal.vio Proofs/Decimal.vio
Proofs/ReadPrint.vos Proofs/ReadPrint.vok Proofs/ReadPrint.required_vos: Proofs/ReadPrint.v Base/Base.vos Model/Reader.vos Model/Printer.vos Model/Store.vos Model/Eval.vos Proofs/ReaderTotal.vos Proofs/Decimal.vos
Proofs/Positions.vo Proofs/Positions.glob Proofs/Positions.v.beautified Proofs/Positions.required_vo: Proofs/Positions.v Base/Base.vo Model/Reader.vo Proofs/ReaderTotal.vo
Proofs/Positions.vio: Proofs/Positions.v Base/Base.vio Model/Reader.vio Proofs/ReaderTotal.vio
Proofs/Positions.vos Proofs/Positions.vok Proofs/Positions.required_vos: Proofs/Positions.v Base/Base.vos Model/Reader.vos Proofs/ReaderTotal.vos
Proofs/Lexer.vo Proofs/Lexer.glob Proofs/Lexer.v.beautified Proofs/Lexer.required_vo: Proofs/Lexer.v Base/Base.vo Model/Reader.vo Model/Printer.vo Model/Store.vo Model/Eval.vo Proofs/ReaderTotal.vo Proofs/Decimal.vo Proofs/ReadPrint.vo Proofs/Positions.vo
Proofs/Lexer.vio: Proofs/Lexer.v Base/Base.vio Model/Reader.vio Model/Printer.vio Model/Store.vio Model/Eval.vio Proofs/ReaderTotal.vio Proofs/Decimal.vio Proofs/ReadPrint.vio Proofs/Positions.vio
Proofs/Lexer.vos Proofs/Lexer.vok Proofs/Lexer.required_vos: Proofs/Lexer.v Base/Base.vos Model/Reader.vos Model/Printer.vos Model/Store.vos Model/Eval.vos Proofs/ReaderTotal.vos Proofs/Decimal.vos Proofs/ReadPrint.vos Proofs/Positions.vos
Proofs/Heap.vo Proofs/Heap.glob Proofs/Heap.v.beautified Proofs/Heap.required_vo: Proofs/Heap.v Base/Base.vo Model/Reader.vo Model/Printer.vo Model/Api.vo
Proofs/Heap.vio: Proofs/Heap.v Base/Base.vio Model/Reader.vio Model/Printer.vio Model/Api.vio
Proofs/Heap.vos Proofs/Heap.vok Proofs/Heap.required_vos: Proofs/Heap.v Base/Base.vos Model/Reader.vos Model/Printer.vos Model/Api.vos
Proofs/Build.vo Proofs/Build.glob Proofs/Build.v.beautified Proofs/Build.required_vo: Proofs/Build.v Base/Base.vo Model/Reader.vo Model/Printer.vo Model/Api.vo Proofs/Heap.vo
Proofs/Build.vio: Proofs/Build.v Base/Base.vio Model/Reader.vio Model/Printer.vio Model/Api.vio Proofs/Heap.vio
Proofs/Build.vos Proofs/Build.vok Proofs/Build.required_vos: Proofs/Build.v Base/Base.vos Model/Reader.vos Model/Printer.vos Model/Api.vos Proofs/Heap.vos
Proofs/Seq.vo Proofs/Seq.glob Proofs/Seq.v.beautified Proofs/Seq.required_vo: Proofs/Seq.v Base/Base.vo Model/Reader.vo Model/Printer.vo Model/Api.vo Proofs/Heap.vo Proofs/Build.vo
Proofs/Seq.vio: Proofs/Seq.v Base/Base.vio Model/Reader.vio Model/Printer.vio Model/Api.vio Proofs/Heap.vio Proofs/Build.vio
Proofs/Seq.vos Proofs/Seq.vok Proofs/Seq.required_vos: Proofs/Seq.v Base/Base.vos Model/Reader.vos Model/Printer.vos Model/Api.vos Proofs/Heap.vos Proofs/Build.vos
Proofs/Depth.vo Proofs/Depth.glob Proofs/Depth.v.beautified Proofs/Depth.required_vo: Proofs/Depth.v Base/Base.vo Model/Reader.vo Model/Printer.vo Model/Store.vo Model/Eval.vo
Proofs/Depth.vio: Proofs/Depth.v Base/Base.vio Model/Reader.vio Model/Printer.vio Model/Store.vio Model/Eval.vio
Proofs/Depth.vos Proofs/Depth.vok Proofs/Depth.required_vos: Proofs/Depth.v Base/Base.vos Model/Reader.vos Model/Printer.vos Model/Store.vos Model/Eval.vos
Proofs/Hidden.vo Proofs/Hidden.glob Proofs/Hidden.v.beautified Proofs/Hidden.required_vo: Proofs/Hidden.v Base/Base.vo Model/Reader.vo Model/Printer.vo Model/Store.vo Model/Eval.vo Proofs/ReaderTotal.vo Proofs/EvalRel.vo Proofs/Lists.vo Proofs/Backquote.vo Proofs/Closures.vo Proofs/Capture.vo Proofs/Cont.vo
Proofs/Hidden.vio: Proofs/Hidden.v Base/Base.vio Model/Reader.vio Model/Printer.vio Model/Store.vio Model/Eval.vio Proofs/ReaderTotal.vio Proofs/EvalRel.vio Proofs/Lists.vio Proofs/Backquote.vio Proofs/Closures.vio Proofs/Capture.vio Proofs/Cont.vio
Proofs/Hidden.vos Proofs/Hidden.vok Proofs/Hidden.required_vos: Proofs/Hidden.v Base/Base.vos Model/Reader.vos Model/Printer.vos Model/Store.vos Model/Eval.vos Proofs/ReaderTotal.vos Proofs/EvalRel.vos Proofs/Lists.vos Proofs/Backquote.vos Proofs/Closures.vos Proofs/Capture.vos Proofs/Cont.vos
Proofs/Tramp.vo Proofs/Tramp.glob Proofs/Tramp.v.beautified Proofs/Tramp.required_vo: Proofs/Tramp.v Base/Base.vo Model/Reader.vo Model/Printer.vo Model/Store.vo Model/Eval.vo Proofs/ReaderTotal.vo Proofs/EvalRel.vo Proofs/Hidden.vo
Proofs/Tramp.vio: Proofs/Tramp.v Base/Base.vio Model/Reader.vio Model/Printer.vio Model/Store.vio Model/Eval.vio Proofs/ReaderTotal.vio Proofs/EvalRel.vio Proofs/Hidden.vio
Proofs/Tramp.vos Proofs/Tramp.vok Proofs/Tramp.required_vos: Proofs/Tramp.v Base/Base.vos Model/Reader.vos Model/Printer.vos Model/Store.vos Model/Eval.vos Proofs/ReaderTotal.vos Proofs/EvalRel.vos Proofs/Hidden.vos
Proofs/Frame.vo Proofs/Frame.glob Proofs/Frame.v.beautified Proofs/Frame.required_vo: Proofs/Frame.v Base/Base.vo Model/Reader.vo Model/Printer.vo Model/Store.vo Model/Eval.vo Proofs/ReaderTotal.vo Proofs/EvalRel.vo Proofs/Hidden.vo Proofs/Tramp.vo
Proofs/Frame.vio: Proofs/Frame.v Base/Base.vio Model/Reader.vio Model/Printer.vio Model/Store.vio Model/Eval.vio Proofs/ReaderTotal.vio Proofs/EvalRel.vio Proofs/Hidden.vio Proofs/Tramp.vio
Proofs/Frame.vos Proofs/Frame.vok Proofs/Frame.required_vos: Proofs/Frame.v Base/Base.vos Model/Reader.vos Model/Printer.vos Model/Store.vos Model/Eval.vos Proofs/ReaderTotal.vos Proofs/EvalRel.vos Proofs/Hidden.vos Proofs/Tramp.vos
Props/C01.vo Props/C01.glob Props/C01.v.beautified Props/C01.required_vo: Props/C01.v Base/Base.vo Model/Reader.vo Model/Printer.vo Model/Store.vo Model/Eval.vo Model/Init.vo Proofs/EvalRel.vo Proofs/Cont.vo Proofs/CoreRefine.vo Spec/CoreSem.vo
Props/C01.vio: Props/C01.v Base/Base.vio Model/Reader.vio Model/Printer.vio Model/Store.vio Model/Eval.vio Model/Init.vio Proofs/EvalRel.vio Proofs/Cont.vio Proofs/CoreRefine.vio Spec/CoreSem.vio
Props/C01.vos Props/C01.vok Props/C01.required_vos: Props/C01.v Base/Base.vos Model/Reader.vos Model/Printer.vos Model/Store.vos Model/Eval.vos Model/Init.vos Proofs/EvalRel.vos Proofs/Cont.vos Proofs/CoreRefine.vos Spec/CoreSem.vos
Props/C02.vo Props/C02.glob Props/C02.v.beautified Props/C02.required_vo: Props/C02.v Base/Base.vo Model/Reader.vo Model/Printer.vo Model/Store.vo Model/Eval.vo Model/Init.vo Proofs/Calls.vo Proofs/Params.vo
Props/C02.vio: Props/C02.v Base/Base.vio Model/Reader.vio Model/Printer.vio Model/Store.vio Model/Eval.vio Model/Init.vio Proofs/Calls.vio Proofs/Params.vio
Props/C02.vos Props/C02.vok Props/C02.required_vos: Props/C02.v Base/Base.vos Model/Reader.vos Model/Printer.vos Model/Store.vos Model/Eval.vos Model/Init.vos Proofs/Calls.vos Proofs/Params.vos
Props/C03.vo Props/C03.glob Props/C03.v.beautified Props/C03.required_vo: Props/C03.v Base/Base.vo Model/Reader.vo Model/Printer.vo Model/Store.vo Model/Eval.vo Model/Init.vo Proofs/EvalRel.vo Proofs/Hidden.vo Proofs/Tramp.vo Proofs/Frame.vo
Props/C03.vio: Props/C03.v Base/Base.vio Model/Reader.vio Model/Printer.vio Model/Store.vio Model/Eval.vio Model/Init.vio Proofs/EvalRel.vio Proofs/Hidden.vio Proofs/Tramp.vio Proofs/Frame.vio
Props/C03.vos Props/C03.vok Props/C03.required_vos: Props/C03.v Base/Base.vos Model/Reader.vos Model/Printer.vos Model/Store.vos Model/Eval.vos Model/Init.vos Proofs/EvalRel.vos Proofs/Hidden.vos Proofs/Tramp.vos Proofs/Frame.vos
Props/C04.vo Props/C04.glob Props/C04.v.beautified Props/C04.required_vo: Props/C04.v Base/Base.vo Model/Reader.vo Model/Printer.vo Model/Store.vo Model/Eval.vo Model/Init.vo Proofs/EvalRel.vo Proofs/TailCalls.vo Proofs/Calls.vo Proofs/Hidden.vo Proofs/Tramp.vo
Props/C04.vio: Props/C04.v Base/Base.vio Model/Reader.vio Model/Printer.vio Model/Store.vio Model/Eval.vio Model/Init.vio Proofs/EvalRel.vio Proofs/TailCalls.vio Proofs/Calls.vio Proofs/Hidden.vio Proofs/Tramp.vio
Props/C04.vos Props/C04.vok Props/C04.required_vos: Props/C04.v Base/Base.vos Model/Reader.vos Model/Printer.vos Model/Store.vos Model/Eval.vos Model/Init.vos Proofs/EvalRel.vos Proofs/TailCalls.vos Proofs/Calls.vos Proofs/Hidden.vos Proofs/Tramp.vos
Props/C05.vo Props/C05.glob Props/C05.v.beautified Props/C05.required_vo: Props/C05.v Base/Base.vo Model/Reader.vo Model/Printer.vo Model/Store.vo Model/Eval.vo Model/Init.vo Proofs/Closures.vo Proofs/Capture.vo Proofs/CaptureGen.vo Proofs/EvalRel.vo
Props/C05.vio: Props/C05.v Base/Base.vio Model/Reader.vio Model/Printer.vio Model/Store.vio Model/Eval.vio Model/Init.vio Proofs/Closures.vio Proofs/Capture.vio Proofs/CaptureGen.vio Proofs/EvalRel.vio
Props/C05.vos Props/C05.vok Props/C05.required_vos: Props/C05.v Base/Base.vos Model/Reader.vos Model/Printer.vos Model/Store.vos Model/Eval.vos Model/Init.vos Proofs/Closures.vos Proofs/Capture.vos Proofs/CaptureGen.vos Proofs/EvalRel.vos
Props/C06.vo Props/C06.glob Props/C06.v.beautified Props/C06.required_vo: Props/C06.v Base/Base.vo Model/Reader.vo Model/Printer.vo Model/Store.vo Model/Eval.vo Model/Init.vo Proofs/Macros.vo
Props/C06.vio: Props/C06.v Base/Base.vio Model/Reader.vio Model/Printer.vio Model/Store.vio Model/Eval.vio Model/Init.vio Proofs/Macros.vio
Props/C06.vos Props/C06.vok Props/C06.required_vos: Props/C06.v Base/Base.vos Model/Reader.vos Model/Printer.vos Model/Store.vos Model/Eval.vos Model/Init.vos Proofs/Macros.vos
Props/C07.vo Props/C07.glob Props/C07.v.beautified Props/C07.required_vo: Props/C07.v Base/Base.vo Model/Reader.vo Model/Printer.vo Model/Store.vo Model/Eval.vo Model/Init.vo Proofs/Lists.vo Proofs/Backquote.vo Model/Api.vo Proofs/Heap.vo Proofs/Build.vo
Props/C07.vio: Props/C07.v Base/Base.vio Model/Reader.vio Model/Printer.vio Model/Store.vio Model/Eval.vio Model/Init.vio Proofs/Lists.vio Proofs/Backquote.vio Model/Api.vio Proofs/Heap.vio Proofs/Build.vio
Props/C07.vos Props/C07.vok Props/C07.required_vos: Props/C07.v Base/Base.vos Model/Reader.vos Model/Printer.vos Model/Store.vos Model/Eval.vos Model/Init.vos Proofs/Lists.vos Proofs/Backquote.vos Model/Api.vos Proofs/Heap.vos Proofs/Build.vos
Props/C08.vo Props/C08.glob Props/C08.v.beautified Props/C08.required_vo: Props/C08.v Base/Base.vo Model/Reader.vo Proofs/ReaderTotal.vo
Props/C08.vio: Props/C08.v Base/Base.vio Model/Reader.vio Proofs/ReaderTotal.vio
Props/C08.vos Props/C08.vok Props/C08.required_vos: Props/C08.v Base/Base.vos Model/Reader.vos Proofs/ReaderTotal.vos
Props/C09.vo Props/C09.glob Props/C09.v.beautified Props/C09.required_vo: Props/C09.v Base/Base.vo Model/Reader.vo Model/Printer.vo Model/Store.vo Model/Eval.vo Model/Init.vo Proofs/Decimal.vo Proofs/ReadPrint.vo Proofs/Lexer.vo
Props/C09.vio: Props/C09.v Base/Base.vio Model/Reader.vio Model/Printer.vio Model/Store.vio Model/Eval.vio Model/Init.vio Proofs/Decimal.vio Proofs/ReadPrint.vio Proofs/Lexer.vio
Props/C09.vos Props/C09.vok Props/C09.required_vos: Props/C09.v Base/Base.vos Model/Reader.vos Model/Printer.vos Model/Store.vos Model/Eval.vos Model/Init.vos Proofs/Decimal.vos Proofs/ReadPrint.vos Proofs/Lexer.vos
Props/C10.vo Props/C10.glob Props/C10.v.beautified Props/C10.required_vo: Props/C10.v Base/Base.vo Model/Reader.vo Model/Printer.vo Model/Store.vo Model/Eval.vo Model/Init.vo Proofs/EvalRel.vo
Props/C10.vio: Props/C10.v Base/Base.vio Model/Reader.vio Model/Printer.vio Model/Store.vio Model/Eval.vio Model/Init.vio Proofs/EvalRel.vio
Props/C10.vos Props/C10.vok Props/C10.required_vos: Props/C10.v Base/Base.vos Model/Reader.vos Model/Printer.vos Model/Store.vos Model/Eval.vos Model/Init.vos Proofs/EvalRel.vos
Props/C11.vo Props/C11.glob Props/C11.v.beautified Props/C11.required_vo: Props/C11.v Base/Base.vo Model/Reader.vo Model/Printer.vo Model/Store.vo Model/Eval.vo Model/Init.vo Model/Api.vo Proofs/Heap.vo Proofs/EvalRel.vo Proofs/Build.vo Proofs/Seq.vo
Props/C11.vio: Props/C11.v Base/Base.vio Model/Reader.vio Model/Printer.vio Model/Store.vio Model/Eval.vio Model/Init.vio Model/Api.vio Proofs/Heap.vio Proofs/EvalRel.vio Proofs/Build.vio Proofs/Seq.vio
Props/C11.vos Props/C11.vok Props/C11.required_vos: Props/C11.v Base/Base.vos Model/Reader.vos Model/Printer.vos Model/Store.vos Model/Eval.vos Model/Init.vos Model/Api.vos Proofs/Heap.vos Proofs/EvalRel.vos Proofs/Build.vos Proofs/Seq.vos
Props/C12.vo Props/C12.glob Props/C12.v.beautified Props/C12.required_vo: Props/C12.v Base/Base.vo Model/Reader.vo Model/Printer.vo Model/Store.vo Model/Eval.vo Model/Init.vo Proofs/Lists.vo
Props/C12.vio: Props/C12.v Base/Base.vio Model/Reader.vio Model/Printer.vio Model/Store.vio Model/Eval.vio Model/Init.vio Proofs/Lists.vio
Props/C12.vos Props/C12.vok Props/C12.required_vos: Props/C12.v Base/Base.vos Model/Reader.vos Model/Printer.vos Model/Store.vos Model/Eval.vos Model/Init.vos Proofs/Lists.vos
Props/C13.vo Props/C13.glob Props/C13.v.beautified Props/C13.required_vo: Props/C13.v Base/Base.vo Model/Reader.vo Model/Printer.vo Model/Store.vo Model/Eval.vo Model/Init.vo Proofs/Numeric.vo
Props/C13.vio: Props/C13.v Base/Base.vio Model/Reader.vio Model/Printer.vio Model/Store.vio Model/Eval.vio Model/Init.vio Proofs/Numeric.vio
Props/C13.vos Props/C13.vok Props/C13.required_vos: Props/C13.v Base/Base.vos Model/Reader.vos Model/Printer.vos Model/Store.vos Model/Eval.vos Model/Init.vos Proofs/Numeric.vos
Props/C14.vo Props/C14.glob Props/C14.v.beautified Props/C14.required_vo: Props/C14.v Base/Base.vo Model/Reader.vo Model/Printer.vo Model/Store.vo Model/Eval.vo Model/Init.vo Proofs/Equality.vo
Props/C14.vio: Props/C14.v Base/Base.vio Model/Reader.vio Model/Printer.vio Model/Store.vio Model/Eval.vio Model/Init.vio Proofs/Equality.vio
Props/C14.vos Props/C14.vok Props/C14.required_vos: Props/C14.v Base/Base.vos Model/Reader.vos Model/Printer.vos Model/Store.vos Model/Eval.vos Model/Init.vos Proofs/Equality.vos
Props/C15.vo Props/C15.glob Props/C15.v.beautified Props/C15.required_vo: Props/C15.v Base/Base.vo Model/Reader.vo Model/Printer.vo Model/Store.vo Model/Eval.vo Model/Init.vo Proofs/Decimal.vo Proofs/Strings.vo
Props/C15.vio: Props/C15.v Base/Base.vio Model/Reader.vio Model/Printer.vio Model/Store.vio Model/Eval.vio Model/Init.vio Proofs/Decimal.vio Proofs/Strings.vio
Props/C15.vos Props/C15.vok Props/C15.required_vos: Props/C15.v Base/Base.vos Model/Reader.vos Model/Printer.vos Model/Store.vos Model/Eval.vos Model/Init.vos Proofs/Decimal.vos Proofs/Strings.vos
Props/C16.vo Props/C16.glob Props/C16.v.beautified Props/C16.required_vo: Props/C16.v Base/Base.vo Model/Reader.vo Model/Printer.vo Model/Store.vo Model/Eval.vo Model/Init.vo Proofs/ReaderTotal.vo Proofs/Positions.vo
Props/C16.vio: Props/C16.v Base/Base.vio Model/Reader.vio Model/Printer.vio Model/Store.vio Model/Eval.vio Model/Init.vio Proofs/ReaderTotal.vio Proofs/Positions.vio
Props/C16.vos Props/C16.vok Props/C16.required_vos: Props/C16.v Base/Base.vos Model/Reader.vos Model/Printer.vos Model/Store.vos Model/Eval.vos Model/Init.vos Proofs/ReaderTotal.vos Proofs/Positions.vos
Props/C17.vo Props/C17.glob Props/C17.v.beautified Props/C17.required_vo: Props/C17.v Base/Base.vo Model/Reader.vo Model/Printer.vo Model/Store.vo Model/Eval.vo Model/Init.vo Proofs/Sort.vo
Props/C17.vio: Props/C17.v Base/Base.vio Model/Reader.vio Model/Printer.vio Model/Store.vio Model/Eval.vio Model/Init.vio Proofs/Sort.vio
Props/C17.vos Props/C17.vok Props/C17.required_vos: Props/C17.v Base/Base.vos Model/Reader.vos Model/Printer.vos Model/Store.vos Model/Eval.vos Model/Init.vos Proofs/Sort.vos
Props/C18.vo Props/C18.glob Props/C18.v.beautified Props/C18.required_vo: Props/C18.v Base/Base.vo Model/Reader.vo Model/Printer.vo Model/Store.vo Model/Eval.vo Model/Init.vo Proofs/Depth.vo Proofs/EvalRel.vo Proofs/TailCalls.vo
Props/C18.vio: Props/C18.v Base/Base.vio Model/Reader.vio Model/Printer.vio Model/Store.vio Model/Eval.vio Model/Init.vio Proofs/Depth.vio Proofs/EvalRel.vio Proofs/TailCalls.vio
Props/C18.vos Props/C18.vok Props/C18.required_vos: Props/C18.v Base/Base.vos Model/Reader.vos Model/Printer.vos Model/Store.vos Model/Eval.vos Model/Init.vos Proofs/Depth.vos Proofs/EvalRel.vos Proofs/TailCalls.vos
Props/C19.vo Props/C19.glob Props/C19.v.beautified Props/C19.required_vo: Props/C19.v Base/Base.vo Model/Reader.vo Model/Printer.vo Model/Store.vo Model/Eval.vo Model/Init.vo Proofs/Contexts.vo
Props/C19.vio: Props/C19.v Base/Base.vio Model/Reader.vio Model/Printer.vio Model/Store.vio Model/Eval.vio Model/Init.vio Proofs/Contexts.vio
Props/C19.vos Props/C19.vok Props/C19.required_vos: Props/C19.v Base/Base.vos Model/Reader.vos Model/Printer.vos Model/Store.vos Model/Eval.vos Model/Init.vos Proofs/Contexts.vos
Props/C20.vo Props/C20.glob Props/C20.v.beautified Props/C20.required_vo: Props/C20.v Base/Base.vo Model/Reader.vo Model/Printer.vo Model/Api.vo Proofs/Heap.vo Proofs/Build.vo Proofs/Seq.vo
Props/C20.vio: Props/C20.v Base/Base.vio Model/Reader.vio Model/Printer.vio Model/Api.vio Proofs/Heap.vio Proofs/Build.vio Proofs/Seq.vio
Props/C20.vos Props/C20.vok Props/C20.required_vos: Props/C20.v Base/Base.vos Model/Reader.vos Model/Printer.vos Model/Api.vos Proofs/Heap.vos Proofs/Build.vos Proofs/Seq.vos
