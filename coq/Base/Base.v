(* Base definitions shared by the model, the specs and the proofs. *)
From Coq Require Export List ZArith NArith PArith Bool Lia String Ascii.
From Coq Require Export FMapPositive.
Export ListNotations.
Open Scope Z_scope.

(* ------------------------------------------------------------------ *)
(* Outcomes.  [Panic site] marks a partial Rust operation reached with  *)
(* an operand outside its domain (unwrap, usize subtraction, overflow). *)

Inductive ekind :=
| ENotImpl | EParse | EType | EUndef | EUninit | ESyntax | EMissing | ERange
| EHost.

Inductive res (A : Type) :=
| Ok (a : A) | Err (e : ekind) | Panic (site : N) | Fuel.
Arguments Ok {A}. Arguments Err {A}. Arguments Panic {A}. Arguments Fuel {A}.

Definition is_panic {A} (r : res A) : bool :=
  match r with Panic _ => true | _ => false end.
Definition is_fuel {A} (r : res A) : bool :=
  match r with Fuel => true | _ => false end.

(* ------------------------------------------------------------------ *)
(* Text = list of Unicode code points.                                  *)

Definition cp := N.
Definition text := list cp.

Definition ascii_cp (a : ascii) : cp := N_of_ascii a.
Fixpoint s2t (s : string) : text :=
  match s with EmptyString => [] | String a r => ascii_cp a :: s2t r end.

Fixpoint text_eqb (a b : text) : bool :=
  match a, b with
  | [], [] => true
  | x :: a', y :: b' => N.eqb x y && text_eqb a' b'
  | _, _ => false
  end.

Lemma text_eqb_eq a b : text_eqb a b = true <-> a = b.
Proof.
  revert b; induction a as [|x a IH]; intros [|y b]; simpl; split; intros H;
    try congruence; try discriminate.
  - apply andb_true_iff in H as [H1 H2]. apply N.eqb_eq in H1.
    apply IH in H2. congruence.
  - inversion H; subst. rewrite N.eqb_refl. simpl. apply IH. reflexivity.
Qed.

Lemma text_eqb_refl a : text_eqb a a = true.
Proof. apply text_eqb_eq. reflexivity. Qed.

(* ------------------------------------------------------------------ *)
(* Keys of the binding store.  Interned symbols are keyed by an        *)
(* encoding of their name; uninterned symbols and closure cells by an   *)
(* allocation serial.                                                  *)

Fixpoint pos_app_bits (n : nat) (c : N) (p : positive) : positive :=
  match n with
  | O => p
  | S n' => pos_app_bits n' (N.div2 c)
              (if N.odd c then xI p else xO p)
  end.

(* 21 bits per code point, prefixed by a length-independent layout:     *)
(* the encoding is a fold, so distinct names give distinct keys.        *)
Fixpoint encode_name (t : text) (p : positive) : positive :=
  match t with
  | [] => p
  | c :: r => encode_name r (pos_app_bits 21 c p)
  end.

Definition key := positive.
Definition key_of_name (t : text) : key := xO (encode_name t xH).
Definition key_of_id (id : positive) : key := xI id.

(* ------------------------------------------------------------------ *)
(* Built-in functions and macros.                                      *)

Inductive prim :=
(* special forms registered with set_global *)
| PAdd | PSub | PMul | PDiv | PGt | PGe | PLt | PLe | PMax | PMin
| PFround | PFtruncate | PIf | PCond | PSetq | PSet | PCons | PDolist
| PDotimes | PList
| PConsp | PListp | PFloatp | PIntegerp | PNumberp | PStringp | PSymbolp
| PBoundp | PKeywordp
| PStrLt | PStrGt | PStrEq | PStrLessp | PStrGreaterp | PStrEqual
(* crate_fn, arguments evaluated by the generated wrapper *)
| PLoad | PIntern | PMakeSymbol | PGensym | PExpt | PConcat | PFormat
| PPrint | PPrin1ToString | PPrinc | PNull | PEval | PMacroexpand
| PAppend | PMapcar | PAssoc | PAlistGet | PPlistGet | PNot | PXor
| PEqual | PEq | PMakeHashTable | PGethash | PPuthash
| PNth | PNthcdr | PLast | PCxr (path : list bool)
| PLength | PSeqMap | PSeqReduce | PSeqFilter | PSeqFind | PSort
| P1Plus | P1Minus | PMod
(* crate_fn_no_eval *)
| PWhile | PLet | PLetStar | PProgn | PDefun | PLambda | PDefmacro
| PFuncall | PAnd | POr | PDeclare
(* host-registered by the harness *)
| PTick | PProbe | PHostAdd | PHostBox | PHostOpt | PHostConv | PHostId.

Inductive pmac :=
| MWhen | MUnless | MIfLetStar | MIfLet | MWhenLet | MWhileLet
| MThreadFirst | MThreadLast | MQuote.

(* ------------------------------------------------------------------ *)
(* Values.                                                             *)

Inductive sx :=
| Nil | T
| Int (z : Z)
| Flt (bits : Z)                       (* binary64 bit pattern          *)
| Str (s : text)
| Sym (n : text)                       (* interned symbol               *)
| USym (n : text) (id : positive)      (* make-symbol / gensym          *)
| Cell (n : text) (id : positive) (root : key)   (* LexicalBinding      *)
| Cons (a d : sx)
| Quote (x : sx) | Bq (x : sx) | Unq (x : sx) | Splice (x : sx)
| Sharp (x : sx)
| Lam (ps body : sx)
| Mac (ps body : sx)
| Prim (p : prim)
| PMac (m : pmac)
| Bounce
| Any (h : option positive).           (* hash table id / foreign box   *)

Definition sx_list := list sx.

Fixpoint of_list (l : list sx) (tail : sx) : sx :=
  match l with [] => tail | x :: r => Cons x (of_list r tail) end.

(* [items x]: what base_iter yields: the cars along the spine; an       *)
(* improper tail is ignored.                                           *)
Fixpoint items (x : sx) : list sx :=
  match x with Cons a d => a :: items d | _ => [] end.

(* the part left after the last cons (Nil for a proper list) *)
Fixpoint tail_of (x : sx) : sx :=
  match x with Cons _ d => tail_of d | t => t end.

Lemma of_list_items x : of_list (items x) (tail_of x) = x.
Proof. induction x; simpl; try reflexivity. rewrite IHx2. reflexivity. Qed.

Lemma items_of_list l t : (forall a d, t <> Cons a d) -> items (of_list l t) = l.
Proof.
  intros Ht; induction l as [|x l IH]; simpl.
  - destruct t; try reflexivity. exfalso; eapply Ht; reflexivity.
  - rewrite IH. reflexivity.
Qed.

Definition consp (x : sx) : bool := match x with Cons _ _ => true | _ => false end.
Definition null (x : sx) : bool := match x with Nil => true | _ => false end.
Definition listp (x : sx) : bool := consp x || null x.
Definition symbolp (x : sx) : bool :=
  match x with Sym _ | USym _ _ | Cell _ _ _ => true | _ => false end.
Definition integerp (x : sx) : bool := match x with Int _ => true | _ => false end.
Definition floatp (x : sx) : bool := match x with Flt _ => true | _ => false end.
Definition numberp (x : sx) : bool := integerp x || floatp x.
Definition stringp (x : sx) : bool := match x with Str _ => true | _ => false end.

Definition sym_name (x : sx) : option text :=
  match x with
  | Sym n | USym n _ | Cell n _ _ => Some n
  | _ => None
  end.

Definition key_of (x : sx) : option key :=
  match x with
  | Sym n => Some (key_of_name n)
  | USym _ id => Some (key_of_id id)
  | Cell _ id _ => Some (key_of_id id)
  | _ => None
  end.

Definition colon : cp := 58%N.
Definition name_constant (n : text) : bool :=
  match n with c :: _ => N.eqb c colon | [] => false end.

(* keywordp: Symbol whose name starts with ':' (not a closure cell) *)
Definition keywordp (x : sx) : bool :=
  match x with
  | Sym n | USym n _ => name_constant n
  | _ => false
  end.

Definition i64_min : Z := - 2 ^ 63.
Definition i64_max : Z := 2 ^ 63 - 1.
Definition in_i64 (z : Z) : bool := (i64_min <=? z) && (z <=? i64_max).

(* ------------------------------------------------------------------ *)
(* Floating point: an oracle record over bit patterns, supplied by the *)
(* driver of the extracted code (hardware binary64).                   *)

Record fops := {
  f_add : Z -> Z -> Z; f_sub : Z -> Z -> Z; f_mul : Z -> Z -> Z;
  f_div : Z -> Z -> Z; f_rem : Z -> Z -> Z; f_pow : Z -> Z -> Z;
  f_max : Z -> Z -> Z; f_min : Z -> Z -> Z;
  f_of_int : Z -> Z;            (* i64 as f64 *)
  f_to_int : Z -> Z;            (* f64 as i64 after trunc, saturating *)
  f_round : Z -> Z; f_trunc : Z -> Z;
  f_lt : Z -> Z -> bool; f_le : Z -> Z -> bool; f_eq : Z -> Z -> bool;
  f_is_finite : Z -> bool;
  f_to_dec : Z -> text;         (* Rust Display for f64 *)
  f_of_dec : text -> option Z   (* Rust str::parse::<f64> *)
}.
