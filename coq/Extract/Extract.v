From TL Require Import Base.Base Model.Reader Model.Printer Model.Store Model.Eval Model.Init Model.Api.
Require Import ExtrOcamlBasic.
Extraction Language OCaml.
Extraction "tlmodel.ml"
  eval_string eval_file parse_string init_state reset_request add_file var_items
  print princ read_ax strip ax_span tokenize run_ops init_world.
