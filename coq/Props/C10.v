(* C10 - Evaluation never panics: every failure is an error value.       *)
(* Statements only; the proofs are in Proofs/EvalRel.v.                    *)
From TL Require Import Base.Base Model.Reader Model.Printer Model.Store Model.Eval Model.Init.
From TL Require Import Proofs.EvalRel.

(* The model marks every partial operation of the Rust code that it        *)
(* mirrors with an explicit Panic outcome: the unwrap()s and usize          *)
(* subtractions of the reader, items.last_mut().unwrap() in set_unchecked  *)
(* (dolist / dotimes).  Arithmetic is modelled as the checked i64           *)
(* operations the repaired code uses; their overflow is Err ERange.        *)
(* For every float oracle, text, state, fault point and fuel, no evaluation *)
(* request reaches a Panic site: the outcome is a value, an error, or the   *)
(* model's Fuel.                                                            *)
Theorem C10_no_panic :
  forall (F : fops) (fuel : nat) (t : text) (s s' : st) (r : res sx) (site : N),
    eval_string F fuel t s = (r, s') -> r <> Panic site.
Proof.
  intros F fuel t s s' r site H E. subst r.
  destruct (eval_string_inv F fuel t s _ s' H) as [_ N]; [discriminate|discriminate N].
Qed.
Print Assumptions C10_no_panic.

Theorem C10_no_panic_file :
  forall (F : fops) (fuel : nat) (n : text) (s s' : st) (r : res sx) (site : N),
    eval_file F fuel n s = (r, s') -> r <> Panic site.
Proof.
  intros F fuel n s s' r site H E. subst r.
  destruct (eval_file_inv F fuel n s _ s' H) as [_ N]; [discriminate|discriminate N].
Qed.
Print Assumptions C10_no_panic_file.

(* every form, every call of every built-in with any argument list *)
Theorem C10_no_panic_form :
  forall (F : fops) (fuel : nat) (x : sx) (s s' : st) (r : res sx) (site : N),
    run F fuel (TEval x) s = (r, s') -> r <> Panic site.
Proof.
  intros F fuel x s s' r site H E. subst r.
  destruct (run_inv F fuel (TEval x) s _ s' H) as [_ N]; [discriminate|exact I|discriminate N].
Qed.
Print Assumptions C10_no_panic_form.

Theorem C10_no_panic_call :
  forall (F : fops) (fuel : nat) (p : prim) (args : sx) (s s' : st) (r : res sx) (site : N),
    run F fuel (TCall true (Prim p) args) s = (r, s') -> r <> Panic site.
Proof.
  intros F fuel p args s s' r site H E. subst r.
  destruct (run_inv F fuel _ s _ s' H) as [_ N]; [discriminate|exact I|discriminate N].
Qed.
Print Assumptions C10_no_panic_call.

(* an outcome does not depend on how much fuel the model was given beyond  *)
(* what it needs: the exclusion of Fuel above is not a loophole             *)
Theorem C10_outcome_final :
  forall (F : fops) (fuel fuel' : nat) (t : text) (s s' : st) (r : res sx),
    eval_string F fuel t s = (r, s') -> r <> Fuel -> (fuel <= fuel')%nat ->
    eval_string F fuel' t s = (r, s').
Proof. intros. eapply eval_string_mono; eassumption. Qed.
Print Assumptions C10_outcome_final.

(* non-vacuity: failures of each kind are error values *)
Definition F0 : fops :=
  {| f_add := fun _ _ => 0%Z; f_sub := fun _ _ => 0%Z; f_mul := fun _ _ => 0%Z;
     f_div := fun _ _ => 0%Z; f_rem := fun _ _ => 0%Z; f_pow := fun _ _ => 0%Z;
     f_max := fun _ _ => 0%Z; f_min := fun _ _ => 0%Z; f_of_int := fun z => z;
     f_to_int := fun z => z; f_round := fun z => z; f_trunc := fun z => z;
     f_lt := Z.ltb; f_le := Z.leb; f_eq := Z.eqb; f_is_finite := fun _ => true;
     f_to_dec := fun _ => []; f_of_dec := fun _ => None |}.
Definition ev0 (p : string) := fst (eval_string F0 40 (s2t p) (init_state [] None)).
Example C10_overflow : ev0 "(* 9223372036854775807 2)" = Err ERange.
Proof. vm_compute. reflexivity. Qed.
Example C10_mod_zero : ev0 "(mod 5 0)" = Err EUndef.
Proof. vm_compute. reflexivity. Qed.
Example C10_min_div : ev0 "(/ -9223372036854775808 -1)" = Err ERange.
Proof. vm_compute. reflexivity. Qed.
Example C10_dolist_body_error : ev0 "(dolist (x '(1 2)) (car 5))" = Err EType.
Proof. vm_compute. reflexivity. Qed.
Example C10_value : ev0 "(let ((x 2)) (dotimes (i 3) (setq x (* x x))) x)" = Ok (Int 256).
Proof. vm_compute. reflexivity. Qed.

Check C10_no_panic :
  forall (F : fops) (fuel : nat) (t : text) (s s' : st) (r : res sx) (site : N),
    eval_string F fuel t s = (r, s') -> r <> Panic site.
