(* C16 - Errors carry accurate, renderable source locations.                 *)
(* Statements only; the proofs are in Proofs/Positions.v and ReaderTotal.v.    *)
From TL Require Import Base.Base Model.Reader Model.Printer Model.Store Model.Eval Model.Init.
From TL Require Import Proofs.ReaderTotal Proofs.Positions.
Local Open Scope N_scope.
Local Open Scope list_scope.

(* the tokenizer's position after consuming any sequence of characters: line *)
(* = start line + newlines consumed; column = 1 + characters (not bytes) since  *)
(* the last newline, or start column + characters when there was none           *)
Theorem C16_line_column_exact : forall cs line pos,
  walk cs line pos =
  (line + count_nl cs,
   if N.eqb (count_nl cs) 0 then pos + N.of_nat (List.length cs)
   else 1 + N.of_nat (List.length (after_nl cs))).
Proof. exact walk_spec. Qed.

Theorem C16_positions_compose : forall a b line pos,
  walk (a ++ b) line pos = let '(l, p) := walk a line pos in walk b l p.
Proof. exact walk_app. Qed.

(* columns are at least 1: every span the reader produces is well formed *)
Theorem C16_columns_positive : forall cs,
  fst (walk cs 1 1) = 1 + count_nl cs /\ 1 <= snd (walk cs 1 1).
Proof. exact walk_from_start. Qed.

(* an identifier / number token: its characters are exactly a prefix of the  *)
(* input without delimiters, and its end position is where walking those        *)
(* characters from its start position ends: the extent of the token as written  *)
Theorem C16_token_extent : forall cs line pos first i f acc out i' f' rest l p,
  scan_ident cs line pos first i f acc = (out, i', f', rest, l, p) ->
  exists consumed, cs = consumed ++ rest /\ out = rev acc ++ consumed /\
                   walk consumed line pos = (l, p) /\
                   forallb (fun c => negb (ident_stop c)) consumed = true.
Proof. exact scan_ident_walk. Qed.

(* the reader is total (C08): every text yields forms with spans or a parse error *)
Theorem C16_reader_total : forall F fl t,
  (exists forms, read_ax F fl t = Ok forms) \/ read_ax F fl t = Err EParse.
Proof. exact read_ax_total. Qed.

Print Assumptions C16_line_column_exact. Print Assumptions C16_positions_compose.
Print Assumptions C16_columns_positive. Print Assumptions C16_token_extent.
Print Assumptions C16_reader_total.

(* non-vacuity: spans of a list and of a symbol after a multi-line, non-ASCII prefix *)
Definition F0 : fops :=
  {| f_add := fun _ _ => 0%Z; f_sub := fun _ _ => 0%Z; f_mul := fun _ _ => 0%Z;
     f_div := fun _ _ => 0%Z; f_rem := fun _ _ => 0%Z; f_pow := fun _ _ => 0%Z;
     f_max := fun _ _ => 0%Z; f_min := fun _ _ => 0%Z; f_of_int := fun z => z;
     f_to_int := fun z => z; f_round := fun z => z; f_trunc := fun z => z;
     f_lt := Z.ltb; f_le := Z.leb; f_eq := Z.eqb; f_is_finite := fun _ => true;
     f_to_dec := fun _ => []; f_of_dec := fun _ => None |}.
Definition fl0 := {| t_interned := false; nil_interned := false |}.
Example C16_spans :
  match read_ax F0 fl0 ([233; 10; 32; 32] ++ s2t "(ab cd)") with
  | Ok [_; AList [ASym _ s1; ASym _ s2] None sl] =>
      (s_l sl, s_c sl, e_l sl, e_c sl) = (2, 3, 2, 10) /\
      (s_l s1, s_c s1, e_l s1, e_c s1) = (2, 4, 2, 6) /\
      (s_l s2, s_c s2, e_l s2, e_c s2) = (2, 7, 2, 9)
  | _ => False
  end.
Proof. vm_compute. repeat split. Qed.

Check C16_line_column_exact : forall cs line pos,
  walk cs line pos =
  (line + count_nl cs,
   if N.eqb (count_nl cs) 0 then pos + N.of_nat (List.length cs)
   else 1 + N.of_nat (List.length (after_nl cs))).
