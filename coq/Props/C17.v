(* C17 - sort returns a stable ordered permutation and leaves its input intact. *)
(* Statements only; the proofs are in Proofs/Sort.v.  [msort rec fuel pred l] is   *)
(* the routine `sort` runs (apply_prim PSort calls it with fuel S (length l)); the  *)
(* predicate is any function value, applied through the interpreter instance rec.  *)
From TL Require Import Base.Base Model.Reader Model.Printer Model.Store Model.Eval Model.Init.
From Coq Require Import Permutation Sorted.
From TL Require Import Proofs.Sort.

(* for EVERY predicate - inconsistent, effectful, failing - a successful sort *)
(* returns a permutation of the input: the same elements, same multiplicities *)
Theorem C17_permutation : forall rec pred l s out s',
  msort rec (S (List.length l)) pred l s = (Ok out, s') -> Permutation out l.
Proof. intros rec pred l s out s'. apply msort_perm. Qed.

(* the sort itself never gives up: the fuel S (length l) always suffices *)
Theorem C17_terminates : forall rec pred,
  (forall args s, fst (rec (TCall false pred args) s) <> Fuel) ->
  forall l s, fst (msort rec (S (List.length l)) pred l s) <> Fuel.
Proof. exact sort_terminates. Qed.

(* it fails only with the predicate's own error and never panics by itself *)
Theorem C17_fails_only_as_predicate : forall rec pred (Q : ekind -> Prop),
  (forall args s e s', rec (TCall false pred args) s = (Err e, s') -> Q e) ->
  (forall args s n s', rec (TCall false pred args) s <> (Panic n, s')) ->
  forall fuel l s, match fst (msort rec fuel pred l s) with
                   | Err e => Q e | Panic _ => False | _ => True end.
Proof. exact msort_fail. Qed.

(* a predicate that computes a strict weak ordering lt (asymmetric,        *)
(* negatively transitive): the result is psort, the state is untouched,     *)
(* no element is placed before one that lt orders ahead of it, and the      *)
(* elements of every class of indistinguishable elements keep their order   *)
Theorem C17_pure_predicate : forall rec pred lt,
  (forall y x s, rec (TCall false pred (of_list [y; x] Nil)) s = (Ok (of_bool (lt y x)), s)) ->
  forall l s, msort rec (S (List.length l)) pred l s = (Ok (psort lt (S (List.length l)) l), s).
Proof. intros rec pred lt H l s. apply msort_pure; [assumption|lia]. Qed.

Theorem C17_sorted : forall lt,
  (forall a b, lt a b = true -> lt b a = false) ->
  (forall a c, lt a c = true -> forall b, lt a b = true \/ lt b c = true) ->
  forall l, StronglySorted (le lt) (psort lt (S (List.length l)) l).
Proof. intros lt H1 H2 l. apply psort_sorted; [assumption|assumption|lia]. Qed.

Theorem C17_stable : forall lt,
  (forall a b, lt a b = true -> lt b a = false) ->
  (forall a c, lt a c = true -> forall b, lt a b = true \/ lt b c = true) ->
  forall x0 l, filter (eqv lt x0) (psort lt (S (List.length l)) l) = filter (eqv lt x0) l.
Proof. intros lt H1 H2 x0 l. apply psort_stable; [assumption|assumption|lia]. Qed.

Theorem C17_psort_permutation : forall lt fuel l, Permutation (psort lt fuel l) l.
Proof. exact psort_perm. Qed.

Print Assumptions C17_permutation. Print Assumptions C17_terminates.
Print Assumptions C17_fails_only_as_predicate. Print Assumptions C17_pure_predicate.
Print Assumptions C17_sorted. Print Assumptions C17_stable. Print Assumptions C17_psort_permutation.

(* non-vacuity: through the interpreter, stable on pairs with equal keys, and *)
(* the input variable afterwards                                              *)
Definition F0 : fops :=
  {| f_add := fun _ _ => 0%Z; f_sub := fun _ _ => 0%Z; f_mul := fun _ _ => 0%Z;
     f_div := fun _ _ => 0%Z; f_rem := fun _ _ => 0%Z; f_pow := fun _ _ => 0%Z;
     f_max := fun _ _ => 0%Z; f_min := fun _ _ => 0%Z; f_of_int := fun z => z;
     f_to_int := fun z => z; f_round := fun z => z; f_trunc := fun z => z;
     f_lt := Z.ltb; f_le := Z.leb; f_eq := Z.eqb; f_is_finite := fun _ => true;
     f_to_dec := fun _ => []; f_of_dec := fun _ => None |}.
Definition ev0 (p : string) := fst (eval_string F0 80 (s2t p) (init_state [] None)).
Example C17_ex :
  ev0 "(setq l '((2 . a) (1 . b) (2 . c) (1 . d))) (list (sort l (lambda (x y) (< (car x) (car y)))) l)"
  = ev0 "'(((1 . b) (1 . d) (2 . a) (2 . c)) ((2 . a) (1 . b) (2 . c) (1 . d)))".
Proof. vm_compute. reflexivity. Qed.
Example C17_ex_err : ev0 "(sort '(1 2 3) (lambda (x y) (car x)))" = Err EType.
Proof. vm_compute. reflexivity. Qed.

Check C17_stable : forall lt,
  (forall a b, lt a b = true -> lt b a = false) ->
  (forall a c, lt a c = true -> forall b, lt a b = true \/ lt b c = true) ->
  forall x0 l, filter (eqv lt x0) (psort lt (S (List.length l)) l) = filter (eqv lt x0) l.
