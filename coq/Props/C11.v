(* C11 - Evaluation does not mutate code, literals or arguments.             *)
(* Statements only; the proofs are in Proofs/Heap.v and Proofs/EvalRel.v.      *)
From TL Require Import Base.Base Model.Reader Model.Printer Model.Store Model.Eval Model.Init Model.Api.
From TL Require Import Proofs.Heap Proofs.EvalRel.
From TL Require Import Proofs.Build Proofs.Seq.
Local Open Scope list_scope.

(* The list-building primitives the library functions are written with, on    *)
(* the heap of mutable cells (Model/Api.v): copying a list (deep_copy, used by  *)
(* append, backquote splicing, sort's result) writes NO cell that existed        *)
(* before; append copies what it attaches and writes exactly one cell, which     *)
(* belongs to the destination being built; push writes exactly one cell, the     *)
(* empty-list object that terminates the destination.                            *)
Theorem C11_copy_writes_nothing : forall h i h' r,
  h_deep_copy h i = Ok (h', r) -> same_below (hnext h) h h'.
Proof. intros h i h' r H. apply (deep_copy_fresh h i h' r H). Qed.
Theorem C11_append_writes_one_destination_cell : forall h a v h',
  h_append h a v = Ok h' -> exists w, written_one (hnext h) w h h'.
Proof. exact append_writes_one_cell. Qed.
Theorem C11_push_writes_the_terminator : forall h a v h',
  h_push h a v = Ok h' -> exists w, h_null h w = true /\ written_one (hnext h) w h h'.
Proof. exact push_writes_end_cell. Qed.

(* Hence every list that does not contain the destination's end cell - the    *)
(* program text, quoted constants, the argument lists - reads exactly as before  *)
Theorem C11_other_lists_read_the_same : forall fuel h h' n w i,
  written_one n w h h' -> avoids fuel h n w i = true -> abs fuel h' i = abs fuel h i.
Proof. exact abs_unchanged. Qed.
Theorem C11_after_copy_all_lists_read_the_same : forall fuel h h' n i,
  same_below n h h' -> below fuel h n i = true -> abs fuel h' i = abs fuel h i.
Proof. exact abs_same_below. Qed.

(* In the evaluator model values are immutable: evaluation is a function of   *)
(* the form and the state, so the same expression in the same state gives the    *)
(* same result any number of times; and an answer does not depend on the fuel    *)
Theorem C11_repeatable : forall F f f' t s r s',
  eval_string F f t s = (r, s') -> r <> Fuel -> (f <= f')%nat -> eval_string F f' t s = (r, s').
Proof. intros. eapply eval_string_mono; eassumption. Qed.

Print Assumptions C11_copy_writes_nothing. Print Assumptions C11_append_writes_one_destination_cell.
Print Assumptions C11_push_writes_the_terminator. Print Assumptions C11_other_lists_read_the_same.
Print Assumptions C11_after_copy_all_lists_read_the_same. Print Assumptions C11_repeatable.

(* Library functions that return a new list (mapcar, seq-filter, list, append,  *)
(* backquote, sort's merge, alist / plist constructors) build it on a new       *)
(* empty-list object by push and append (ctx.map, ctx.filter, eval_each,        *)
(* eval_back_quote in the source).  Whatever the sequence of pushes and appends, *)
(* whatever the heap: no cell that existed before is written, so every argument  *)
(* list - and every other object - reads the same afterwards.                    *)
Theorem C11_constructions_write_no_old_cell : forall h ops h' a, wfh h -> build h ops = Ok (h', a) ->
  same_below (hnext h) h h' /\
  forall fuel x, below fuel h (hnext h) x = true -> abs fuel h' x = abs fuel h x.
Proof.
  intros h ops h' a W H. split; [apply (build_fresh _ _ _ _ W H)|exact (build_leaves_old_objects _ _ _ _ W H)].
Qed.
Print Assumptions C11_constructions_write_no_old_cell.

(* ... and what it builds is the list of the pushed objects, in order: the result  *)
(* of mapcar / seq-filter / list is a new list holding exactly the values pushed    *)
Theorem C11_pushes_build_the_list : forall h vs h' a, wfh h ->
  build h (map BPush vs) = Ok (h', a) -> lrep h' a vs.
Proof. exact build_pushes. Qed.
Print Assumptions C11_pushes_build_the_list.

(* non-vacuity: a literal inside a function body after appends and splices *)
Definition F0 : fops :=
  {| f_add := fun _ _ => 0%Z; f_sub := fun _ _ => 0%Z; f_mul := fun _ _ => 0%Z;
     f_div := fun _ _ => 0%Z; f_rem := fun _ _ => 0%Z; f_pow := fun _ _ => 0%Z;
     f_max := fun _ _ => 0%Z; f_min := fun _ _ => 0%Z; f_of_int := fun z => z;
     f_to_int := fun z => z; f_round := fun z => z; f_trunc := fun z => z;
     f_lt := Z.ltb; f_le := Z.leb; f_eq := Z.eqb; f_is_finite := fun _ => true;
     f_to_dec := fun _ => []; f_of_dec := fun _ => None |}.
Definition ev0 (p : string) := fst (eval_string F0 90 (s2t p) (init_state [] None)).
Example C11_ex :
  ev0 "(setq l '(1)) (defun g () (let ((x '(1))) `(,@x 2 ,@l))) (list (g) (g) (append l '(3)) (append nil l) (sort '(2 1) '<) l)"
  = ev0 "'((1 2 1) (1 2 1) (1 3) (1) (1 2) (1))".
Proof. vm_compute. reflexivity. Qed.

Check C11_append_writes_one_destination_cell : forall h a v h',
  h_append h a v = Ok h' -> exists w, written_one (hnext h) w h h'.
