(* C09 - Reading is correct and printing round-trips.                        *)
(* Statements only; the proofs are in Proofs/ReadPrint.v and Proofs/Decimal.v. *)
From TL Require Import Base.Base Model.Reader Model.Printer Model.Store Model.Eval Model.Init.
From TL Require Import Proofs.Decimal Proofs.ReadPrint.
Local Open Scope list_scope.

(* The parser inverts the token-level printer: for every data value (nil, t, *)
(* integers, floats, strings, symbols, proper AND dotted lists to any depth,   *)
(* the quote / backquote / unquote / splice marks), any source spans and any    *)
(* following tokens, parsing the value's token sequence yields exactly that     *)
(* value - same constructors, same structure - and leaves the following tokens. *)
Theorem C09_parser_inverts_printer : forall fl,
  t_interned fl = false -> nil_interned fl = false ->
  forall v, rdata v -> forall fuel ts rest, map fst ts = toks v -> (List.length ts < fuel)%nat ->
  exists a, parse_value fl fuel (ts ++ rest) = Ok (Some (a, rest)) /\ strip a = v.
Proof. intros fl Ht Hn v. exact (parse_inverts_value fl Ht Hn v). Qed.

(* characters: a printed string token (double quote and backslash escaped, the rest *)
(* raw - newlines, non-ASCII) is read back as the same string, whatever         *)
(* follows the closing quote                                                    *)
Theorem C09_string_roundtrip : forall s line pos sl sc rest,
  exists l p, read_string (escape_string s ++ c_dq :: rest) line pos sl sc []
              = Ok (Some (TStr s, Build_span sl sc l p, rest, l, p)).
Proof. intros. exact (read_string_escape s line pos sl sc [] rest). Qed.

(* characters: a printed i64 is converted back to the same integer *)
Theorem C09_integer_roundtrip : forall z, in_i64 z = true -> parse_i64 (print_Z z) = Some z.
Proof. exact parse_print_Z. Qed.
Theorem C09_integer_printing_injective : forall a b, print_Z a = print_Z b -> a = b.
Proof. exact print_Z_inj. Qed.

Print Assumptions C09_parser_inverts_printer. Print Assumptions C09_string_roundtrip.
Print Assumptions C09_integer_roundtrip. Print Assumptions C09_integer_printing_injective.

(* characters, whole values (computed): print then read gives the value back, *)
(* and other layouts (newlines, tabs, comments) read as the same value          *)
Definition F0 : fops :=
  {| f_add := fun _ _ => 0%Z; f_sub := fun _ _ => 0%Z; f_mul := fun _ _ => 0%Z;
     f_div := fun _ _ => 0%Z; f_rem := fun _ _ => 0%Z; f_pow := fun _ _ => 0%Z;
     f_max := fun _ _ => 0%Z; f_min := fun _ _ => 0%Z; f_of_int := fun z => z;
     f_to_int := fun z => z; f_round := fun z => z; f_trunc := fun z => z;
     f_lt := Z.ltb; f_le := Z.leb; f_eq := Z.eqb; f_is_finite := fun _ => true;
     f_to_dec := fun _ => []; f_of_dec := fun _ => None |}.
Definition fl0 := {| t_interned := false; nil_interned := false |}.
Definition reread (v : sx) : res (list sx) :=
  match read_ax F0 fl0 (print F0 v) with Ok l => Ok (map strip l) | Err e => Err e | Panic n => Panic n | Fuel => Fuel end.
Definition v0 : sx :=
  of_list [Int (-42); Str (s2t "a""b\c"); Sym (s2t "foo-bar"); Sym (s2t ":kw"); Nil; T;
           Cons (Int 1) (Int 2); of_list [Int 1; of_list [Sym (s2t "x")] (Sym (s2t "y"))] Nil;
           Quote (Sym (s2t "q")); Bq (of_list [Sym (s2t "a"); Unq (Sym (s2t "b")); Splice (Sym (s2t "c"))] Nil);
           Int 9223372036854775807; Int (-9223372036854775808)] Nil.
Example C09_print_read : reread v0 = Ok [v0].
Proof. vm_compute. reflexivity. Qed.
Example C09_layouts :
  match read_ax F0 fl0 (s2t "(a ; comment
   (b . c)	'd  ""s"" -7 )") with
  | Ok [a] => strip a = of_list [Sym (s2t "a"); Cons (Sym (s2t "b")) (Sym (s2t "c"));
                                 Quote (Sym (s2t "d")); Str (s2t "s"); Int (-7)] Nil
  | _ => False
  end.
Proof. vm_compute. reflexivity. Qed.

Check C09_parser_inverts_printer : forall fl,
  t_interned fl = false -> nil_interned fl = false ->
  forall v, rdata v -> forall fuel ts rest, map fst ts = toks v -> (List.length ts < fuel)%nat ->
  exists a, parse_value fl fuel (ts ++ rest) = Ok (Some (a, rest)) /\ strip a = v.
