(* C09 - Reading is correct and printing round-trips.                        *)
(* Statements only; the proofs are in Proofs/ReadPrint.v, Proofs/Decimal.v and   *)
(* Proofs/Lexer.v.                                                               *)
From TL Require Import Base.Base Model.Reader Model.Printer Model.Store Model.Eval Model.Init.
From TL Require Import Proofs.Decimal Proofs.ReadPrint Proofs.Lexer.
Local Open Scope list_scope.

(* The parser inverts the token-level printer: for every data value (nil, t, *)
(* integers, floats, strings, symbols, proper AND dotted lists to any depth,   *)
(* the quote / backquote / unquote / splice marks), any source spans and any    *)
(* following tokens, parsing the value's token sequence yields exactly that     *)
(* value - same constructors, same structure - and leaves the following tokens. *)
Theorem C09_parser_inverts_printer : forall fl,
  t_interned fl = false -> nil_interned fl = false ->
  forall v, rdata v -> forall fuel ts rest, map fst ts = toks v -> (List.length ts < fuel)%nat ->
  exists a, parse_value fl fuel (ts ++ rest) = Ok (Some (a, rest)) /\ strip a = v.
Proof. intros fl Ht Hn v. exact (parse_inverts_value fl Ht Hn v). Qed.

(* characters: a printed string token (double quote and backslash escaped, the rest *)
(* raw - newlines, non-ASCII) is read back as the same string, whatever         *)
(* follows the closing quote                                                    *)
Theorem C09_string_roundtrip : forall s line pos sl sc rest,
  exists l p, read_string (escape_string s ++ c_dq :: rest) line pos sl sc []
              = Ok (Some (TStr s, Build_span sl sc l p, rest, l, p)).
Proof. intros. exact (read_string_escape s line pos sl sc [] rest). Qed.

(* characters: a printed i64 is converted back to the same integer *)
Theorem C09_integer_roundtrip : forall z, in_i64 z = true -> parse_i64 (print_Z z) = Some z.
Proof. exact parse_print_Z. Qed.
Theorem C09_integer_printing_injective : forall a b, print_Z a = print_Z b -> a = b.
Proof. exact print_Z_inj. Qed.

(* CHARACTER LEVEL, WHOLE VALUES.  [rd F v] (Proofs/Lexer.v) says what is asked of *)
(* the atoms of v: integers are in the i64 range; a symbol's name is a readable     *)
(* token (starts with a character that begins an identifier, contains no white      *)
(* space or closing parenthesis, does not scan as a number, is not t or nil); a     *)
(* float's shortest decimal is read back as that float by the binary64 oracle (an   *)
(* assumption about the oracle, named in the trusted base); an unquoted form does   *)
(* not start with @.  Strings, lists, dotted tails and quote marks are              *)
(* unrestricted.  Then reading the printed text yields exactly one form, the value. *)
Theorem C09_print_then_read : forall F fl, t_interned fl = false -> nil_interned fl = false ->
  forall v, rd F v -> exists a, read_ax F fl (print F v) = Ok [a] /\ strip a = v.
Proof. exact print_read. Qed.

(* ANY LAYOUT.  A text that writes the tokens of a value with arbitrary gaps (white *)
(* space characters and ;-comments, in any number and order) before each token and  *)
(* after the last one, reads as that value - provided an identifier or number is    *)
(* followed by white space, a closing parenthesis or the end of the text (the       *)
(* as-built delimiter rule, D15) and a comma is not followed by @.                  *)
Theorem C09_any_layout : forall F fl, t_interned fl = false -> nil_interned fl = false ->
  forall v items trail, rdata v -> wfl F items trail ->
  map (fun it => ltoken (snd it)) items = toks v ->
  exists a, read_ax F fl (render items trail) = Ok [a] /\ strip a = v.
Proof. exact layout_read. Qed.

(* which atoms are readable: every i64; every name that starts with neither a digit *)
(* nor a minus sign nor a delimiter and contains no white space or )                *)
Theorem C09_integers_readable : forall F z, in_i64 z = true -> atom_ok F (print_Z z) (TInt z).
Proof. exact int_atom. Qed.
Theorem C09_plain_symbols_readable : forall F c n,
  ordinary c = true -> is_digit c = false -> N.eqb c c_minus = false -> nostop (c :: n) = true ->
  atom_ok F (c :: n) (TIdent (c :: n)).
Proof. exact plain_symbol. Qed.

Print Assumptions C09_print_then_read. Print Assumptions C09_any_layout.
Print Assumptions C09_integers_readable. Print Assumptions C09_plain_symbols_readable.

Print Assumptions C09_parser_inverts_printer. Print Assumptions C09_string_roundtrip.
Print Assumptions C09_integer_roundtrip. Print Assumptions C09_integer_printing_injective.

(* characters, whole values (computed): print then read gives the value back, *)
(* and other layouts (newlines, tabs, comments) read as the same value          *)
Definition F0 : fops :=
  {| f_add := fun _ _ => 0%Z; f_sub := fun _ _ => 0%Z; f_mul := fun _ _ => 0%Z;
     f_div := fun _ _ => 0%Z; f_rem := fun _ _ => 0%Z; f_pow := fun _ _ => 0%Z;
     f_max := fun _ _ => 0%Z; f_min := fun _ _ => 0%Z; f_of_int := fun z => z;
     f_to_int := fun z => z; f_round := fun z => z; f_trunc := fun z => z;
     f_lt := Z.ltb; f_le := Z.leb; f_eq := Z.eqb; f_is_finite := fun _ => true;
     f_to_dec := fun _ => []; f_of_dec := fun _ => None |}.
Definition fl0 := {| t_interned := false; nil_interned := false |}.
Definition reread (v : sx) : res (list sx) :=
  match read_ax F0 fl0 (print F0 v) with Ok l => Ok (map strip l) | Err e => Err e | Panic n => Panic n | Fuel => Fuel end.
Definition v0 : sx :=
  of_list [Int (-42); Str (s2t "a""b\c"); Sym (s2t "foo-bar"); Sym (s2t ":kw"); Nil; T;
           Cons (Int 1) (Int 2); of_list [Int 1; of_list [Sym (s2t "x")] (Sym (s2t "y"))] Nil;
           Quote (Sym (s2t "q")); Bq (of_list [Sym (s2t "a"); Unq (Sym (s2t "b")); Splice (Sym (s2t "c"))] Nil);
           Int 9223372036854775807; Int (-9223372036854775808)] Nil.
Example C09_print_read : reread v0 = Ok [v0].
Proof. vm_compute. reflexivity. Qed.
Example C09_layouts :
  match read_ax F0 fl0 (s2t "(a ; comment
   (b . c)	'd  ""s"" -7 )") with
  | Ok [a] => strip a = of_list [Sym (s2t "a"); Cons (Sym (s2t "b")) (Sym (s2t "c"));
                                 Quote (Sym (s2t "d")); Str (s2t "s"); Int (-7)] Nil
  | _ => False
  end.
Proof. vm_compute. reflexivity. Qed.

(* non-vacuity: the value v0 satisfies the hypothesis of C09_print_then_read, and a *)
(* layout with comments, tabs and line breaks satisfies that of C09_any_layout        *)
Ltac atom_tac := eexists; eexists; split; [reflexivity|]; split; [reflexivity|]; split; reflexivity.
Example C09_v0_is_readable : rd F0 v0.
Proof.
  unfold v0. simpl.
  repeat match goal with
         | |- _ /\ _ => split
         | |- True => exact I
         | |- in_i64 _ = true => reflexivity
         | |- atom_ok _ _ _ => atom_tac
         | |- _ <> _ => discriminate
         end.
Qed.
Definition lay0 : list (text * ltok) :=
  [ (s2t " ", LOpen); ([], LAtom (s2t "a") (TIdent (s2t "a")));
    (s2t " ; comment (with parens
	 ", LOpen); ([], LAtom (s2t "b") (TIdent (s2t "b"))); (s2t " ", LDot);
    (s2t "
", LAtom (s2t "c") (TIdent (s2t "c"))); ([], LClose); (s2t "	", LQuote);
    ([], LAtom (s2t "d") (TIdent (s2t "d"))); (s2t "  ", LStr (s2t "s")); ([], LAtom (s2t "-7") (TInt (-7)));
    (s2t " ", LClose) ].
Definition val0 : sx := of_list [Sym (s2t "a"); Cons (Sym (s2t "b")) (Sym (s2t "c"));
                                 Quote (Sym (s2t "d")); Str (s2t "s"); Int (-7)] Nil.
Ltac gap_tac :=
  repeat first [ apply gap_nil
               | apply gap_ws; [reflexivity|]
               | apply (gap_comment (s2t " comment (with parens")); [reflexivity|] ].
Example C09_layout_applies :
  wfl F0 lay0 (s2t " ; the end") /\ map (fun it => ltoken (snd it)) lay0 = toks val0 /\ rdata val0.
Proof.
  split; [|split; [reflexivity|simpl; repeat split; discriminate]].
  simpl.
  repeat match goal with
         | |- _ /\ _ => split
         | |- True => exact I
         | |- isgap _ => gap_tac
         | |- atom_ok _ _ _ => atom_tac
         | |- term _ => first [left; reflexivity | right; eexists; eexists; split; reflexivity]
         | |- istrail _ => apply trail_ws; [reflexivity|]; apply (trail_open (s2t " the end")); reflexivity
         end.
Qed.

Check C09_parser_inverts_printer : forall fl,
  t_interned fl = false -> nil_interned fl = false ->
  forall v, rdata v -> forall fuel ts rest, map fst ts = toks v -> (List.length ts < fuel)%nat ->
  exists a, parse_value fl fuel (ts ++ rest) = Ok (Some (a, rest)) /\ strip a = v.
Check C09_print_then_read : forall F fl, t_interned fl = false -> nil_interned fl = false ->
  forall v, rd F v -> exists a, read_ax F fl (print F v) = Ok [a] /\ strip a = v.
Check C09_any_layout : forall F fl, t_interned fl = false -> nil_interned fl = false ->
  forall v items trail, rdata v -> wfl F items trail ->
  map (fun it => ltoken (snd it)) items = toks v ->
  exists a, read_ax F fl (render items trail) = Ok [a] /\ strip a = v.
