(* C12 - List and sequence functions agree with their specification.       *)
(* Statements only; the proofs are in Proofs/Lists.v.  A proper list value  *)
(* is [of_list xs Nil] for a Coq list xs, a dotted one [of_list xs t]; the   *)
(* specification is the Coq standard library on xs.                          *)
From TL Require Import Base.Base Model.Reader Model.Printer Model.Store Model.Eval Model.Init.
From TL Require Import Proofs.Lists.
Local Open Scope Z_scope.

Theorem C12_car_cons : forall a b, cxr [true] (Cons a b) = Ok a.  Proof. exact car_cons. Qed.
Theorem C12_cdr_cons : forall a b, cxr [false] (Cons a b) = Ok b. Proof. exact cdr_cons. Qed.
Theorem C12_car_cdr_nil : cxr [true] Nil = Ok Nil /\ cxr [false] Nil = Ok Nil.
Proof. split; reflexivity. Qed.

(* through the interpreter: (car (cons 'a 'b)) and (cdr (cons 'a 'b)) *)
Theorem C12_car_cons_eval : forall F f a b s,
  run F (S (S (S (S f)))) (TCall true (Prim (PCxr [true]))
      (Cons (Cons (Prim PCons) (of_list [Quote a; Quote b] Nil)) Nil)) s = (Ok a, s) /\
  run F (S (S (S (S f)))) (TCall true (Prim (PCxr [false]))
      (Cons (Cons (Prim PCons) (of_list [Quote a; Quote b] Nil)) Nil)) s = (Ok b, s).
Proof. intros. split; reflexivity. Qed.

(* every c[ad]{2,4}r is the composition its name spells *)
Theorem C12_cxr_compose : forall p q x,
  cxr (p ++ q) x = match cxr q x with Ok v => cxr p v | e => e end.
Proof. exact cxr_compose. Qed.
Theorem C12_cxr_names :
  forallb (fun e => String.eqb (fst e) (cxr_name (snd e))) cxr_table = true /\
  List.length cxr_table = 30%nat /\ NoDup (map snd cxr_table).
Proof. split; [exact cxr_table_names|exact cxr_table_complete]. Qed.

(* nthcdr = skipn for every index: zero, in range, at and past the end, negative *)
Theorem C12_nthcdr_skipn : forall n xs, 0 <= n ->
  nthcdr n (of_list xs Nil) = Ok (of_list (skipn (Z.to_nat n) xs) Nil).
Proof. exact nthcdr_spec. Qed.
Theorem C12_nthcdr_negative : forall n l, n <= 0 -> nthcdr n l = Ok l.
Proof. exact nthcdr_negative. Qed.
Theorem C12_nthcdr_dotted : forall n xs t, atom_tail t -> 0 <= n <= Z.of_nat (List.length xs) ->
  nthcdr n (of_list xs t) = Ok (of_list (skipn (Z.to_nat n) xs) t).
Proof. exact nthcdr_dotted. Qed.

(* (nth n l) = (car (nthcdr n l)) = the n-th element, nil past the end *)
Theorem C12_nth_is_car_nthcdr : forall n l,
  nth n l = match nthcdr n l with Ok x => cxr [true] x | e => e end.
Proof. exact nth_is_car_nthcdr. Qed.
Theorem C12_nth_nth : forall n xs, 0 <= n ->
  nth n (of_list xs Nil) = Ok (List.nth (Z.to_nat n) xs Nil).
Proof. exact nth_spec. Qed.

Theorem C12_length : forall xs, length_z (of_list xs Nil) = Z.of_nat (List.length xs).
Proof. exact length_spec. Qed.

Theorem C12_last : forall xs x, last (of_list (xs ++ [x]) Nil) None = Ok (Cons x Nil).
Proof. exact last_spec. Qed.
Theorem C12_last_n : forall xs n, 0 <= n -> xs <> [] ->
  last (of_list xs Nil) (Some n) = Ok (of_list (skipn (List.length xs - Z.to_nat n) xs) Nil).
Proof. exact last_n_spec. Qed.

(* append = app; the last argument may be dotted; lengths add up *)
Theorem C12_append_app : forall xs ys,
  append2 (of_list xs Nil) (of_list ys Nil) = Ok (of_list (xs ++ ys) Nil).
Proof. exact append2_app. Qed.
Theorem C12_append_dotted_last : forall xs ys t, xs <> [] ->
  append2 (of_list xs Nil) (of_list ys t) = Ok (of_list (xs ++ ys) t).
Proof. exact append_dotted. Qed.
Theorem C12_length_append : forall xs ys r,
  append2 (of_list xs Nil) (of_list ys Nil) = Ok r ->
  length_z r = length_z (of_list xs Nil) + length_z (of_list ys Nil).
Proof. exact length_append. Qed.
Theorem C12_append_nary : forall ls acc,
  append_all (of_list acc Nil) (map (fun l => of_list l Nil) ls)
  = Ok (of_list (acc ++ List.concat ls) Nil).
Proof. exact append_all_concat. Qed.

(* mapcar / seq-map, seq-filter, seq-reduce, seq-find: map, filter,       *)
(* fold_left, find, for every function value that computes a function g    *)
Theorem C12_map : forall rec f g, pure1 rec f g ->
  forall l s, map_l rec f l s = (Ok (map g l), s).
Proof. exact map_l_map. Qed.
Theorem C12_filter : forall rec f g, pure1 rec f g ->
  forall l s, filter_l rec f l s = (Ok (filter (fun x => truthy (g x)) l), s).
Proof. exact filter_l_filter. Qed.
Theorem C12_reduce : forall rec f g, pure2 rec f g ->
  forall l acc s, reduce_l rec f l acc s = (Ok (fold_left g l acc), s).
Proof. exact reduce_l_fold. Qed.
Theorem C12_find : forall rec f g, pure1 rec f g ->
  forall l s, find_l rec f l s = (Ok (List.find (fun x => truthy (g x)) l), s).
Proof. exact find_l_find. Qed.
(* each element is visited once, in list order, also by an effectful callee *)
Theorem C12_map_order : forall rec f x l,
  map_l rec f (x :: l) =
  bind (call rec false f (Cons x Nil)) (fun v => bind (map_l rec f l) (fun vs => ret (v :: vs))).
Proof. exact map_l_order. Qed.

(* assoc returns the first pair whose key matches; non-pairs are skipped *)
Theorem C12_assoc_first_match : forall p es s,
  assoc_find (fun k => ret (p k)) (of_list es Nil) s =
  (Ok (match List.find (is_pair_with p) es with Some e => e | None => Nil end), s).
Proof. exact assoc_first_match. Qed.

(* alist-get (no test function): the value of the FIRST pair whose key is equal to *)
(* the key - also when that value is nil; the default only when no pair matches    *)
Theorem C12_alist_get_first_match : forall F rec key es dflt s,
  bind (assoc F rec key (of_list es Nil) None)
       (fun x => if truthy x then lift (cdr_of x) else ret dflt) s
  = (Ok (alist_get_spec F key es dflt), s).
Proof. exact alist_get_first_match. Qed.

(* plist-get: the value after the first key (even position) that is eq to the     *)
(* property; nil when there is none or the list ends after that key                *)
Theorem C12_plist_get : forall prop l,
  even_keys (fun k => eq_model k prop <> None) (List.length l) l ->
  plist_get (of_list l Nil) prop = Ok (plist_spec prop (List.length l) l).
Proof. intros prop l H. apply plist_get_spec; [apply Nat.le_refl|exact H]. Qed.

Print Assumptions C12_alist_get_first_match. Print Assumptions C12_plist_get.
Print Assumptions C12_car_cons. Print Assumptions C12_cdr_cons. Print Assumptions C12_car_cdr_nil.
Print Assumptions C12_car_cons_eval. Print Assumptions C12_cxr_compose. Print Assumptions C12_cxr_names.
Print Assumptions C12_nthcdr_skipn. Print Assumptions C12_nthcdr_negative.
Print Assumptions C12_nthcdr_dotted. Print Assumptions C12_nth_is_car_nthcdr.
Print Assumptions C12_nth_nth. Print Assumptions C12_length. Print Assumptions C12_last.
Print Assumptions C12_last_n. Print Assumptions C12_append_app.
Print Assumptions C12_append_dotted_last. Print Assumptions C12_length_append.
Print Assumptions C12_append_nary. Print Assumptions C12_map. Print Assumptions C12_filter.
Print Assumptions C12_reduce. Print Assumptions C12_find. Print Assumptions C12_map_order.
Print Assumptions C12_assoc_first_match.

(* non-vacuity, through the whole interpreter *)
Definition F0 : fops :=
  {| f_add := fun _ _ => 0; f_sub := fun _ _ => 0; f_mul := fun _ _ => 0;
     f_div := fun _ _ => 0; f_rem := fun _ _ => 0; f_pow := fun _ _ => 0;
     f_max := fun _ _ => 0; f_min := fun _ _ => 0; f_of_int := fun z => z;
     f_to_int := fun z => z; f_round := fun z => z; f_trunc := fun z => z;
     f_lt := Z.ltb; f_le := Z.leb; f_eq := Z.eqb; f_is_finite := fun _ => true;
     f_to_dec := fun _ => []; f_of_dec := fun _ => None |}.
Definition ev0 (p : string) := fst (eval_string F0 60 (s2t p) (init_state [] None)).
Example C12_ex : ev0 "(list (nth 1 '(a b c)) (nth 5 '(a b c)) (nthcdr 2 '(a b c)) (last '(a b c)) (length (append '(1 2) '(3))) (cadr '(1 2 3)) (mapcar 'car '((1) (2))) (assoc 'b '((a . 1) 7 (b . 2))) (seq-reduce '+ '(1 2 3) 0))"
  = Ok (of_list [Sym (s2t "b"); Nil; of_list [Sym (s2t "c")] Nil; of_list [Sym (s2t "c")] Nil;
                 Int 3; Int 2; of_list [Int 1; Int 2] Nil; Cons (Sym (s2t "b")) (Int 2); Int 6] Nil).
Proof. vm_compute. reflexivity. Qed.

Example C12_alist_plist_ex :
  alist_get_spec F0 (Sym (s2t "b")) [Cons (Sym (s2t "a")) (Int 1); Int 7; Cons (Sym (s2t "b")) Nil; Cons (Sym (s2t "b")) (Int 2)] (Int 9) = Nil /\
  alist_get_spec F0 (Sym (s2t "z")) [Cons (Sym (s2t "a")) (Int 1)] (Int 9) = Int 9 /\
  plist_spec (Sym (s2t "k")) 5 [Sym (s2t "j"); Int 1; Sym (s2t "k"); Int 2; Sym (s2t "k")] = Int 2 /\
  ev0 "(list (alist-get 'b '((a . 1) 7 (b) (b . 2)) 9) (alist-get 'z '((a . 1)) 9) (plist-get '(j 1 k 2 k) 'k) (plist-get '(j 1 k) 'k))"
  = Ok (of_list [Nil; Int 9; Int 2; Nil] Nil).
Proof. vm_compute. repeat split. Qed.

Check C12_nthcdr_skipn : forall n xs, 0 <= n ->
  nthcdr n (of_list xs Nil) = Ok (of_list (skipn (Z.to_nat n) xs) Nil).
