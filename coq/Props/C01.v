(* C01 - Programs evaluate to the value the language semantics prescribe.    *)
(* Statements only; the proofs are in Proofs/CoreRefine.v (over Proofs/Cont.v *)
(* and Proofs/EvalRel.v).  The prescribed semantics is the definitional        *)
(* interpreter Spec/CoreSem.v: one clause per core form, ordinary recursion.   *)
From TL Require Import Base.Base Model.Reader Model.Printer Model.Store Model.Eval Model.Init.
From TL Require Import Proofs.EvalRel Proofs.Cont Proofs.CoreRefine Spec.CoreSem.
Local Open Scope list_scope.

(* Refinement: whatever value or error, final store (every global variable,  *)
(* every binding stack) and tick log (every side effect, in order) the         *)
(* definitional interpreter assigns to a form, a call or a loop, the model     *)
(* produces exactly that, for every sufficiently large fuel.  For all forms,   *)
(* all states, all fault positions.                                            *)
Theorem C01_model_refines_semantics : forall F n t s r s',
  spec F n t s = (r, s') -> r <> Fuel ->
  exists f0, forall f, (f0 <= f)%nat -> run F f t s = (r, s').
Proof. intros F n t s r s' H Hr. exact (spec_refines F n t s r s' H Hr). Qed.

(* ... and the model's answer does not depend on the fuel beyond that *)
Theorem C01_answers_are_final : forall F f f' t s r s',
  run F f t s = (r, s') -> r <> Fuel -> pre t s -> (f <= f')%nat -> run F f' t s = (r, s').
Proof. exact run_mono. Qed.

(* The clauses of the definitional interpreter, as equations (each is the     *)
(* definition of Spec/CoreSem.v special / sstep unfolded; `eval` is the         *)
(* interpreter one level down):                                                 *)
Section Clauses.
Variable F : fops.
Variable rec : task -> M sx.
Variable load : text -> M sx.
Notation ev := (eval rec).

(* if: the condition once, then ONLY the selected branch *)
Theorem C01_if : forall c a b,
  special F rec PIf (Cons c (Cons a b)) =
  bind (ev c) (fun v => if truthy v then ev a else progn rec (items b) Nil).
Proof. reflexivity. Qed.
(* progn: left to right, value of the last form *)
Theorem C01_progn : forall x r last,
  progn rec (x :: r) last = bind (ev x) (fun v => progn rec r v).
Proof. reflexivity. Qed.
(* setq / set: the value, then the assignment to the innermost binding *)
Theorem C01_setq : forall name e,
  special F rec PSetq (Cons name (Cons e Nil)) =
  bind (ev e) (fun v => bind (sym_set name v) (fun _ => ret v)).
Proof. reflexivity. Qed.
Theorem C01_set : forall ne e,
  special F rec PSet (Cons ne (Cons e Nil)) =
  bind (ev ne) (fun n => bind (ev e) (fun v => bind (sym_set n v) (fun _ => ret v))).
Proof. reflexivity. Qed.
(* and / or: left to right, stop at the first nil / non-nil *)
Theorem C01_and : forall x r last,
  and_forms rec (x :: r) last = bind (ev x) (fun v => if null v then ret v else and_forms rec r v).
Proof. reflexivity. Qed.
Theorem C01_or : forall x r,
  or_forms rec (x :: r) = bind (ev x) (fun v => if null v then or_forms rec r else ret v).
Proof. reflexivity. Qed.
(* cond: first clause whose test is non-nil; no body = the test value *)
Theorem C01_cond : forall c body r,
  cond_clauses rec (Cons c body :: r) =
  bind (ev c) (fun test => if truthy test
                           then (if null body then ret test else progn rec (items body) Nil)
                           else cond_clauses rec r).
Proof. reflexivity. Qed.
(* while: test and body are re-evaluated per iteration *)
Theorem C01_while : forall c body last,
  sstep F rec load (TWhile c body last) =
  bind (ev c) (fun v => if null v then ret Nil
                        else bind (progn rec (items body) Nil) (fun r => rec (TWhile c body r))).
Proof. reflexivity. Qed.
(* a call: the head is a variable (Lisp-1), then the function is applied *)
Theorem C01_call : forall h args,
  sstep F rec load (TEval (Cons h args)) = bind (ev h) (fun f => rec (TCall true f args)).
Proof. reflexivity. Qed.
(* applying a lambda / defun: arguments, bind parameters, body, unbind *)
Theorem C01_apply : forall evalp ps body args,
  sstep F rec load (TCall evalp (Lam ps body) args) = call_function rec evalp ps body (items args).
Proof. reflexivity. Qed.
End Clauses.

Print Assumptions C01_model_refines_semantics. Print Assumptions C01_answers_are_final.
Print Assumptions C01_if. Print Assumptions C01_progn. Print Assumptions C01_setq.
Print Assumptions C01_set. Print Assumptions C01_and. Print Assumptions C01_or.
Print Assumptions C01_cond. Print Assumptions C01_while. Print Assumptions C01_call.
Print Assumptions C01_apply.

(* non-vacuity: the definitional interpreter gives these programs a meaning  *)
(* (so the refinement theorem applies to them), with value, globals and log    *)
Definition F0 : fops :=
  {| f_add := fun _ _ => 0%Z; f_sub := fun _ _ => 0%Z; f_mul := fun _ _ => 0%Z;
     f_div := fun _ _ => 0%Z; f_rem := fun _ _ => 0%Z; f_pow := fun _ _ => 0%Z;
     f_max := fun _ _ => 0%Z; f_min := fun _ _ => 0%Z; f_of_int := fun z => z;
     f_to_int := fun z => z; f_round := fun z => z; f_trunc := fun z => z;
     f_lt := Z.ltb; f_le := Z.leb; f_eq := Z.eqb; f_is_finite := fun _ => true;
     f_to_dec := fun _ => []; f_of_dec := fun _ => None |}.
Definition obs (r : res sx * st) := (fst r, map fst (log (snd r)), var_items (snd r) (s2t "x")).
Definition by_spec (p : string) :=
  obs (bind (parse_body F0 (spec F0 60) (s2t p)) (fun out => eval_progn (spec F0 60) out) (init_state [] None)).
Definition by_model (p : string) := obs (eval_string F0 60 (s2t p) (init_state [] None)).
Definition prog : string :=
  "(setq x 0) (defun sq (n) (* n n)) (let ((y 3)) (dotimes (i 3) (setq x (+ x (sq i)))) (dolist (e '(1 2) x) (tick e (setq x (+ x e)))) (while (< x 10) (setq x (+ x y))) (if (> x 9) (tick 7 'big) (tick 8 'small)) (cond ((< x 0) 'neg) ((funcall (lambda (v) (and v (or nil v))) x))))".
Example C01_spec_defines : by_spec prog = (Ok (Int 11), [7; 0; 0]%Z, [Int 11]).
Proof. vm_compute. reflexivity. Qed.
Example C01_model_agrees : by_model prog = by_spec prog.
Proof. vm_compute. reflexivity. Qed.
(* the known finding D1 (let binds sequentially) is what both do *)
Example C01_known_let_sequential :
  fst (fst (by_spec "(let ((a 1)) (let ((a 2) (b a)) b))")) = Ok (Int 2).
Proof. vm_compute. reflexivity. Qed.

Check C01_model_refines_semantics : forall F n t s r s',
  spec F n t s = (r, s') -> r <> Fuel ->
  exists f0, forall f, (f0 <= f)%nat -> run F f t s = (r, s').
