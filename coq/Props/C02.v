(* C02 - Arguments are evaluated once, in order, in the caller's scope, then bound. *)
(* Statements only; the proofs are in Proofs/Calls.v.                               *)
From TL Require Import Base.Base Model.Reader Model.Printer Model.Store Model.Eval Model.Init.
From TL Require Import Proofs.Calls Proofs.Params.
Local Open Scope list_scope.

(* zip_function_args: for every parameter-list shape (required, &optional,  *)
(* &rest), every argument list and every interpreter instance, the call       *)
(* evaluates the consumed argument expressions once each, left to right, in    *)
(* the state of the caller - no binding is made in between - and then          *)
(* distributes the VALUES over the parameters by the pure function zip_pure   *)
(* (missing optionals nil, surplus collected by &rest, too few = error).       *)
Theorem C02_arguments_then_parameters : forall rec ps args s,
  zip_args rec true ps args s = zip_factored rec ps args s.
Proof. exact zip_args_factors. Qed.

(* a defun / lambda / macro call = evaluate arguments; bind all parameters; *)
(* body; unbind                                                               *)
Theorem C02_call_factors : forall rec e psx body args s pl,
  parse_params psx = Ok pl ->
  eval_function rec e psx body args s =
  match zip_args rec e pl (items args) s with
  | (Ok (vs, []), s1) =>
      bind (bind_all (map p_sym pl) vs [])
           (fun _ => catch (eval_progn rec body)
                           (fun r => bind (unbind_all (map p_sym pl)) (fun _ => lift r))) s1
  | (Ok (_, _ :: _), s1) => (Err EType, s1)
  | (Err e0, s1) => (Err e0, s1) | (Panic n, s1) => (Panic n, s1) | (Fuel, s1) => (Fuel, s1)
  end.
Proof. exact call_factors. Qed.

(* values handed over by funcall, mapcar, seq-*, sort, assoc test functions *)
(* are never evaluated a second time: with evalp = false the distribution     *)
(* does not call the interpreter at all                                        *)
Theorem C02_values_not_reevaluated : forall rec ps vs s,
  zip_args rec false ps vs s =
  match zip_pure ps (firstn (n_used ps (List.length vs)) vs) with
  | Ok b => (Ok (b, skipn (n_used ps (List.length vs)) vs), s)
  | Err e => (Err e, s) | Panic n => (Panic n, s) | Fuel => (Fuel, s)
  end.
Proof. exact zip_args_values_untouched. Qed.

(* built-ins applied to values receive them quoted (unless self-evaluating): *)
(* their own argument evaluation returns exactly the value                     *)
Theorem C02_builtin_receives_values : forall F f vs s,
  eval_each (run F (S f)) (map quote_arg vs) s = (Ok vs, s).
Proof. exact eval_each_quoted. Qed.

(* too many or too few arguments: an error, and the body is not run *)
Theorem C02_too_many_no_body : forall rec e psx body args s pl vs x rest s1,
  parse_params psx = Ok pl -> zip_args rec e pl (items args) s = (Ok (vs, x :: rest), s1) ->
  eval_function rec e psx body args s = (Err EType, s1).
Proof. exact too_many_args_no_body. Qed.
Theorem C02_failed_arguments_no_body : forall rec e psx body args s pl r s1,
  parse_params psx = Ok pl -> zip_args rec e pl (items args) s = (r, s1) ->
  (forall x, r <> Ok x) ->
  exists r', eval_function rec e psx body args s = (r', s1) /\ (forall x, r' <> Ok x) /\
             forall body2, eval_function rec e psx body2 args s = (r', s1).
Proof. exact failed_args_no_body. Qed.
Theorem C02_consumed_at_most_supplied : forall ps n, (n_used ps n <= n)%nat.
Proof. exact n_used_le. Qed.

Print Assumptions C02_arguments_then_parameters. Print Assumptions C02_call_factors.
Print Assumptions C02_values_not_reevaluated. Print Assumptions C02_builtin_receives_values.
Print Assumptions C02_too_many_no_body. Print Assumptions C02_failed_arguments_no_body.
Print Assumptions C02_consumed_at_most_supplied.

(* The parameter list as written - names, then optionally `&optional` and more   *)
(* names, then optionally `&rest` and one name - is read as that many required,   *)
(* optional and rest parameters, in order.                                         *)
Theorem C02_parameter_list_shape : forall R optmark O rest,
  Forall plain R -> Forall plain O -> (optmark = false -> O = []) ->
  match rest with Some r => plain r | None => True end ->
  parse_params (of_list (ptext R optmark O rest) Nil) = Ok (pshape R O rest).
Proof. exact parse_params_shape. Qed.
(* The distribution of the argument VALUES in closed form, for every number of    *)
(* values: required parameters take the first values in order (too few: an        *)
(* error), optional ones the next values, the MISSING optional ones are nil, and   *)
(* &rest is the list of what is left (nil when nothing is).  The result depends   *)
(* on the values only - not on what the parameter symbols are bound to, so a tail *)
(* call that supplies fewer arguments than the activation before it had starts    *)
(* from nil again (C02_values_not_reevaluated: a bounce distributes by zip_pure). *)
Theorem C02_distribution_closed_form : forall R O rest vs,
  zip_pure (pshape R O rest) vs =
  if (List.length vs <? List.length R)%nat then Err EType
  else Ok (firstn (List.length R) vs ++
           firstn (List.length O) (skipn (List.length R) vs) ++
           repeat Nil (List.length O - (List.length vs - List.length R)) ++
           match rest with
           | Some _ => [of_list (skipn (List.length O) (skipn (List.length R) vs)) Nil]
           | None => []
           end).
Proof. exact zip_pure_closed_form. Qed.
Print Assumptions C02_parameter_list_shape. Print Assumptions C02_distribution_closed_form.

(* non-vacuity: the caller's variable a is read by the second argument after *)
(* the first argument was evaluated but before the parameter a is bound       *)
Definition F0 : fops :=
  {| f_add := fun _ _ => 0%Z; f_sub := fun _ _ => 0%Z; f_mul := fun _ _ => 0%Z;
     f_div := fun _ _ => 0%Z; f_rem := fun _ _ => 0%Z; f_pow := fun _ _ => 0%Z;
     f_max := fun _ _ => 0%Z; f_min := fun _ _ => 0%Z; f_of_int := fun z => z;
     f_to_int := fun z => z; f_round := fun z => z; f_trunc := fun z => z;
     f_lt := Z.ltb; f_le := Z.leb; f_eq := Z.eqb; f_is_finite := fun _ => true;
     f_to_dec := fun _ => []; f_of_dec := fun _ => None |}.
Definition run0 (p : string) :=
  let '(r, s) := eval_string F0 80 (s2t p) (init_state [] None) in (r, map fst (log s)).
Example C02_ex1 :
  run0 "(defun f (a b &optional c &rest d) (list a b c d)) (let ((a 1)) (f (tick 1 2) (tick 2 a) (tick 3 3) (tick 4 4) (tick 5 5)))"
  = (fst (run0 "'(2 1 3 (4 5))"), [5; 4; 3; 2; 1]%Z).
Proof. vm_compute. reflexivity. Qed.
Example C02_ex2 : fst (run0 "(mapcar 'symbolp '(a 1))") = fst (run0 "'(t nil)").
Proof. vm_compute. reflexivity. Qed.
Example C02_ex3 : run0 "(defun g (a) (tick 9 a)) (g (tick 1 1) (tick 2 2))" = (Err EType, [1]%Z).
Proof. vm_compute. reflexivity. Qed.

(* a tail call that leaves out the optional argument: nil, not the previous value *)
Example C02_ex4 :
  fst (run0 "(defun cd (n &optional tag &rest more) (if (< n 1) (list tag more) (cd (- n 1)))) (list (cd 0 'x 'y) (cd 3 'x 'y))")
  = fst (run0 "'((x (y)) (nil nil))").
Proof. vm_compute. reflexivity. Qed.
Example C02_plain_nonvacuous : plain (Sym (s2t "a")) /\ ~ plain (Sym n_rest).
Proof. split; [exists (s2t "a"); repeat split; vm_compute; reflexivity|]. intros (n & H & _ & H2). inversion H; subst. vm_compute in H2. discriminate. Qed.

Check C02_arguments_then_parameters : forall rec ps args s,
  zip_args rec true ps args s = zip_factored rec ps args s.
