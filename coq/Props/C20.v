(* C20 - The Rust embedding API mirrors the Lisp semantics.                  *)
(* Statements only; the proofs are in Proofs/Heap.v, Proofs/Build.v and Proofs/Seq.v.  The model of the API is  *)
(* Model/Api.v: objects are mutable cells with identity in a heap, registers    *)
(* hold object handles, symbols have binding stacks of handles.                 *)
From TL Require Import Base.Base Model.Reader Model.Printer Model.Api.
From TL Require Import Proofs.Heap Proofs.Build Proofs.Seq.
Local Open Scope list_scope.

(* symbol operations (set, set_scope, unset, get, boundp) on an ordinary       *)
(* symbol: the symbol's stack moves exactly as a list stack, every other        *)
(* symbol's stack is untouched, the heap is not written, results agree.         *)
(* By induction this holds under every sequence of calls.                       *)
Theorem C20_symbol_api_is_a_stack : forall w s d o,
  let i := reg w s in
  is_sym (hp w) i = true -> is_const_sym (hp w) i = false -> d <> s ->
  let w' := fst (step_op w (op_of s d w o)) in
  stack_of w' i = fst (stack_step (stack_of w i) (lift_v w o)) /\
  (forall j, j <> i -> stack_of w' j = stack_of w j) /\
  hp w' = hp w /\
  match snd (stack_step (stack_of w i) (lift_v w o)), snd (step_op w (op_of s d w o)) with
  | SOk, RUnit | SFail, RErr => True
  | SVal v, RUnit => reg w' d = v
  | SBool b, RBool b' => b = b'
  | _, _ => False
  end.
Proof. exact symbol_op_is_stack_op. Qed.
Theorem C20_constant_symbol_rejects : forall w s a,
  is_const_sym (hp w) (reg w s) = true ->
  step_op w (OSet s a) = (w, RErr) /\ step_op w (OSetScope s a) = (w, RErr).
Proof. exact constant_symbol_rejects. Qed.

(* conversions round-trip exactly and reject wrong types *)
Theorem C20_int_roundtrip : forall w z d, snd (step_op (fst (step_op w (OInt z d))) (OToInt d)) = RInt z.
Proof. exact int_roundtrip. Qed.
Theorem C20_string_roundtrip : forall w s d, snd (step_op (fst (step_op w (OStr s d))) (OToStr d)) = RStr s.
Proof. exact str_roundtrip. Qed.
Theorem C20_wrong_type_rejected : forall w s d,
  snd (step_op (fst (step_op w (OStr s d))) (OToInt d)) = RErr /\
  snd (step_op (fst (step_op w (OStr s d))) (OToFlt d)) = RErr.
Proof. exact wrong_type_rejected. Qed.

(* object-level list operations with sharing: deep_copy writes no existing     *)
(* cell; push writes exactly one existing cell, the empty-list object at the     *)
(* end of the destination; append copies its argument and writes exactly one     *)
(* cell of the destination; every object that does not reach the written cell    *)
(* reads the same afterwards                                                     *)
Theorem C20_deep_copy_is_fresh : forall h i h' r,
  h_deep_copy h i = Ok (h', r) -> same_below (hnext h) h h' /\ (hnext h <= hnext h')%positive.
Proof. exact deep_copy_fresh. Qed.
Theorem C20_push_writes_end_cell : forall h a v h',
  h_push h a v = Ok h' -> exists w, h_null h w = true /\ written_one (hnext h) w h h'.
Proof. exact push_writes_end_cell. Qed.
Theorem C20_append_writes_one_cell : forall h a v h',
  h_append h a v = Ok h' -> exists w, written_one (hnext h) w h h'.
Proof. exact append_writes_one_cell. Qed.
Theorem C20_unrelated_objects_unchanged : forall fuel h h' n w i,
  written_one n w h h' -> avoids fuel h n w i = true -> abs fuel h' i = abs fuel h i.
Proof. exact abs_unchanged. Qed.

(* THE SEQUENCE MODEL.  [lrep h i l]: object i is a proper list whose elements are *)
(* the objects l, in order (Proofs/Seq.v).  On every well-formed heap (no entry      *)
(* beyond the allocation pointer), for lists of every length:                          *)
(* cons puts one element in front; car / cdr take it off again;                        *)
Theorem C20_cons_is_cons : forall h a d l, wfh h -> lrep h d l ->
  lrep (fst (halloc h (HCons a d))) (hnext h) (a :: l).
Proof. exact cons_is_cons. Qed.
Theorem C20_car_cdr_of_cons : forall h i a l, lrep h i (a :: l) ->
  h_car h i = Ok (h, a) /\ exists d, h_cdr h i = Ok (h, d) /\ lrep h d l.
Proof. exact car_cdr_of_cons. Qed.
(* push appends exactly one element at the end, whatever the length;                   *)
Theorem C20_push_appends : forall h a v l h', wfh h -> lrep h a l -> h_push h a v = Ok h' ->
  lrep h' a (l ++ [v]) /\ wfh h'.
Proof. exact push_appends. Qed.
(* append concatenates: the destination's elements, then the argument's elements - the *)
(* same objects, or for cons elements new head cells with the contents they had when    *)
(* the argument was copied (heap h1: nothing older than the call was written);          *)
Theorem C20_append_concatenates : forall h a v l1 l2 h', wfh h -> lrep h a l1 -> lrep h v l2 ->
  h_append h a v = Ok h' ->
  exists h1 l2', same_below (hnext h) h h1 /\ Forall2 (ecopy h1) l2 l2' /\
                 lrep h' a (l1 ++ l2') /\ wfh h'.
Proof. exact append_concatenates. Qed.
(* deep_copy yields a list of the same elements on a new spine.                        *)
Theorem C20_deep_copy_same_elements : forall h v l2 h1 c, wfh h -> lrep h v l2 ->
  h_deep_copy h v = Ok (h1, c) ->
  exists l2', lrep h1 c l2' /\ Forall2 (ecopy h1) l2 l2' /\ (hnext h <= c)%positive.
Proof. exact deep_copy_seq. Qed.
Print Assumptions C20_cons_is_cons. Print Assumptions C20_car_cdr_of_cons.
Print Assumptions C20_push_appends. Print Assumptions C20_append_concatenates.
Print Assumptions C20_deep_copy_same_elements.

Print Assumptions C20_symbol_api_is_a_stack. Print Assumptions C20_constant_symbol_rejects.
Print Assumptions C20_int_roundtrip. Print Assumptions C20_string_roundtrip.
Print Assumptions C20_wrong_type_rejected. Print Assumptions C20_deep_copy_is_fresh.
Print Assumptions C20_push_writes_end_cell. Print Assumptions C20_append_writes_one_cell.
Print Assumptions C20_unrelated_objects_unchanged.

(* non-vacuity: b = nil; b.append(a); a.push(x) leaves b unchanged (D28 fixed); *)
(* push on the cdr of a list shows through the list (same object)                *)
Example C20_ex :
  run_ops init_world
    [OInt 1 1; ONil 2; OCons 1 2 3;     (* r3 = (1) *)
     ONil 4; OAppend 4 3;                 (* r4 = nil; r4.append(r3) *)
     OInt 2 5; OPush 3 5;                 (* r3.push(2) *)
     OShow 3; OShow 4;
     OCdr 3 6; OInt 3 7; OPush 6 7; OShow 3]
  = [RUnit; RUnit; RUnit; RUnit; RUnit; RUnit; RUnit;
     RVal (of_list [Int 1; Int 2] Nil); RVal (of_list [Int 1] Nil);
     RUnit; RUnit; RUnit; RVal (of_list [Int 1; Int 2; Int 3] Nil)].
Proof. vm_compute. reflexivity. Qed.

(* non-vacuity of the sequence model: a well-formed heap holding the list (1 2) *)
Definition hq : heap :=   (* 1: 1   2: 2   3: nil   4: (2)   5: (1 2) *)
  let h0 := {| cells := PositiveMap.empty hval; hnext := 1%positive |} in
  let h := fst (halloc h0 (HInt 1)) in let h := fst (halloc h (HInt 2)) in
  let h := fst (halloc h HNil) in let h := fst (halloc h (HCons 2 3)) in
  fst (halloc h (HCons 1 4)).
Example C20_seq_ex : wfh hq /\ lrep hq 5%positive [1; 2]%positive /\
  match h_push hq 5%positive 1%positive with
  | Ok h' => abs 9 h' 5%positive = Some (of_list [Int 1; Int 2; Int 1] Nil)
  | _ => False
  end.
Proof.
  split; [unfold hq; repeat apply wfh_alloc; intros c _; apply PositiveMap.gempty|].
  split; [|vm_compute; reflexivity].
  eapply lrep_cons; [reflexivity|]. eapply lrep_cons; [reflexivity|]. apply lrep_nil; reflexivity.
Qed.

Check C20_append_writes_one_cell : forall h a v h',
  h_append h a v = Ok h' -> exists w, written_one (hnext h) w h h'.
