From TL Require Import Base.Base.
