(* C18 - List operations need stack space independent of list length.        *)
(* Statements only; the proofs are in Proofs/Depth.v and Proofs/TailCalls.v.   *)
From TL Require Import Base.Base Model.Reader Model.Printer Model.Store Model.Eval Model.Init.
From TL Require Import Proofs.Depth Proofs.EvalRel Proofs.TailCalls.
Local Open Scope nat_scope.
Local Open Scope list_scope.

(* [actD v]: the nesting of activations that printing, comparing with equal   *)
(* or copying the value v needs when the spine of a list is walked by a loop    *)
(* and only the elements are entered recursively - the recursion structure of    *)
(* the model's print / equal / spine copy.                                       *)
(* It depends on the nesting of the ELEMENTS only, never on the length:          *)
Theorem C18_depth_of_a_list : forall x xs,
  actD (of_list (x :: xs) Nil) = list_max (map (fun e => S (actD e)) (x :: xs)).
Proof. exact actD_list. Qed.
Theorem C18_flat_list_one_activation : forall x xs,
  forallb atom (x :: xs) = true -> actD (of_list (x :: xs) Nil) = 1.
Proof. exact flat_list_depth_one. Qed.
Theorem C18_append_does_not_deepen : forall xs ys,
  spineD (of_list (xs ++ ys) Nil) = Nat.max (spineD (of_list xs Nil)) (spineD (of_list ys Nil)).
Proof. exact append_depth. Qed.
(* measuring is a count *)
Theorem C18_length_is_a_count : forall xs, length_z (of_list xs Nil) = Z.of_nat (List.length xs).
Proof. exact length_is_a_count. Qed.
(* building a long list by a tail-recursive function: the trampoline is a    *)
(* loop (one TTramp task per iteration), bindings stay balanced for any        *)
(* number of iterations                                                         *)
Theorem C18_tail_recursive_builder_is_a_loop : forall F f ps body vals s,
  run F (S f) (TTramp ps body (Cons Bounce vals)) s =
  bind (eval_function (run F f) false ps body vals) (fun r' => run F f (TTramp ps body r')) s.
Proof. exact trampoline_iteration. Qed.

Print Assumptions C18_depth_of_a_list. Print Assumptions C18_flat_list_one_activation.
Print Assumptions C18_append_does_not_deepen. Print Assumptions C18_length_is_a_count.
Print Assumptions C18_tail_recursive_builder_is_a_loop.

(* non-vacuity: 3000 elements, depth 1; a nested element decides the depth *)
Example C18_ex :
  actD (of_list (repeat (Int 1) 3000) Nil) = 1 /\
  actD (of_list (repeat (Int 1) 3000 ++ [of_list [of_list [Int 2] Nil] Nil]) Nil) = 3.
Proof. vm_compute. split; reflexivity. Qed.

Check C18_flat_list_one_activation : forall x xs,
  forallb atom (x :: xs) = true -> actD (of_list (x :: xs) Nil) = 1.
