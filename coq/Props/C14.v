(* C14 - Equality predicates and hash tables are coherent.                  *)
(* Statements only; the proofs are in Proofs/Equality.v.                     *)
From TL Require Import Base.Base Model.Reader Model.Printer Model.Store Model.Eval Model.Init.
From TL Require Import Proofs.Equality.

(* equal: symmetric; reflexive on values without NaN; structural *)
Theorem C14_equal_symmetric : forall F, (forall x y, f_eq F x y = f_eq F y x) ->
  forall a b, equal F a b = equal F b a.
Proof. exact equal_sym. Qed.
Theorem C14_equal_reflexive : forall F a, no_nan F a -> equal F a a = true.
Proof. exact equal_refl. Qed.
Theorem C14_equal_strings_by_content : forall F x y, equal F (Str x) (Str y) = true <-> x = y.
Proof. exact equal_string. Qed.
Theorem C14_equal_integers_by_value : forall F x y, equal F (Int x) (Int y) = true <-> x = y.
Proof. exact equal_int. Qed.
Theorem C14_equal_lists_elementwise : forall F a d a' d',
  equal F (Cons a d) (Cons a' d') = equal F a a' && equal F d d'.
Proof. exact equal_cons. Qed.
Theorem C14_equal_list_vs_atom : forall F a d x, consp x = false -> equal F (Cons a d) x = false.
Proof. exact equal_cons_atom. Qed.
Theorem C14_equal_numbers_by_value : forall F x y,
  equal F (Int x) (Flt y) = f_eq F (f_of_int F x) y.
Proof. exact equal_int_float. Qed.

(* eq implies equal *)
Theorem C14_eq_implies_equal : forall F a b, no_nan F a ->
  eq_model a b = Some true -> equal F a b = true.
Proof. exact eq_implies_equal. Qed.

(* interning the same name gives eq symbols, different names different     *)
(* symbols; make-symbol / gensym symbols are eq to nothing else             *)
Theorem C14_intern_same : forall n, eq_model (Sym n) (Sym n) = Some true.
Proof. exact intern_same. Qed.
Theorem C14_intern_distinct : forall n m, n <> m -> eq_model (Sym n) (Sym m) = Some false.
Proof. exact intern_distinct. Qed.
Theorem C14_uninterned_not_interned : forall n i m, eq_model (USym n i) (Sym m) = Some false.
Proof. exact uninterned_never_interned. Qed.
Theorem C14_uninterned_distinct : forall n i m j, i <> j -> eq_model (USym n i) (USym m j) = Some false.
Proof. exact uninterned_distinct. Qed.
Theorem C14_fresh_serials : forall s,
  let '(r1, s1) := fresh_id s in
  let '(r2, _) := fresh_id s1 in
  exists i j, r1 = Ok i /\ r2 = Ok j /\ i <> j.
Proof. exact fresh_ids_distinct. Qed.

(* the hash table is a finite map keyed by eql (keys: integers, floats by  *)
(* bit pattern, symbols, nil, t - the keys whose identity the pure model     *)
(* decides): after ANY sequence of puthash, gethash returns the value most   *)
(* recently stored under an eql key, nil otherwise                           *)
Theorem C14_gethash_after_puthash : forall l k v k', akeys l -> akey k = true -> akey k' = true ->
  forall l', ht_put l k v = Ok l' ->
  ht_find l' k' = if keq k k' then Ok v else ht_find l k'.
Proof. exact find_put. Qed.
Theorem C14_finite_map : forall ops l k, akeys ops -> akey k = true ->
  puts [] ops = Ok l ->
  ht_find l k = Ok (match latest ops k with Some v => v | None => Nil end).
Proof.
  intros ops l k Ho Hk Hp. rewrite (puts_spec ops [] l k (Forall_nil _) Ho Hk Hp).
  destruct (latest ops k); reflexivity.
Qed.
Theorem C14_puthash_total : forall ops, akeys ops -> exists l, puts [] ops = Ok l.
Proof. intros ops H. apply puts_total; [constructor|assumption]. Qed.
(* the key equality is an equivalence: 1 and 1.0 are different keys *)
Theorem C14_key_equivalence :
  (forall a, akey a = true -> keq a a = true) /\
  (forall a b, akey a = true -> akey b = true -> keq a b = keq b a) /\
  (forall a b, akey a = true -> akey b = true -> keq a b = true ->
     forall c, akey c = true -> keq a c = keq b c) /\
  keq (Int 1) (Flt 1) = false.
Proof. split; [exact keq_refl|split; [exact keq_sym|split; [exact keq_eq|reflexivity]]]. Qed.

Print Assumptions C14_equal_symmetric. Print Assumptions C14_equal_reflexive.
Print Assumptions C14_equal_strings_by_content. Print Assumptions C14_equal_integers_by_value.
Print Assumptions C14_equal_lists_elementwise. Print Assumptions C14_equal_list_vs_atom.
Print Assumptions C14_equal_numbers_by_value. Print Assumptions C14_eq_implies_equal.
Print Assumptions C14_intern_same. Print Assumptions C14_intern_distinct.
Print Assumptions C14_uninterned_not_interned. Print Assumptions C14_uninterned_distinct.
Print Assumptions C14_fresh_serials. Print Assumptions C14_gethash_after_puthash.
Print Assumptions C14_finite_map. Print Assumptions C14_puthash_total.
Print Assumptions C14_key_equivalence.

Definition F0 : fops :=
  {| f_add := fun _ _ => 0%Z; f_sub := fun _ _ => 0%Z; f_mul := fun _ _ => 0%Z;
     f_div := fun _ _ => 0%Z; f_rem := fun _ _ => 0%Z; f_pow := fun _ _ => 0%Z;
     f_max := fun _ _ => 0%Z; f_min := fun _ _ => 0%Z; f_of_int := fun z => z;
     f_to_int := fun z => z; f_round := fun z => z; f_trunc := fun z => z;
     f_lt := Z.ltb; f_le := Z.leb; f_eq := Z.eqb; f_is_finite := fun _ => true;
     f_to_dec := fun _ => []; f_of_dec := fun _ => None |}.
Definition ev0 (p : string) := fst (eval_string F0 80 (s2t p) (init_state [] None)).
Example C14_ex :
  ev0 "(setq h (make-hash-table)) (puthash 'a 1 h) (puthash 2 'x h) (puthash 'a 3 h) (list (gethash 'a h) (gethash 2 h) (gethash 'b h) (eq 'a 'a) (eq (make-symbol ""a"") 'a) (equal '(1 (2 . ""s"")) '(1 (2 . ""s""))) (eq nil nil))"
  = ev0 "'(3 x nil t nil t t)".
Proof. vm_compute. reflexivity. Qed.

(* REFUTED (known findings D50, D45): "equal holds exactly for structurally equal  *)
(* values" fails of the faithful model for function values, which are compared by   *)
(* kind only; and interning the name nil gives a symbol that is not nil, which the   *)
(* reader then returns for the token nil.                                             *)
Example C14_equal_exactly_structural_refuted_for_functions :
  ev0 "(equal (lambda (x) x) (lambda (y) (+ y 1)))" = Ok T.
Proof. vm_compute. reflexivity. Qed.
Example C14_interning_nil_refuted :
  ev0 "(eq (intern ""nil"") nil)" = Ok Nil /\
  (let s0 := init_state [] None in
   let '(_, s1) := eval_string F0 80 (s2t "(intern ""nil"")") s0 in
   fst (eval_string F0 80 (s2t "(if nil 1 2)") s1) = Err EType).
Proof. vm_compute. split; reflexivity. Qed.

Check C14_finite_map : forall ops l k, akeys ops -> akey k = true ->
  puts [] ops = Ok l ->
  ht_find l k = Ok (match latest ops k with Some v => v | None => Nil end).
