(* C13 - Numeric functions follow the integer/float tower.                *)
(* Statements only; the proofs are in Proofs/Numeric.v.                    *)
From TL Require Import Base.Base Model.Reader Model.Printer Model.Store Model.Eval Model.Init.
From TL Require Import Proofs.Numeric.
Local Open Scope Z_scope.

Section C13.
Variable F : fops.     (* binary64 operations: an oracle (hardware doubles on both sides) *)

(* integer operands: the mathematically exact result, or an error when it *)
(* does not fit an i64                                                     *)
Theorem C13_add_exact : forall a b, binop F OAdd (Int a) (Int b) =
  if in_i64 (a + b) then Ok (Int (a + b)) else Err ERange.
Proof. exact (add_int F). Qed.
Theorem C13_sub_exact : forall a b, binop F OSub (Int a) (Int b) =
  if in_i64 (a - b) then Ok (Int (a - b)) else Err ERange.
Proof. exact (sub_int F). Qed.
Theorem C13_mul_exact : forall a b, binop F OMul (Int a) (Int b) =
  if in_i64 (a * b) then Ok (Int (a * b)) else Err ERange.
Proof. exact (mul_int F). Qed.

(* integer division truncates toward zero (Z.quot), a zero divisor is an error *)
Theorem C13_div_truncates : forall a b, b <> 0 -> binop F ODiv (Int a) (Int b) =
  if in_i64 (Z.quot a b) then Ok (Int (Z.quot a b)) else Err ERange.
Proof. exact (div_int F). Qed.
Theorem C13_div_only_min_overflows : forall a b,
  in_range a -> in_range b -> b <> 0 -> ~ (a = i64_min /\ b = -1) -> in_range (Z.quot a b).
Proof. exact quot_in_range. Qed.
Theorem C13_div_zero : forall a, binop F ODiv (Int a) (Int 0) = Err ERange.
Proof. exact (div_int_zero F). Qed.

(* mod takes the sign of the divisor: it is Z.modulo (floored), never the *)
(* truncated remainder                                                     *)
Theorem C13_mod_sign_of_divisor : forall a b, b <> 0 ->
  binop F OMod (Int a) (Int b) = Ok (Int (Z.modulo a b)).
Proof. exact (mod_int F). Qed.
Theorem C13_mod_zero : forall a, binop F OMod (Int a) (Int 0) = Err ERange.
Proof. exact (mod_int_zero F). Qed.

(* integer operands give integer results (in range), any float operand    *)
(* makes the result a float                                                *)
Theorem C13_int_closed : forall op a b r, in_range b ->
  binop F op (Int a) (Int b) = Ok r -> exists z, r = Int z /\ in_range z.
Proof. exact (int_closed F). Qed.
Theorem C13_contagion : forall op a b r, is_num a -> is_num b -> (is_flt a \/ is_flt b) ->
  binop F op a b = Ok r -> is_flt r.
Proof. exact (contagion F). Qed.

(* arguments that are not numbers are rejected, in either position *)
Theorem C13_rejects_non_numbers : forall op a b, ~ is_num a \/ ~ is_num b ->
  match binop F op a b with Ok _ => False | _ => True end.
Proof. exact (non_number_rejected F). Qed.

(* the n-ary operators are left folds of the binary operation: the call   *)
(* (+ x1 ... xn) of the interpreter, on numeric literals                   *)
Lemma run_lit f x s : numlit x = true -> run F (S f) (TEval x) s = (Ok x, s).
Proof. destruct x; try discriminate; reflexivity. Qed.

Theorem C13_nary_is_left_fold : forall f a l s, forallb numlit (a :: l) = true ->
  run F (S (S f)) (TCall true (Prim PAdd) (of_list (a :: l) Nil)) s
    = (fold_op (binop F OAdd) a l, s) /\
  run F (S (S f)) (TCall true (Prim PMul) (of_list (a :: l) Nil)) s
    = (fold_op (binop F OMul) a l, s) /\
  run F (S (S f)) (TCall true (Prim PMax) (of_list (a :: l) Nil)) s
    = (fold_op (maxmin F true) a l, s) /\
  run F (S (S f)) (TCall true (Prim PMin) (of_list (a :: l) Nil)) s
    = (fold_op (maxmin F false) a l, s).
Proof.
  intros f a l s H.
  repeat split; apply (reduce_with_lits (run F (S f)) (run_lit f)); assumption.
Qed.

(* a single argument is type-checked too: (+ "a") is an error *)
Theorem C13_single_argument_checked : forall f x s, numberp x = false ->
  self_evaluating x = true ->
  fst (run F (S (S f)) (TCall true (Prim PAdd) (Cons x Nil)) s) = Err EType.
Proof.
  intros f x s Hn Hs. destruct x; try discriminate; reflexivity.
Qed.

(* max / min: equal to an argument, and a bound of all arguments *)
Theorem C13_max_spec : forall l a, exists m,
  fold_op (maxmin F true) (Int a) (map Int l) = Ok (Int m) /\
  In m (a :: l) /\ Forall (fun x => x <= m) (a :: l).
Proof. exact (fold_max_int F). Qed.
Theorem C13_min_spec : forall l a, exists m,
  fold_op (maxmin F false) (Int a) (map Int l) = Ok (Int m) /\
  In m (a :: l) /\ Forall (fun x => m <= x) (a :: l).
Proof. exact (fold_min_int F). Qed.

(* a comparison chain holds exactly when every adjacent pair does *)
Theorem C13_chain_iff_adjacent : forall f c p l s, forallb numlit (p :: l) = true ->
  exists b, adjacent F c (p :: l) = Ok b /\
  compare_chain F (run F (S f)) c l (Some p) true s = (Ok (of_bool b), s).
Proof.
  intros f c p l s H.
  destruct (compare_chain_lits F (run F (S f)) (run_lit f) c l p true s H) as (b & E1 & E2).
  exists b. split; [exact E1|exact E2].
Qed.

End C13.
Print Assumptions C13_add_exact. Print Assumptions C13_sub_exact. Print Assumptions C13_mul_exact.
Print Assumptions C13_div_truncates. Print Assumptions C13_div_only_min_overflows.
Print Assumptions C13_div_zero. Print Assumptions C13_mod_sign_of_divisor.
Print Assumptions C13_mod_zero. Print Assumptions C13_int_closed. Print Assumptions C13_contagion.
Print Assumptions C13_rejects_non_numbers. Print Assumptions C13_nary_is_left_fold.
Print Assumptions C13_single_argument_checked. Print Assumptions C13_max_spec.
Print Assumptions C13_min_spec. Print Assumptions C13_chain_iff_adjacent.

(* non-vacuity *)
Definition F0 : fops :=
  {| f_add := fun _ _ => 0; f_sub := fun _ _ => 0; f_mul := fun _ _ => 0;
     f_div := fun _ _ => 0; f_rem := fun _ _ => 0; f_pow := fun _ _ => 0;
     f_max := fun _ _ => 0; f_min := fun _ _ => 0; f_of_int := fun z => z;
     f_to_int := fun z => z; f_round := fun z => z; f_trunc := fun z => z;
     f_lt := Z.ltb; f_le := Z.leb; f_eq := Z.eqb; f_is_finite := fun _ => true;
     f_to_dec := fun _ => []; f_of_dec := fun _ => None |}.
Definition ev0 (p : string) := fst (eval_string F0 40 (s2t p) (init_state [] None)).
Example C13_ex1 : ev0 "(list (mod -7 2) (mod 7 -2) (/ -7 2) (+ 1 2 3) (< 1 2 3) (< 1 3 2) (max 3 9 4))"
  = Ok (of_list [Int 1; Int (-1); Int (-3); Int 6; T; Nil; Int 9] Nil).
Proof. vm_compute. reflexivity. Qed.
Example C13_ex2 : ev0 "(+ 9223372036854775807 1)" = Err ERange.
Proof. vm_compute. reflexivity. Qed.

(* An n-ary call is the LEFT FOLD of the binary operation: integer or float          *)
(* arithmetic is chosen per step, so integer steps before the first float argument    *)
(* overflow (or truncate) - the reading "a float argument anywhere makes the whole     *)
(* call compute in floats" does not hold of the model (nor of the code)               *)
Example C13_contagion_is_per_step_not_per_call :
  ev0 "(+ 9223372036854775807 1 (expt 2 1))" = Err ERange /\
  (exists b, ev0 "(+ 9223372036854775807 (expt 2 1) 1)" = Ok (Flt b)).
Proof. vm_compute. split; [reflexivity|eexists; reflexivity]. Qed.

Check C13_mod_sign_of_divisor : forall F a b, b <> 0 ->
  binop F OMod (Int a) (Int b) = Ok (Int (Z.modulo a b)).
