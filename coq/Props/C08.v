(* C08 - The reader is total: any text yields a program or a parse error. *)
(* Statements only; proofs are in Proofs/ReaderTotal.v.                    *)
From TL Require Import Base.Base Model.Reader Proofs.ReaderTotal.

(* For every float oracle, every obarray state and every text (any list of *)
(* code points, any length, any nesting) the reader returns forms or a     *)
(* parse error: it never reaches a panic site (usize underflow in the span *)
(* arithmetic, assert_eq!, the unwrap()s of parse_list and of the numeric  *)
(* conversions) and never runs out of the fuel `length text + 1`.          *)
Theorem C08_reader_total :
  forall (F : fops) (fl : rflags) (t : text),
    (exists forms, read_ax F fl t = Ok forms) \/ read_ax F fl t = Err EParse.
Proof. exact read_ax_total. Qed.
Print Assumptions C08_reader_total.

Theorem C08_no_panic :
  forall (F : fops) (fl : rflags) (t : text) (site : N), read_ax F fl t <> Panic site.
Proof.
  intros F fl t site H. destruct (read_ax_total F fl t) as [[forms E]|E]; congruence.
Qed.
Print Assumptions C08_no_panic.

Theorem C08_terminates :
  forall (F : fops) (fl : rflags) (t : text), read_ax F fl t <> Fuel.
Proof.
  intros F fl t H. destruct (read_ax_total F fl t) as [[forms E]|E]; congruence.
Qed.
Print Assumptions C08_terminates.

(* the tokenizer alone: every position it reports is at least column 1     *)
Theorem C08_tokenizer_total :
  forall (F : fops) (t : text),
    exists ts, tokenize F (S (List.length t)) t 1%N 1%N = Ok ts.
Proof. intros. apply tokenize_ok; lia. Qed.
Print Assumptions C08_tokenizer_total.

(* non-vacuity: both outcomes occur *)
Definition F0 : fops :=
  {| f_add := fun _ _ => 0; f_sub := fun _ _ => 0; f_mul := fun _ _ => 0;
     f_div := fun _ _ => 0; f_rem := fun _ _ => 0; f_pow := fun _ _ => 0;
     f_max := fun _ _ => 0; f_min := fun _ _ => 0; f_of_int := fun z => z;
     f_to_int := fun z => z; f_round := fun z => z; f_trunc := fun z => z;
     f_lt := Z.ltb; f_le := Z.leb; f_eq := Z.eqb; f_is_finite := fun _ => true;
     f_to_dec := fun _ => []; f_of_dec := fun _ => None |}.
Definition fl0 := {| t_interned := false; nil_interned := false |}.

Example C08_ok : exists forms, read_ax F0 fl0 (s2t "(a 'b . c) 12 ""s""") = Ok forms /\ List.length forms = 3%nat.
Proof. eexists. split; [vm_compute; reflexivity | reflexivity]. Qed.
Example C08_err1 : read_ax F0 fl0 (s2t "(a .") = Err EParse.
Proof. vm_compute. reflexivity. Qed.
Example C08_err2 : read_ax F0 fl0 (s2t "99999999999999999999") = Err EParse.
Proof. vm_compute. reflexivity. Qed.
Example C08_err3 : read_ax F0 fl0 (s2t "-.") = Err EParse.
Proof. vm_compute. reflexivity. Qed.

Check C08_reader_total : forall (F : fops) (fl : rflags) (t : text),
    (exists forms, read_ax F fl t = Ok forms) \/ read_ax F fl t = Err EParse.
