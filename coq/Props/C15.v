(* C15 - String, formatting and symbol functions meet their specification. *)
(* Statements only; the proofs are in Proofs/Strings.v and Proofs/Decimal.v. *)
From TL Require Import Base.Base Model.Reader Model.Printer Model.Store Model.Eval Model.Init.
From TL Require Import Proofs.Decimal Proofs.Strings.
Local Open Scope list_scope.

(* concat: associative, the empty string is its identity, for all texts    *)
(* (any code points: quotes, backslashes, percent signs, newlines, astral)  *)
Theorem C15_concat_is_append : forall ss acc,
  concat_l (map Str ss) acc = Ok (acc ++ List.concat ss).
Proof. exact concat_l_spec. Qed.
Theorem C15_concat_assoc : forall a b c,
  (match concat2 a b with Ok ab => concat2 ab c | e => e end) =
  (match concat2 b c with Ok bc => concat2 a bc | e => e end).
Proof. exact concat_assoc. Qed.
Theorem C15_concat_identity : forall a, concat2 [] a = Ok a /\ concat2 a [] = Ok a.
Proof. intros a. split; [apply concat_empty_l|apply concat_empty_r]. Qed.
Theorem C15_concat_rejects_non_string : forall l acc x l2, stringp x = false ->
  concat_l (map Str l ++ x :: l2) acc = Err EType.
Proof. exact concat_rejects_non_string. Qed.

(* string< is a strict total order consistent with string=; string> is its *)
(* converse (apply_prim calls text_ltb with the arguments swapped)          *)
Theorem C15_lt_irreflexive : forall a, text_ltb a a = false.
Proof. exact text_ltb_irrefl. Qed.
Theorem C15_lt_transitive : forall a b c,
  text_ltb a b = true -> text_ltb b c = true -> text_ltb a c = true.
Proof. exact text_ltb_trans. Qed.
Theorem C15_trichotomy : forall a b,
  (text_ltb a b = true /\ text_eqb a b = false /\ text_ltb b a = false) \/
  (text_ltb a b = false /\ text_eqb a b = true /\ text_ltb b a = false) \/
  (text_ltb a b = false /\ text_eqb a b = false /\ text_ltb b a = true).
Proof. exact text_trichotomy. Qed.
Theorem C15_string_eq_is_equality : forall a b, text_eqb a b = true <-> a = b.
Proof. exact text_eqb_iff. Qed.

(* format = render of the directive list: one argument per directive, in  *)
(* order; %% is a literal %; a lone trailing % is dropped                   *)
Theorem C15_format_is_render : forall F inp args acc,
  format_loop F inp args acc = render F (directives inp) args acc.
Proof. exact format_is_render. Qed.
Theorem C15_format_missing_argument : forall F d r acc,
  render F (DArg d :: r) [] acc = Err EMissing.
Proof. exact render_missing. Qed.
Theorem C15_format_unknown_directive : forall F d a r args acc,
  N.eqb d 115 = false -> N.eqb d 83 = false -> N.eqb d 100 = false -> N.eqb d 102 = false ->
  render F (DArg d :: r) (a :: args) acc = Err ESyntax.
Proof. exact render_unknown. Qed.
Theorem C15_format_consumes_in_order : forall F d r a args acc t,
  render_arg F d a = Ok t -> render F (DArg d :: r) (a :: args) acc = render F r args (acc ++ t).
Proof. exact render_step_arg. Qed.
Theorem C15_format_surplus_ignored : forall F ds args extra acc out,
  render F ds args acc = Ok out -> render F ds (args ++ extra) acc = Ok out.
Proof. exact render_surplus_ignored. Qed.

(* %d prints the decimal digits of the integer; distinct integers print    *)
(* differently, and the reader's conversion inverts the printing            *)
Theorem C15_print_Z_injective : forall a b, print_Z a = print_Z b -> a = b.
Proof. exact print_Z_inj. Qed.
Theorem C15_decimal_roundtrip : forall z, in_i64 z = true -> parse_i64 (print_Z z) = Some z.
Proof. exact parse_print_Z. Qed.

(* gensym: the name is the prefix followed by the counter, the counter is  *)
(* incremented by every call, so successive names never repeat; the symbol *)
(* carries a fresh serial (it is eq to no other symbol)                     *)
Theorem C15_gensym_names_distinct : forall p c1 c2, c1 <> c2 -> gensym_name p c1 <> gensym_name p c2.
Proof. exact gensym_names_distinct. Qed.
Theorem C15_gensym_step : forall F rec load s c rest,
  bitems (sget s counter_key) = Int c :: rest -> in_i64 (c + 1)%Z = true ->
  exists s', apply_prim F rec load PGensym Nil s
             = (Ok (USym (gensym_name (s2t "g") c) (next_id s)), s') /\
             bitems (sget s' counter_key) = Int (c + 1)%Z :: rest /\
             next_id s' = Pos.succ (next_id s).
Proof. exact gensym_step. Qed.

Print Assumptions C15_concat_is_append. Print Assumptions C15_concat_assoc.
Print Assumptions C15_concat_identity. Print Assumptions C15_concat_rejects_non_string.
Print Assumptions C15_lt_irreflexive. Print Assumptions C15_lt_transitive.
Print Assumptions C15_trichotomy. Print Assumptions C15_string_eq_is_equality.
Print Assumptions C15_format_is_render. Print Assumptions C15_format_missing_argument.
Print Assumptions C15_format_unknown_directive. Print Assumptions C15_format_consumes_in_order.
Print Assumptions C15_format_surplus_ignored. Print Assumptions C15_print_Z_injective.
Print Assumptions C15_decimal_roundtrip. Print Assumptions C15_gensym_names_distinct.
Print Assumptions C15_gensym_step.

(* non-vacuity *)
Definition F0 : fops :=
  {| f_add := fun _ _ => 0%Z; f_sub := fun _ _ => 0%Z; f_mul := fun _ _ => 0%Z;
     f_div := fun _ _ => 0%Z; f_rem := fun _ _ => 0%Z; f_pow := fun _ _ => 0%Z;
     f_max := fun _ _ => 0%Z; f_min := fun _ _ => 0%Z; f_of_int := fun z => z;
     f_to_int := fun z => z; f_round := fun z => z; f_trunc := fun z => z;
     f_lt := Z.ltb; f_le := Z.leb; f_eq := Z.eqb; f_is_finite := fun _ => true;
     f_to_dec := fun _ => []; f_of_dec := fun _ => None |}.
Definition ev0 (p : string) := fst (eval_string F0 60 (s2t p) (init_state [] None)).
Example C15_ex1 : ev0 "(format ""%d-%s-%%-%S"" 12 ""a"" '(b))" = Ok (Str (s2t "12-a-%-(b)")).
Proof. vm_compute. reflexivity. Qed.
Example C15_ex2 : ev0 "(format ""%d"")" = Err EMissing.
Proof. vm_compute. reflexivity. Qed.
Example C15_ex3 : ev0 "(format ""%x"" 1)" = Err ESyntax.
Proof. vm_compute. reflexivity. Qed.
Example C15_ex4 : ev0 "(list (string< ""ab"" ""b"") (string> ""ab"" ""b"") (concat ""a"" """" ""bc""))"
  = Ok (of_list [T; Nil; Str (s2t "abc")] Nil).
Proof. vm_compute. reflexivity. Qed.

(* REFUTED (known finding D55): a format string that ends inside a directive is    *)
(* accepted, the % dropped                                                            *)
Example C15_trailing_percent_is_an_error_refuted : ev0 "(format ""abc%"")" = Ok (Str (s2t "abc")).
Proof. vm_compute. reflexivity. Qed.

Check C15_format_is_render : forall F inp args acc,
  format_loop F inp args acc = render F (directives inp) args acc.
