(* C06 - Macro expansion is faithful, complete and stable.                   *)
(* Statements only; the proofs are in Proofs/Macros.v.                        *)
From TL Require Import Base.Base Model.Reader Model.Printer Model.Store Model.Eval Model.Init.
From TL Require Import Proofs.Macros.
Local Open Scope list_scope.

(* evaluating a macro call IS evaluating its expansion: the call arm of the  *)
(* interpreter expands the form (the macro applied to the UNEVALUATED          *)
(* argument forms) and evaluates the result                                    *)
Theorem C06_macro_call_is_expansion : forall F f m args s,
  run F (S f) (TCall true (PMac m) args) s =
  bind (run F f (TExpand (Cons (PMac m) args))) (fun x => run F f (TEval x)) s.
Proof. reflexivity. Qed.
Theorem C06_user_macro_call_is_expansion : forall F f ps body args s,
  run F (S f) (TCall true (Mac ps body) args) s =
  bind (run F f (TExpand (Cons (Mac ps body) args))) (fun x => run F f (TEval x)) s.
Proof. reflexivity. Qed.

(* stability: a form in which no list (at any element position, to any depth, *)
(* dotted tails included) has a macro-bound head expands to itself; so          *)
(* expanding an expanded form returns an equal form                             *)
Theorem C06_expanded_is_fixpoint : forall F n x s f, expandedb n s x = true -> (n <= f)%nat ->
  run F f (TExpand x) s = (Ok x, s).
Proof. exact expanded_is_fixpoint. Qed.
Theorem C06_quoted_untouched : forall F f v s, run F (S f) (TExpand (Quote v)) s = (Ok (Quote v), s).
Proof. exact quoted_untouched. Qed.
Theorem C06_atoms_untouched : forall F f x s, consp x = false -> run F (S f) (TExpand x) s = (Ok x, s).
Proof. exact atoms_untouched. Qed.

(* the built-in macros are their Emacs definitions *)
Theorem C06_when : forall rec c body s,
  apply_pmac rec MWhen (Cons c body) s = (Ok (of_list [S_ "if"; c; Cons (S_ "progn") body] Nil), s).
Proof. exact when_expansion. Qed.
Theorem C06_unless : forall rec c body s,
  apply_pmac rec MUnless (Cons c body) s = (Ok (Cons (S_ "if") (Cons c (Cons Nil body))), s).
Proof. exact unless_expansion. Qed.
Theorem C06_when_let : forall rec spec body s,
  apply_pmac rec MWhenLet (Cons spec body) s =
  match progn_on_rest body with
  | Ok pr => (Ok (of_list [S_ "if-let"; spec; pr] Nil), s)
  | Err e => (Err e, s) | Panic n => (Panic n, s) | Fuel => (Fuel, s)
  end.
Proof. exact when_let_expansion. Qed.
Theorem C06_while_let : forall rec spec body s r,
  append2 (Cons (S_ "progn") (nil_append body)) (Cons T Nil) = Ok r ->
  apply_pmac rec MWhileLet (Cons spec body) s =
  (Ok (of_list [S_ "while"; of_list [S_ "if-let"; spec; r; Nil] Nil] Nil), s).
Proof. exact while_let_expansion. Qed.
(* -> / thread-first is the left fold inserting the accumulated form as the  *)
(* first argument, ->> / thread-last as the last argument                       *)
Theorem C06_thread_first : forall forms fuel x,
  (List.length forms < fuel)%nat -> Forall (fun f => null f = false) forms ->
  thread true fuel x forms = Ok (fold_left ins_first forms x).
Proof. exact thread_first_fold. Qed.
Theorem C06_thread_last : forall forms fuel x,
  (List.length forms < fuel)%nat -> Forall (fun f => null f = false) forms ->
  Forall (fun f => consp f = true -> tail_of f = Nil) forms ->
  thread false fuel x forms = Ok (fold_left ins_last forms x).
Proof. exact thread_last_fold. Qed.

(* if-let* with bindings (VAR EXPR): one let* that binds every variable to       *)
(* (and PREVIOUS EXPR), the first to (and t EXPR); the THEN form is chosen by the *)
(* last variable, the ELSE forms follow - the Emacs definition                    *)
Theorem C06_if_let_star : forall rec bs thn rest s, bs <> [] -> listp rest = true ->
  apply_pmac rec MIfLetStar (Cons (of_list (map mk_binding bs) Nil) (Cons thn rest)) s =
  (Ok (of_list [S_ "let*"; of_list (chain bs T) Nil;
                of_list [S_ "if"; last_var bs; thn] rest] Nil), s).
Proof. exact if_let_star_expansion. Qed.
(* if-let over a list of bindings is if-let* with the ELSE forms under one progn *)
Theorem C06_if_let : forall rec spec thn rest s c pr,
  car_of spec = Ok c -> listp c = true -> progn_on_rest rest = Ok pr ->
  apply_pmac rec MIfLet (Cons spec (Cons thn rest)) s =
  (Ok (of_list [S_ "if-let*"; spec; thn; pr] Nil), s).
Proof. exact if_let_expansion. Qed.
Print Assumptions C06_if_let_star. Print Assumptions C06_if_let.

(* One expansion step of a user macro.  A list whose head is a symbol bound to     *)
(* `Mac ps body` expands by applying the definition to the argument forms AS        *)
(* WRITTEN - `eval_function` with evalp = false, which by                           *)
(* C02_values_not_reevaluated distributes exactly `items args` over the parameters  *)
(* without calling the interpreter: the forms are neither evaluated nor expanded    *)
(* before the definition sees them (outside-in) - then expanding the result again,  *)
(* then its elements.                                                                *)
Theorem C06_user_macro_step : forall F f head k ps body args s,
  key_of head = Some k -> sym_get head s = (Ok (Mac ps body), s) ->
  run F (S f) (TExpand (Cons head args)) s =
  bind (eval_function (run F f) false ps body args)
       (fun e => bind (run F f (TExpand e)) (fun x => expand_elems (run F f) x)) s.
Proof. exact user_macro_step. Qed.
Print Assumptions C06_user_macro_step.

Print Assumptions C06_macro_call_is_expansion. Print Assumptions C06_user_macro_call_is_expansion.
Print Assumptions C06_expanded_is_fixpoint. Print Assumptions C06_quoted_untouched.
Print Assumptions C06_atoms_untouched. Print Assumptions C06_when. Print Assumptions C06_unless.
Print Assumptions C06_when_let. Print Assumptions C06_while_let.
Print Assumptions C06_thread_first. Print Assumptions C06_thread_last.

(* non-vacuity: expansion reaches nested calls and dotted tails, leaves     *)
(* quoted data alone, is idempotent; if-let* binds and stops at the first nil *)
Definition F0 : fops :=
  {| f_add := fun _ _ => 0%Z; f_sub := fun _ _ => 0%Z; f_mul := fun _ _ => 0%Z;
     f_div := fun _ _ => 0%Z; f_rem := fun _ _ => 0%Z; f_pow := fun _ _ => 0%Z;
     f_max := fun _ _ => 0%Z; f_min := fun _ _ => 0%Z; f_of_int := fun z => z;
     f_to_int := fun z => z; f_round := fun z => z; f_trunc := fun z => z;
     f_lt := Z.ltb; f_le := Z.leb; f_eq := Z.eqb; f_is_finite := fun _ => true;
     f_to_dec := fun _ => []; f_of_dec := fun _ => None |}.
Definition ev0 (p : string) := fst (eval_string F0 90 (s2t p) (init_state [] None)).
Example C06_ex1 :
  ev0 "(defmacro inc (v &optional n) `(setq ,v (+ ,v ,(if n n 1)))) (macroexpand '(progn (when a (inc x) '(when b)) (f . ((unless c (inc y 2))))))"
  = ev0 "'(progn (if a (progn (setq x (+ x 1)) '(when b))) (f (if c nil (setq y (+ y 2)))))".
Proof. vm_compute. reflexivity. Qed.
Example C06_ex2 :
  ev0 "(defmacro inc (v) `(setq ,v (+ ,v 1))) (setq e (macroexpand '(-> 5 (+ 1) (when (inc x))))) (equal e (macroexpand e))"
  = Ok T.
Proof. vm_compute. reflexivity. Qed.
Example C06_ex3 :
  ev0 "(list (if-let* ((a 1) (b (+ a 1))) (list a b) 'no) (if-let* ((a 1) (b nil) (c (car 5))) 'yes 'no) (->> '(1 2 3) (mapcar '1+) (nth 1)))"
  = ev0 "'((1 2) no 3)".
Proof. vm_compute. reflexivity. Qed.

(* outside-in: a macro that quotes or inspects its argument sees the form as written *)
Example C06_ex4 :
  ev0 "(defmacro show (form) `(list ',form ,form)) (defmacro op-of (form) (list 'quote (car form))) (setq c t) (setq x 5) (list (show (when c x)) (op-of (when c x)) (macroexpand '(show (unless c x))))"
  = ev0 "'(((when c x) 5) when (list '(unless c x) (if c nil x)))".
Proof. vm_compute. reflexivity. Qed.

(* REFUTED for a macro call in head position (defect D36, known finding): the   *)
(* expansion of ((-> when) t 1) is (when t 1), which is not a fixpoint             *)
Example C06_stability_refuted_for_head_calls :
  ev0 "(setq e1 (macroexpand '((-> when) t 1))) (list e1 (macroexpand e1))"
  = ev0 "'((when t 1) (if t (progn 1)))".
Proof. vm_compute. reflexivity. Qed.

Check C06_expanded_is_fixpoint : forall F n x s f, expandedb n s x = true -> (n <= f)%nat ->
  run F f (TExpand x) s = (Ok x, s).
