(* C07 - Backquote builds exactly the specified structure, freshly.          *)
(* Statements only; the proofs are in Proofs/Backquote.v.                     *)
From TL Require Import Base.Base Model.Reader Model.Printer Model.Store Model.Eval Model.Init.
From TL Require Import Proofs.Lists Proofs.Backquote.
From TL Require Import Model.Api Proofs.Heap Proofs.Build.
Local Open Scope list_scope.

(* A template list `(e1 ... en . tl)` is evaluated as a fold from left to    *)
(* right over its elements: `,x` evaluates x once and pushes the value, `,@x` *)
(* evaluates x once and appends the value, anything else is evaluated as a    *)
(* nested template; then the tail (nil, an atom after a dot, or `. ,x`).      *)
Theorem C07_left_to_right_fold : forall rec es tl s, es <> [] -> consp tl = false ->
  eval_bq rec (of_list es tl) s = bq_fold rec es tl Nil s.
Proof. exact eval_bq_is_fold. Qed.

Theorem C07_unquote_is_eval : forall rec v, eval_bq rec (Unq v) = ev rec v.
Proof. exact eval_bq_unquote. Qed.
Theorem C07_literal_atoms : forall rec o, consp o = false ->
  (forall v, o <> Unq v) -> (forall v, o <> Splice v) -> (forall v, o <> Quote v) ->
  eval_bq rec o = ret o.
Proof. exact eval_bq_atom. Qed.
Theorem C07_under_quote_marks : forall rec v,
  eval_bq rec (Quote v) = bind (eval_bq rec v) (fun r => ret (Quote r)).
Proof. exact eval_bq_nested_quote. Qed.

(* The value: with [val] the value of each unquoted expression and [sub] the  *)
(* value of each nested template, the result is the list/append construction  *)
(*   (append seg1 ... segn tail)                                               *)
(* where the segment of `,x` is (list x), of `,@x` the elements of x (a        *)
(* proper list), of anything else (list sub); the dotted tail `. ,x` is x.     *)
Theorem C07_list_append_construction : forall rec val sub,
  (forall v s, rec (TEval v) s = (Ok (val v), s)) ->
  forall es tl xs s,
  Forall (wf_elem rec val sub) es -> consp tl = false -> (forall v, tl <> Splice v) ->
  (xs ++ List.concat (map (seg val sub) es) <> [] \/ listp (tail_value val tl) = true) ->
  es <> [] ->
  bq_fold rec es tl (of_list xs Nil) s =
  (Ok (of_list (xs ++ List.concat (map (seg val sub) es)) (tail_value val tl)), s).
Proof. exact bq_fold_value. Qed.

(* FRESHNESS, on the object heap of Model/Api.v (cells with identity; the object *)
(* API of the implementation is compared with it in C20).  eval_back_quote builds *)
(* its result the way [build] does: a new empty-list object, then one push per    *)
(* literal or unquoted element and one append per spliced list (src/eval.rs;      *)
(* likewise ctx.map / ctx.filter / eval_each for mapcar, seq-filter, list).  For   *)
(* EVERY such construction, of any length, on any heap: the result is a chain of   *)
(* cells that did not exist before (spine cells and the final empty-list object    *)
(* all at or after the old allocation pointer), and no cell that existed before    *)
(* has been written - so the template, the spliced lists and every other object    *)
(* read exactly as before, and a second evaluation cannot disturb the result of    *)
(* the first.                                                                       *)
Theorem C07_result_is_fresh : forall h ops h' a, wfh h -> build h ops = Ok (h', a) ->
  a = hnext h /\ wfh h' /\ same_below (hnext h) h h' /\ FC h' (hnext h) a /\ (hnext h < hnext h')%positive.
Proof. exact build_fresh. Qed.
Theorem C07_template_and_spliced_lists_unchanged : forall h ops h' a, wfh h -> build h ops = Ok (h', a) ->
  forall fuel x, below fuel h (hnext h) x = true -> abs fuel h' x = abs fuel h x.
Proof. exact build_leaves_old_objects. Qed.
Theorem C07_results_are_independent : forall h ops1 h1 a1 ops2 h2 a2, wfh h ->
  build h ops1 = Ok (h1, a1) -> build h1 ops2 = Ok (h2, a2) ->
  a1 <> a2 /\ forall fuel x, below fuel h1 (hnext h1) x = true -> abs fuel h2 x = abs fuel h1 x.
Proof. exact builds_independent. Qed.
Print Assumptions C07_result_is_fresh. Print Assumptions C07_template_and_spliced_lists_unchanged.
Print Assumptions C07_results_are_independent.

Print Assumptions C07_left_to_right_fold. Print Assumptions C07_unquote_is_eval.
Print Assumptions C07_literal_atoms. Print Assumptions C07_under_quote_marks.
Print Assumptions C07_list_append_construction.

(* non-vacuity, through the interpreter: values, order of evaluation (tick   *)
(* log, most recent first), dotted tail, nested quote, splice of nil           *)
Definition F0 : fops :=
  {| f_add := fun _ _ => 0%Z; f_sub := fun _ _ => 0%Z; f_mul := fun _ _ => 0%Z;
     f_div := fun _ _ => 0%Z; f_rem := fun _ _ => 0%Z; f_pow := fun _ _ => 0%Z;
     f_max := fun _ _ => 0%Z; f_min := fun _ _ => 0%Z; f_of_int := fun z => z;
     f_to_int := fun z => z; f_round := fun z => z; f_trunc := fun z => z;
     f_lt := Z.ltb; f_le := Z.leb; f_eq := Z.eqb; f_is_finite := fun _ => true;
     f_to_dec := fun _ => []; f_of_dec := fun _ => None |}.
Definition run0 (p : string) :=
  let '(r, s) := eval_string F0 80 (s2t p) (init_state [] None) in (r, map fst (log s)).
Example C07_ex :
  run0 "(setq l '(2 3)) `(a ,(tick 1 1) ,@(tick 2 l) (b ,(tick 3 4)) ',(tick 4 5) ,@nil . ,(tick 5 6))"
  = (fst (run0 "'(a 1 2 3 (b 4) '5 . 6)"), [5; 4; 3; 2; 1]%Z).
Proof. vm_compute. reflexivity. Qed.

(* non-vacuity of the heap theorems: `(3 ,@l 1) with l = (1 2), built twice *)
Definition hp0 : heap := {| cells := PositiveMap.empty hval; hnext := 1%positive |}.
Definition hp5 : heap :=   (* 1: 1   2: 2   3: nil   4: (2)   5: (1 2)   6: 3 *)
  let h := fst (halloc hp0 (HInt 1)) in let h := fst (halloc h (HInt 2)) in
  let h := fst (halloc h HNil) in let h := fst (halloc h (HCons 2 3)) in
  let h := fst (halloc h (HCons 1 4)) in fst (halloc h (HInt 3)).
Lemma hp5_wf : wfh hp5.
Proof. unfold hp5. repeat apply wfh_alloc. intros c _. apply PositiveMap.gempty. Qed.
Example C07_heap_ex :
  match build hp5 [BPush 6; BAppend 5; BPush 1]%positive with
  | Ok (h1, a1) =>
      abs 9 h1 a1 = Some (of_list [Int 3; Int 1; Int 2; Int 1] Nil) /\ abs 9 h1 5%positive = Some (of_list [Int 1; Int 2] Nil) /\
      match build h1 [BPush 6; BAppend 5; BPush 1]%positive with
      | Ok (h2, a2) => abs 9 h2 a2 = abs 9 h1 a1 /\ abs 9 h2 a1 = abs 9 h1 a1 /\ a1 <> a2
      | _ => False
      end
  | _ => False
  end.
Proof. vm_compute. repeat split; discriminate. Qed.

Check C07_left_to_right_fold : forall rec es tl s, es <> [] -> consp tl = false ->
  eval_bq rec (of_list es tl) s = bq_fold rec es tl Nil s.
