(* C05 - Closures keep the local values they were created with.              *)
(* Statements only; the proofs are in Proofs/Closures.v and Proofs/EvalRel.v. *)
From TL Require Import Base.Base Model.Reader Model.Printer Model.Store Model.Eval Model.Init.
From TL Require Import Proofs.Closures Proofs.Capture Proofs.CaptureGen Proofs.EvalRel.
Local Open Scope list_scope.

(* The capture walk of `lambda`, one symbol occurrence at a time (the walk   *)
(* visits every occurrence: nested lists, dotted tails, under all five quote  *)
(* marks - Model/Eval.v capture):                                             *)
(* - a variable that is not locally bound at creation is left alone           *)
Theorem C05_free_variable_untouched : forall excl caps x s,
  lex_bound x s = (Ok false, s) -> capture_symbol excl caps x s = (Ok (x, caps), s).
Proof. exact capture_symbol_not_local. Qed.
(* - the lambda's own parameters are left alone                                *)
Theorem C05_parameter_untouched : forall excl caps x s,
  lex_bound x s = (Ok true, s) -> in_excl excl x = true ->
  capture_symbol excl caps x s = (Ok (x, caps), s).
Proof. exact capture_symbol_parameter. Qed.
(* - the first occurrence of a locally bound variable becomes a new cell with *)
(*   a fresh serial that holds the value the variable has at creation           *)
Theorem C05_captures_current_value : forall excl caps x s k v rest n,
  symbolp x = true -> key_of x = Some k -> keywordp x = false -> sym_name x = Some n ->
  lex_bound x s = (Ok true, s) -> in_excl excl x = false -> find_cap caps x = None ->
  bitems (sget s k) = v :: rest ->
  let c := Cell n (next_id s) (cell_root x) in
  let s1 := bump_id s in
  capture_symbol excl caps x s =
  (Ok (c, caps ++ [(x, c)]),
   sput s1 (key_of_id (next_id s)) (b_set (sget s1 (key_of_id (next_id s))) v)).
Proof. exact capture_symbol_new. Qed.
(* - every later occurrence gets the same cell                                  *)
Theorem C05_one_cell_per_variable : forall excl caps x c s,
  lex_bound x s = (Ok true, s) -> in_excl excl x = false -> find_cap caps x = Some c ->
  capture_symbol excl caps x s = (Ok (c, caps), s).
Proof. exact capture_symbol_again. Qed.

(* Cells: a cell reads its own slot regardless of what any variable (in      *)
(* particular the same-named one) is bound to at call time; an assignment      *)
(* changes that slot only and is read back by the next call; the slot is        *)
(* never popped by any evaluation (C03: depths never decrease)                  *)
Theorem C05_cell_ignores_caller_bindings : forall n id root s k b,
  k <> key_of_id id ->
  fst (sym_get (Cell n id root) (sput s k b)) = fst (sym_get (Cell n id root) s).
Proof. exact cell_read_independent. Qed.
Theorem C05_cell_key_is_private : forall nm id, key_of_name nm <> key_of_id id.
Proof. exact name_key_not_cell_key. Qed.
Theorem C05_cell_assignment_persists : forall n id root v s,
  exists s', sym_set (Cell n id root) v s = (Ok tt, s') /\
             fst (sym_get (Cell n id root) s') = Ok v /\
             forall k, k <> key_of_id id -> sget s' k = sget s k.
Proof. exact cell_write_read. Qed.
Theorem C05_cell_survives_evaluation : forall F fuel t s s' r id,
  eval_string F fuel t s = (r, s') -> r <> Fuel ->
  (depth s (key_of_id id) <= depth s' (key_of_id id))%nat.
Proof.
  intros F fuel t s s' r id H Hr. destruct (eval_string_inv F fuel t s r s' H Hr) as [I _].
  pose proof (I (key_of_id id)) as X. unfold cnt in X; simpl in X. lia.
Qed.

(* The WHOLE body (as it comes from program text: all symbols interned): the  *)
(* walk succeeds and returns the body with every capturable variable - locally  *)
(* bound at creation and not a parameter - replaced at EVERY occurrence (nested  *)
(* lists, dotted tails, under all five quote marks) by one cell per variable,    *)
(* and nothing else changed; no variable's own bindings are touched by it.       *)
Theorem C05_whole_body : forall s excl body,
  only_syms body = true ->
  exists caps s2,
    capture excl [] body s = (Ok (subst caps body, caps), s2) /\
    name_agree s s2 /\ caps_ok s excl caps /\ closed s excl caps body.
Proof. exact capture_whole_body. Qed.
Theorem C05_not_capturable_untouched : forall s excl caps n,
  caps_ok s excl caps -> capturable s excl n = false -> subst caps (Sym n) = Sym n.
Proof. exact not_capturable_untouched. Qed.
Theorem C05_capturable_gets_one_cell : forall s excl caps n,
  caps_ok s excl caps -> closed s excl caps (Sym n) -> capturable s excl n = true ->
  exists id, subst caps (Sym n) = Cell n id (key_of_name n).
Proof. exact capturable_replaced_by_its_cell. Qed.

(* ANY body - in particular one that already contains cells of an enclosing      *)
(* closure (the body of a lambda inside a lambda has been walked once by the     *)
(* outer capture) or uninterned symbols.  `ok s body`: the serials in the body    *)
(* have been handed out in s and its cells hold values.  The walk succeeds and    *)
(* returns `gsubst`: every symbol occurrence x (interned, uninterned or cell)     *)
(* that is locally bound at creation (a cell always is) and not a parameter is    *)
(* replaced by the cell the capture list holds for the first occurrence eq to     *)
(* it; everything else is unchanged; each of those cells is NEW (its serial was   *)
(* not handed out in s), is rooted where the occurrence it was made from is, and  *)
(* no binding that existed in s is written (`agree`).                             *)
Theorem C05_whole_body_any : forall s excl body,
  ok s body ->
  exists caps s2,
    capture excl [] body s = (Ok (gsubst s excl caps body, caps), s2) /\
    agree s s2 /\ gcaps_ok s excl caps /\ gclosed s excl caps body.
Proof. exact capture_any_body. Qed.
(* nested closures: a cell of the enclosing closure is captured AGAIN - the inner *)
(* closure gets a new cell of its own (initialised from the outer cell by          *)
(* C05_captures_current_value), it does not share the outer one                    *)
Theorem C05_outer_cell_recaptured : forall s excl caps n i r,
  gcaps_ok s excl caps -> gclosed s excl caps (Cell n i r) -> in_excl excl (Cell n i r) = false ->
  exists from nm id,
    gsubst s excl caps (Cell n i r) = Cell nm id (cell_root from) /\
    In (from, Cell nm id (cell_root from)) caps /\ sym_eq (Cell n i r) from = true /\
    (next_id s <= id)%positive.
Proof. exact outer_cell_recaptured. Qed.
Theorem C05_not_capturable_untouched_any : forall s excl caps x,
  symbolp x = true -> capt s excl x = false -> gsubst s excl caps x = x.
Proof. exact not_capt_untouched. Qed.
Theorem C05_general_walk_extends_text_walk : forall s excl caps x,
  only_syms x = true -> caps_ok s excl caps -> gsubst s excl caps x = subst caps x.
Proof. exact gsubst_on_text_bodies. Qed.

Print Assumptions C05_whole_body_any. Print Assumptions C05_outer_cell_recaptured.
Print Assumptions C05_not_capturable_untouched_any. Print Assumptions C05_general_walk_extends_text_walk.
Print Assumptions C05_whole_body. Print Assumptions C05_not_capturable_untouched.
Print Assumptions C05_capturable_gets_one_cell.
Print Assumptions C05_free_variable_untouched. Print Assumptions C05_parameter_untouched.
Print Assumptions C05_captures_current_value. Print Assumptions C05_one_cell_per_variable.
Print Assumptions C05_cell_ignores_caller_bindings. Print Assumptions C05_cell_key_is_private.
Print Assumptions C05_cell_assignment_persists. Print Assumptions C05_cell_survives_evaluation.

(* non-vacuity: creation value kept under rebinding; own assignments persist; *)
(* free variables and parameters resolved at call time; occurrence in a nested *)
(* list, a dotted tail and under a backquote                                    *)
Definition F0 : fops :=
  {| f_add := fun _ _ => 0%Z; f_sub := fun _ _ => 0%Z; f_mul := fun _ _ => 0%Z;
     f_div := fun _ _ => 0%Z; f_rem := fun _ _ => 0%Z; f_pow := fun _ _ => 0%Z;
     f_max := fun _ _ => 0%Z; f_min := fun _ _ => 0%Z; f_of_int := fun z => z;
     f_to_int := fun z => z; f_round := fun z => z; f_trunc := fun z => z;
     f_lt := Z.ltb; f_le := Z.leb; f_eq := Z.eqb; f_is_finite := fun _ => true;
     f_to_dec := fun _ => []; f_of_dec := fun _ => None |}.
Definition ev0 (p : string) := fst (eval_string F0 80 (s2t p) (init_state [] None)).
Example C05_ex1 :
  ev0 "(setq g 5) (setq f (let ((x 1)) (lambda (p) (list x p g)))) (setq x 100) (let ((x 7) (g 6)) (funcall f x))"
  = ev0 "'(1 7 6)".
Proof. vm_compute. reflexivity. Qed.
Example C05_ex2 :
  ev0 "(setq c (let ((n 0)) (lambda () (setq n (+ n 1)) n))) (setq n 50) (list (funcall c) (funcall c) (funcall c) n)"
  = ev0 "'(1 2 3 50)".
Proof. vm_compute. reflexivity. Qed.
Example C05_ex3 :
  ev0 "(setq f (let ((x 1)) (lambda () `(a (b ,x) . ,x)))) (let ((x 2)) (funcall f))"
  = ev0 "'(a (b 1) . 1)".
Proof. vm_compute. reflexivity. Qed.

(* nested closures: the inner closure reads the value the outer cell had when the *)
(* inner one was created; its own assignments go to its own cell                   *)
Example C05_ex4 :
  ev0 "(setq mk (let ((x 1)) (lambda () (lambda () x)))) (setq x 100) (let ((x 7)) (funcall (funcall mk)))"
  = ev0 "1".
Proof. vm_compute. reflexivity. Qed.
Example C05_ex5 :
  ev0 "(setq mk (let ((n 0)) (lambda () (setq n (+ n 10)) (lambda () (setq n (+ n 1)) n)))) (setq a (funcall mk)) (setq b (funcall mk)) (list (funcall a) (funcall a) (funcall b) (funcall a))"
  = ev0 "'(11 12 21 13)".
Proof. vm_compute. reflexivity. Qed.
(* the hypothesis of C05_whole_body_any holds of the body of a closure made by a  *)
(* run: it contains a cell, with a serial below the next one and a value           *)
Definition st_nested := snd (eval_string F0 80 (s2t "(setq mk (let ((x 1)) (lambda (p) (lambda () (list x p)))))") (init_state [] None)).
Definition body_nested : sx :=
  match bitems (sget st_nested (key_of_name (s2t "mk"))) with
  | Lam _ b :: _ => b
  | _ => Nil
  end.
Example C05_ok_nonvacuous : ok st_nested body_nested /\ body_nested <> Nil.
Proof. vm_compute. repeat split; try reflexivity; discriminate. Qed.

Check C05_captures_current_value : forall excl caps x s k v rest n,
  symbolp x = true -> key_of x = Some k -> keywordp x = false -> sym_name x = Some n ->
  lex_bound x s = (Ok true, s) -> in_excl excl x = false -> find_cap caps x = None ->
  bitems (sget s k) = v :: rest ->
  let c := Cell n (next_id s) (cell_root x) in
  let s1 := bump_id s in
  capture_symbol excl caps x s =
  (Ok (c, caps ++ [(x, c)]),
   sput s1 (key_of_id (next_id s)) (b_set (sget s1 (key_of_id (next_id s))) v)).
