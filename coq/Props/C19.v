(* C19 - Contexts are isolated and deterministic; load equals evaluate.      *)
(* Statements only; the proofs are in Proofs/Contexts.v.                      *)
From TL Require Import Base.Base Model.Reader Model.Printer Model.Store Model.Eval Model.Init.
From TL Require Import Proofs.Contexts.

(* a world is a list of contexts, a request (i, text) runs in context i.     *)
(* A request changes no other context.                                        *)
Theorem C19_step_isolated : forall F fuel w q j,
  j <> fst q -> nth_error (fst (wstep F fuel w q)) j = nth_error w j.
Proof. exact step_isolated. Qed.

(* For EVERY interleaving of requests over any number of contexts, the        *)
(* answers of context i and its final state (all variables, functions, hash   *)
(* tables, counters) are exactly those of running its own requests alone.     *)
Theorem C19_isolation : forall F fuel qs w i s, nth_error w i = Some s ->
  let '(w', os) := wrun F fuel w qs in
  let '(s', rs) := crun F fuel s (mine i qs) in
  nth_error w' i = Some s' /\ outs_of i os = rs.
Proof. exact isolation. Qed.

(* evaluate-file = evaluate-string of the file's contents, in a state that    *)
(* differs only in the table of file names (the reported name); a missing      *)
(* file is an error that changes nothing                                       *)
Theorem C19_eval_file_is_eval_string : forall F fuel name body s,
  find (fun p => text_eqb (fst p) name) (files s) = Some (name, body) ->
  eval_file F fuel name s = eval_string F fuel body (bump_files s).
Proof. exact eval_file_is_eval_string. Qed.
Theorem C19_eval_file_missing : forall F fuel name s,
  find (fun p => text_eqb (fst p) name) (files s) = None ->
  eval_file F fuel name s = (Err EUndef, s).
Proof. exact eval_file_missing. Qed.

(* (load NAME) inside a program, hence also a nested load: evaluate the name, *)
(* then evaluate the contents as a string                                      *)
Theorem C19_load_is_eval_string : forall F f name s,
  apply_prim F (run F f) (run_body F (run F f)) PLoad (Cons (Str name) Nil) s =
  match run F f (TEval (Str name)) s with
  | (Ok (Str n), s0) =>
      match find (fun p => text_eqb (fst p) n) (files s0) with
      | Some p => eval_string F f (snd p) (bump_files s0)
      | None => (Err EUndef, s0)
      end
  | (Ok _, s0) => (Err EType, s0)
  | (Err e, s0) => (Err e, s0) | (Panic n, s0) => (Panic n, s0) | (Fuel, s0) => (Fuel, s0)
  end.
Proof. exact load_is_eval_string. Qed.

Print Assumptions C19_step_isolated. Print Assumptions C19_isolation.
Print Assumptions C19_eval_file_is_eval_string. Print Assumptions C19_eval_file_missing.
Print Assumptions C19_load_is_eval_string.

(* non-vacuity: a nested load gives what evaluating the contents gives *)
Definition F0 : fops :=
  {| f_add := fun _ _ => 0%Z; f_sub := fun _ _ => 0%Z; f_mul := fun _ _ => 0%Z;
     f_div := fun _ _ => 0%Z; f_rem := fun _ _ => 0%Z; f_pow := fun _ _ => 0%Z;
     f_max := fun _ _ => 0%Z; f_min := fun _ _ => 0%Z; f_of_int := fun z => z;
     f_to_int := fun z => z; f_round := fun z => z; f_trunc := fun z => z;
     f_lt := Z.ltb; f_le := Z.leb; f_eq := Z.eqb; f_is_finite := fun _ => true;
     f_to_dec := fun _ => []; f_of_dec := fun _ => None |}.
Definition fs0 := [(s2t "a.el", s2t "(setq x 1) (load ""b.el"") (+ x y)"); (s2t "b.el", s2t "(setq y 41)")].
Example C19_ex :
  fst (eval_file F0 60 (s2t "a.el") (init_state fs0 None)) = Ok (Int 42) /\
  fst (eval_string F0 60 (s2t "(setq x 1) (setq y 41) (+ x y)") (init_state fs0 None)) = Ok (Int 42).
Proof. vm_compute. split; reflexivity. Qed.

Check C19_isolation : forall F fuel qs w i s, nth_error w i = Some s ->
  let '(w', os) := wrun F fuel w qs in
  let '(s', rs) := crun F fuel s (mine i qs) in
  nth_error w' i = Some s' /\ outs_of i os = rs.
