(* C03 - Temporary bindings are undone on every exit, including errors.   *)
(* Statements only; the proofs are in Proofs/EvalRel.v and Proofs/Frame.v   *)
(* (on top of the hidden-entry simulation of Proofs/Hidden.v).              *)
From TL Require Import Base.Base Model.Reader Model.Printer Model.Store Model.Eval Model.Init.
From TL Require Import Proofs.EvalRel Proofs.Hidden Proofs.Tramp Proofs.Frame.
Local Open Scope nat_scope.
Local Open Scope list_scope.

(* [depth s k] is the number of entries on the binding stack of symbol k,  *)
(* [mc s k] the number of defmacro forms executed so far on k (a ghost     *)
(* counter of the model; a defmacro pushes one permanent entry, that is    *)
(* what set_scope in src/builtin/functions/functions.rs defmacro does).    *)

(* For every text, every state (hence every value of the fault counter     *)
(* fail_at), every amount of fuel and EVERY outcome - a value, any error,  *)
(* raised at any point - an evaluation request leaves every binding stack  *)
(* with the depth it had, up to: the entries of executed defmacros, and    *)
(* the creation of a global entry by an assignment to an unbound symbol.   *)
Theorem C03_request_balanced :
  forall (F : fops) (fuel : nat) (t : text) (s s' : st) (r : res sx),
    eval_string F fuel t s = (r, s') -> r <> Fuel ->
    forall k, depth s k <= depth s' k /\
              depth s' k + mc s k <= Nat.max (depth s k) 1 + mc s' k /\
              mc s k <= mc s' k.
Proof.
  intros F fuel t s s' r H Hr k. destruct (eval_string_inv F fuel t s r s' H Hr) as [I _].
  pose proof (I k) as X. unfold cnt in X; simpl in X. lia.
Qed.
Print Assumptions C03_request_balanced.

(* In particular: a symbol on which the request executed no defmacro and   *)
(* which had a binding keeps exactly its depth, whatever the outcome: no   *)
(* temporary binding of let, let*, a call, dolist or dotimes survives.     *)
Theorem C03_no_stale_binding :
  forall (F : fops) (fuel : nat) (t : text) (s s' : st) (r : res sx) (k : key),
    eval_string F fuel t s = (r, s') -> r <> Fuel ->
    mc s' k = mc s k ->
    (1 <= depth s k -> depth s' k = depth s k) /\
    (depth s k = 0 -> depth s' k <= 1).
Proof.
  intros F fuel t s s' r k H Hr Hm.
  destruct (C03_request_balanced F fuel t s s' r H Hr k) as (A & B & C). lia.
Qed.
Print Assumptions C03_no_stale_binding.

(* The same for every construct separately: every task of the interpreter  *)
(* (evaluation of a form, a call, a loop, a trampoline iteration, a macro  *)
(* expansion) is balanced, for every outcome.                              *)
Theorem C03_every_form_balanced :
  forall (F : fops) (fuel : nat) (x : sx) (s s' : st) (r : res sx),
    run F fuel (TEval x) s = (r, s') -> r <> Fuel -> Inv s s'.
Proof. intros F fuel x s s' r H Hr. apply (run_inv F fuel (TEval x) s r s' H Hr I). Qed.
Print Assumptions C03_every_form_balanced.

Theorem C03_file_balanced :
  forall (F : fops) (fuel : nat) (n : text) (s s' : st) (r : res sx),
    eval_file F fuel n s = (r, s') -> r <> Fuel -> Inv s s'.
Proof. intros F fuel n s s' r H Hr. apply (eval_file_inv F fuel n s r s' H Hr). Qed.
Print Assumptions C03_file_balanced.

(* VALUES.  The entries of a binding stack strictly between the innermost and  *)
(* the outermost one - the bindings that are shadowed - are out of reach of     *)
(* every evaluation: whatever task is run, with whatever outcome, they are     *)
(* still there afterwards, unchanged and in the same order, directly above the  *)
(* outermost entry (which only defun / set_global can write).                   *)
Theorem C03_shadowed_bindings_untouched :
  forall F f t s k top M b r s',
    bitems (sget s k) = top :: M ++ [b] ->
    run F f t s = (r, s') -> r <> Fuel ->
    exists X b', X <> [] /\ bitems (sget s' k) = X ++ M ++ [b'].
Proof. exact frame_interior. Qed.
Print Assumptions C03_shadowed_bindings_untouched.

(* A call is: parse the parameter list, pair it with the arguments, then the   *)
(* bracket [bind the parameters; run the body; unbind whatever the outcome].    *)
Theorem C03_call_is_bracket : forall rec e ps body args,
  eval_function rec e ps body args =
  bind (lift (parse_params ps)) (fun pl =>
  bind (zip_args rec e pl (items args)) (fun '(vs, rest) =>
    match rest with
    | _ :: _ => fail EType
    | [] => bracket rec (map p_sym pl) vs body
    end)).
Proof. reflexivity. Qed.

(* The bracket gives back what it shadowed: for every outcome of the body, a   *)
(* parameter symbol that had bindings before the call has exactly those entries *)
(* afterwards, value by value - only the outermost one may have been written    *)
(* (by a defun of that symbol inside the body).  A defmacro of the parameter     *)
(* symbol inside the body leaves a permanent entry and is excluded.              *)
Theorem C03_call_gives_back_bindings :
  forall F f syms vs body s r s',
    Forall bindable syms -> List.length vs = List.length syms ->
    bracket (run F f) syms vs body s = (r, s') -> r <> Fuel ->
    forall k, In k (keys syms) -> 1 <= depth s k -> mc s' k = mc s k ->
    exists b', bitems (sget s' k) = removelast (bitems (sget s k)) ++ [b'].
Proof. exact call_restores. Qed.
Print Assumptions C03_call_is_bracket. Print Assumptions C03_call_gives_back_bindings.

(* the statements are not vacuous: an error that crosses a function call,  *)
(* a let and a dolist, on the initial context                               *)
Definition F0 : fops :=
  {| f_add := fun _ _ => 0%Z; f_sub := fun _ _ => 0%Z; f_mul := fun _ _ => 0%Z;
     f_div := fun _ _ => 0%Z; f_rem := fun _ _ => 0%Z; f_pow := fun _ _ => 0%Z;
     f_max := fun _ _ => 0%Z; f_min := fun _ _ => 0%Z; f_of_int := fun z => z;
     f_to_int := fun z => z; f_round := fun z => z; f_trunc := fun z => z;
     f_lt := Z.ltb; f_le := Z.leb; f_eq := Z.eqb; f_is_finite := fun _ => true;
     f_to_dec := fun _ => []; f_of_dec := fun _ => None |}.

Definition prog1 := s2t "(defun f (a) (let ((b 1)) (dolist (c '(1 2)) (nofn))))".
Definition prog2 := s2t "(setq a 7) (f 1)".
Example C03_error_crosses_binders :
  let s0 := init_state [] None in
  let '(_, s1) := eval_string F0 50 prog1 s0 in
  let '(r, s2) := eval_string F0 50 prog2 s1 in
  r = Err EType /\
  var_items s2 (s2t "a") = [Int 7] /\ var_items s2 (s2t "b") = [] /\ var_items s2 (s2t "c") = [].
Proof. vm_compute. repeat split. Qed.

(* non-vacuity of the value theorems: a variable with three entries; a request *)
(* that assigns, shadows, assigns again and fails leaves the two lower entries    *)
Definition kx : key := key_of_name (s2t "x").
Definition s3 : st :=
  let s0 := init_state [] None in
  sput s0 kx {| has_global := true; bitems := [Int 1; Int 2; Int 3] |}.
Example C03_shadowed_example :
  bitems (sget s3 kx) = Int 1 :: [Int 2] ++ [Int 3] /\
  let '(r, s') := eval_string F0 60 (s2t "(setq x 10) (let ((x 4)) (setq x 5) (nofn))") s3 in
  r = Err EType /\ bitems (sget s' kx) = [Int 10] ++ [Int 2] ++ [Int 3].
Proof. vm_compute. repeat split. Qed.

(* A definition writes the outermost slot of the symbol's binding stack and keeps   *)
(* every entry above it; with a global value present that slot is the global value, *)
(* with temporary bindings only it is the outermost temporary binding (D39 below).  *)
Theorem C03_definition_writes_only_the_bottom_slot : forall b v,
  bitems (b_set_global b v) = match bitems b with [] => [v] | l => removelast l ++ [v] end /\
  has_global (b_set_global b v) = true.
Proof. exact set_global_writes_bottom. Qed.
Print Assumptions C03_definition_writes_only_the_bottom_slot.

(* REFUTED (defect D39, known finding): "after a request each variable has the     *)
(* bindings it had, changed only by the definitions the program executed" fails of  *)
(* the faithful model for a definition executed while the symbol has temporary      *)
(* bindings and no global value: set_global writes the bottom slot, which is then   *)
(* the outermost TEMPORARY binding - inside the let the variable reads as the       *)
(* function, and once the let is left the definition is gone.  (The depth is        *)
(* restored, as C03_request_balanced says; the content of the slot is wrong.)       *)
Example C03_executed_definition_persists_refuted :
  let s0 := init_state [] None in
  let '(r1, s1) := eval_string F0 60 (s2t "(let ((zq 17)) (eval (list 'defun 'zq nil 42)) (equal zq 17))") s0 in
  r1 = Ok Nil /\ var_items s1 (s2t "zq") = [] /\
  fst (eval_string F0 60 (s2t "(zq)") s1) = Err EType.
Proof. vm_compute. repeat split. Qed.

Check C03_request_balanced :
  forall (F : fops) (fuel : nat) (t : text) (s s' : st) (r : res sx),
    eval_string F fuel t s = (r, s') -> r <> Fuel ->
    forall k, depth s k <= depth s' k /\
              depth s' k + mc s k <= Nat.max (depth s k) 1 + mc s' k /\
              mc s k <= mc s' k.
Check C03_shadowed_bindings_untouched :
  forall F f t s k top M b r s',
    bitems (sget s k) = top :: M ++ [b] ->
    run F f t s = (r, s') -> r <> Fuel ->
    exists X b', X <> [] /\ bitems (sget s' k) = X ++ M ++ [b'].
