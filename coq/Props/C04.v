(* C04 - Self tail calls use constant stack and do not change meaning.       *)
(* Statements only; the proofs are in Proofs/TailCalls.v, Proofs/EvalRel.v,     *)
(* Proofs/Hidden.v and Proofs/Tramp.v.                                          *)
From TL Require Import Base.Base Model.Reader Model.Printer Model.Store Model.Eval Model.Init.
From TL Require Import Proofs.EvalRel Proofs.TailCalls Proofs.Calls Proofs.Hidden Proofs.Tramp.
Local Open Scope list_scope.

(* mark_tail_calls rewrites EXACTLY the self-calls in tail position (the last *)
(* form of the body; recursively the tail of progn / let / let*, both branches  *)
(* of if, the body of every cond clause) into the marker form                   *)
(* (list Bounce . args); every other part of the body - in particular every     *)
(* self-call that is not in tail position - is unchanged (mt_body / mt_form).   *)
Theorem C04_only_tail_self_calls_rewritten : forall fuel name body body',
  mark_tail fuel name body = Ok body' -> mt_body name body body'.
Proof. exact mark_tail_spec. Qed.

(* the marker form evaluates the argument forms of the tail call once each,    *)
(* left to right, in the callee's current bindings - as the call would          *)
Theorem C04_marker_evaluates_arguments : forall F rec load args s,
  (forall s0, rec (TEval Bounce) s0 = (Ok Bounce, s0)) ->
  apply_prim F rec load PList (Cons Bounce args) s =
  bind (eval_each rec (items args)) (fun vs => ret (Cons Bounce (of_list vs Nil))) s.
Proof. exact marker_evaluates_arguments. Qed.

(* a call = first activation, then the trampoline loop; one iteration binds   *)
(* the parameters to the marker's values WITHOUT evaluating them again, runs    *)
(* the body, unbinds; the loop ends with the first result that is no marker     *)
Theorem C04_call_enters_trampoline : forall F f evalp ps body args s,
  run F (S f) (TCall evalp (Lam ps body) args) s =
  bind (eval_function (run F f) evalp ps body args) (fun r => run F f (TTramp ps body r)) s.
Proof. exact call_enters_trampoline. Qed.
Theorem C04_trampoline_iteration : forall F f ps body vals s,
  run F (S f) (TTramp ps body (Cons Bounce vals)) s =
  bind (eval_function (run F f) false ps body vals) (fun r' => run F f (TTramp ps body r')) s.
Proof. exact trampoline_iteration. Qed.
Theorem C04_trampoline_exit : forall F f ps body r s, is_bounced r = false ->
  run F (S f) (TTramp ps body r) s = (Ok r, s).
Proof. exact trampoline_exit. Qed.
Theorem C04_values_not_reevaluated : forall rec ps vs s,
  zip_args rec false ps vs s =
  match zip_pure ps (firstn (n_used ps (List.length vs)) vs) with
  | Ok b => (Ok (b, skipn (n_used ps (List.length vs)) vs), s)
  | Err e => (Err e, s) | Panic n => (Panic n, s) | Fuel => (Fuel, s)
  end.
Proof. exact zip_args_values_untouched. Qed.

(* for ANY number of iterations, any outcome: the binding stacks are left      *)
(* balanced and no panic site is reached; in the model the loop is iterative     *)
(* (each iteration is one step of the same TTramp task: no nesting of            *)
(* activations grows with the number of iterations)                              *)
Theorem C04_trampoline_balanced : forall F f ps body r s r' s',
  run F f (TTramp ps body r) s = (r', s') -> r' <> Fuel -> Inv s s' /\ np r'.
Proof. exact trampoline_balanced. Qed.

(* THE SIMULATION.  [nested] (Proofs/Tramp.v) is ordinary recursion on the      *)
(* marker: the callee's activation - bind the parameters to the marker's values, *)
(* run the body, and if that yields a marker again recurse - runs INSIDE the      *)
(* caller's activation, whose parameter bindings stay on the binding stacks until *)
(* the callee has returned.  For every parameter list, body, starting marker or   *)
(* value, state, number k of nested activations and outcome (value, error, host   *)
(* failure - anything but fuel exhaustion): the interpreter's trampoline task     *)
(* TTramp, which pops each frame before the next one is pushed, has the same      *)
(* outcome and leaves the same state (every component equal, every binding stack  *)
(* equal entry by entry).  Side conditions: the parameters are bindable symbols   *)
(* (a call cannot succeed otherwise); the run gives no parameter symbol a global  *)
(* value (defun/defconst-style set_global) or macro definition while it is a      *)
(* parameter [quietP]; a parameter symbol unbound outside the call carries no     *)
(* global marker [cleanP] - without these the two really differ (see DESIGN.md).  *)
Theorem C04_trampoline_is_recursion : forall F f ps body pl,
  parse_params ps = Ok pl -> Forall bindable (map p_sym pl) ->
  forall k r0 s r s1',
  nested F f ps body k r0 s = (r, s1') -> r <> Fuel ->
  quietP pl s s1' -> cleanP pl s ->
  exists s2', run F (f + k) (TTramp ps body r0) s = (r, s2') /\ equiv s1' s2'.
Proof. exact nested_is_tramp. Qed.

(* the unrolled loop of the simulation is the interpreter's task *)
Theorem C04_loop_is_interpreter_task : forall F f ps body k r0 s r s',
  tramp F f ps body k r0 s = (r, s') -> r <> Fuel ->
  run F (f + k) (TTramp ps body r0) s = (r, s').
Proof. exact tramp_run. Qed.

(* [equiv] (equal up to the representation of the store) is invisible to every  *)
(* later evaluation: same outcome, equivalent final states                        *)
Theorem C04_equivalent_states_indistinguishable : forall F g t s1 s2 r s1',
  equiv s1 s2 -> run F g t s1 = (r, s1') -> r <> Fuel ->
  exists s2', run F g t s2 = (r, s2') /\ equiv s1' s2'.
Proof. exact equiv_indistinguishable. Qed.

(* the engine of the simulation: binding-stack entries buried below the top of a *)
(* stack (hk, at height hf from the bottom) are invisible to evaluation - any     *)
(* task, any fuel: same outcome, the visible entries related, the buried ones     *)
(* untouched - provided no tracked symbol whose buried entries reach the bottom   *)
(* gets its global slot written [quiet]                                           *)
Theorem C04_buried_entries_invisible : forall hk hf (trk : key -> Prop),
  (forall k, hk k <> [] -> trk k) ->
  forall F f t s1 s2 r s1',
  SR hk hf s1 s2 -> wf hf trk s2 -> run F f t s1 = (r, s1') -> r <> Fuel -> quiet hf trk s1 s1' ->
  exists s2', run F f t s2 = (r, s2') /\ SR hk hf s1' s2' /\ wf hf trk s2' /\ dmono s2 s2'.
Proof. intros hk hf trk Ht F f t. exact (proj2 (run_R2 hk hf trk Ht F f t)). Qed.

Print Assumptions C04_trampoline_is_recursion. Print Assumptions C04_loop_is_interpreter_task.
Print Assumptions C04_equivalent_states_indistinguishable. Print Assumptions C04_buried_entries_invisible.

Print Assumptions C04_only_tail_self_calls_rewritten. Print Assumptions C04_marker_evaluates_arguments.
Print Assumptions C04_call_enters_trampoline. Print Assumptions C04_trampoline_iteration.
Print Assumptions C04_trampoline_exit. Print Assumptions C04_values_not_reevaluated.
Print Assumptions C04_trampoline_balanced.

(* non-vacuity: what is stored for a definition with tail and non-tail self   *)
(* calls; a loop of 200 iterations with &optional/&rest, through funcall and     *)
(* mapcar, equal to the same definition written with (funcall 'f ..), which is   *)
(* not rewritten (ordinary recursion)                                            *)
Definition F0 : fops :=
  {| f_add := fun _ _ => 0%Z; f_sub := fun _ _ => 0%Z; f_mul := fun _ _ => 0%Z;
     f_div := fun _ _ => 0%Z; f_rem := fun _ _ => 0%Z; f_pow := fun _ _ => 0%Z;
     f_max := fun _ _ => 0%Z; f_min := fun _ _ => 0%Z; f_of_int := fun z => z;
     f_to_int := fun z => z; f_round := fun z => z; f_trunc := fun z => z;
     f_lt := Z.ltb; f_le := Z.leb; f_eq := Z.eqb; f_is_finite := fun _ => true;
     f_to_dec := fun _ => []; f_of_dec := fun _ => None |}.
Definition ev0 (n : nat) (p : string) := fst (eval_string F0 n (s2t p) (init_state [] None)).
Example C04_stored_body :
  match ev0 40 "(defun f (n) (if (< n 1) 0 (progn (f 0) (f (- n 1))))) f" with
  | Ok (Lam _ body) => print F0 body = s2t "((if (< n 1) 0 (progn (f 0) (list Bounce (- n 1)))))"
  | _ => False
  end.
Proof. vm_compute. reflexivity. Qed.
Example C04_same_as_recursion :
  ev0 900 "(defun f (n &optional acc &rest r) (cond ((< n 1) (list acc r)) (t (f (- n 1) (+ (if acc acc 0) n) n r)))) (list (f 200) (funcall 'f 3 1) (mapcar 'f '(1 2)))"
  = ev0 2500 "(defun f (n &optional acc &rest r) (cond ((< n 1) (list acc r)) (t (funcall 'f (- n 1) (+ (if acc acc 0) n) n r)))) (list (f 200) (funcall 'f 3 1) (mapcar 'f '(1 2)))".
Proof. vm_compute. reflexivity. Qed.

(* REFUTED for tail calls inside let / let* (defect D35, known finding).  The  *)
(* full statement "identical to ordinary recursive evaluation of the same      *)
(* definition" fails: the rewritten tail call leaves the let before the next    *)
(* activation runs, ordinary recursion runs the callee inside it, and tulisp    *)
(* variables are dynamically scoped.  The witness, replayed on the              *)
(* implementation, is the finding; the simulation theorem above is therefore    *)
(* stated against recursion on the marker, which leaves the let as well.        *)
Theorem C04_identical_to_recursion_refuted :
  exists rewritten ordinary : string,
    ev0 300 rewritten = Ok (Int 0) /\ ev0 300 ordinary = Ok (Int 1).
Proof.
  exists "(setq m 0) (defun f (n) (if (< n 1) m (let ((m n)) (f (- n 1))))) (f 3)",
         "(setq m 0) (defun f (n) (if (< n 1) m (let ((m n)) (funcall 'f (- n 1))))) (f 3)".
  split; vm_compute; reflexivity.
Qed.
Print Assumptions C04_identical_to_recursion_refuted.

(* non-vacuity of the simulation: a stored definition, five nested activations, *)
(* every hypothesis of C04_trampoline_is_recursion holds                           *)
Definition st1 : st :=
  snd (eval_string F0 40 (s2t "(defun f (n acc) (if (< n 1) acc (f (- n 1) (+ acc n))))") (init_state [] None)).
Definition lam1 : sx * sx :=
  match fst (eval_string F0 40 (s2t "f") st1) with Ok (Lam ps body) => (ps, body) | _ => (Nil, Nil) end.
Definition pl1 : list param := match parse_params (fst lam1) with Ok pl => pl | _ => [] end.
Definition start1 : sx := Cons Bounce (of_list [Int 4; Int 0] Nil).
Definition out1 := nested F0 60 (fst lam1) (snd lam1) 6 start1 st1.
Example C04_simulation_applies :
  parse_params (fst lam1) = Ok pl1 /\ Forall bindable (map p_sym pl1) /\
  List.length pl1 = 2%nat /\ fst out1 = Ok (Int 10) /\
  quietP pl1 st1 (snd out1) /\ cleanP pl1 st1 /\
  fst (run F0 66 (TTramp (fst lam1) (snd lam1) start1) st1) = Ok (Int 10).
Proof.
  split; [vm_compute; reflexivity|].
  split; [repeat constructor; eexists; split; vm_compute; reflexivity|].
  split; [vm_compute; reflexivity|]. split; [vm_compute; reflexivity|].
  split; [|split].
  - intros key Hin. vm_compute in Hin. destruct Hin as [<-|[<-|[]]]; vm_compute; split; reflexivity.
  - intros key Hin. vm_compute in Hin. destruct Hin as [<-|[<-|[]]]; vm_compute; intros; reflexivity.
  - vm_compute. reflexivity.
Qed.

(* REFUTED (known findings D42, D43): the rewritten tail call (list Bounce ..) looks  *)
(* its head up as a variable, so a parameter named list breaks the self tail call;     *)
(* and the loop re-enters the function object that was entered, not the current         *)
(* definition of the name                                                                *)
Example C04_tail_call_is_recursion_refuted_list_variable :
  ev0 60 "(defun my-len (list acc) (if (null list) acc (my-len (cdr list) (+ acc 1)))) (my-len '(1 2 3) 0)" = Err EUndef /\
  ev0 60 "(defun my-len (l acc) (if (null l) acc (+ 0 (my-len (cdr l) (+ acc 1))))) (let ((list 5)) (my-len '(1 2 3) 0))" = Ok (Int 3).
Proof. vm_compute. split; reflexivity. Qed.
Example C04_tail_call_is_recursion_refuted_redefinition :
  ev0 60 "(defun f43 (n) (if (> n 0) (f43 (- n 1)) 'old)) (setq g43 f43) (defun f43 (n) 'new) (funcall g43 2)" = Ok (Sym (s2t "old")).
Proof. vm_compute. reflexivity. Qed.

Check C04_only_tail_self_calls_rewritten : forall fuel name body body',
  mark_tail fuel name body = Ok body' -> mt_body name body body'.
Check C04_trampoline_is_recursion : forall F f ps body pl,
  parse_params ps = Ok pl -> Forall bindable (map p_sym pl) ->
  forall k r0 s r s1',
  nested F f ps body k r0 s = (r, s1') -> r <> Fuel ->
  quietP pl s s1' -> cleanP pl s ->
  exists s2', run F (f + k) (TTramp ps body r0) s = (r, s2') /\ equiv s1' s2'.
