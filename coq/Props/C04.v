(* C04 - Self tail calls use constant stack and do not change meaning.       *)
(* Statements only; the proofs are in Proofs/TailCalls.v and Proofs/EvalRel.v. *)
From TL Require Import Base.Base Model.Reader Model.Printer Model.Store Model.Eval Model.Init.
From TL Require Import Proofs.EvalRel Proofs.TailCalls Proofs.Calls.
Local Open Scope list_scope.

(* mark_tail_calls rewrites EXACTLY the self-calls in tail position (the last *)
(* form of the body; recursively the tail of progn / let / let*, both branches  *)
(* of if, the body of every cond clause) into the marker form                   *)
(* (list Bounce . args); every other part of the body - in particular every     *)
(* self-call that is not in tail position - is unchanged (mt_body / mt_form).   *)
Theorem C04_only_tail_self_calls_rewritten : forall fuel name body body',
  mark_tail fuel name body = Ok body' -> mt_body name body body'.
Proof. exact mark_tail_spec. Qed.

(* the marker form evaluates the argument forms of the tail call once each,    *)
(* left to right, in the callee's current bindings - as the call would          *)
Theorem C04_marker_evaluates_arguments : forall F rec load args s,
  (forall s0, rec (TEval Bounce) s0 = (Ok Bounce, s0)) ->
  apply_prim F rec load PList (Cons Bounce args) s =
  bind (eval_each rec (items args)) (fun vs => ret (Cons Bounce (of_list vs Nil))) s.
Proof. exact marker_evaluates_arguments. Qed.

(* a call = first activation, then the trampoline loop; one iteration binds   *)
(* the parameters to the marker's values WITHOUT evaluating them again, runs    *)
(* the body, unbinds; the loop ends with the first result that is no marker     *)
Theorem C04_call_enters_trampoline : forall F f evalp ps body args s,
  run F (S f) (TCall evalp (Lam ps body) args) s =
  bind (eval_function (run F f) evalp ps body args) (fun r => run F f (TTramp ps body r)) s.
Proof. exact call_enters_trampoline. Qed.
Theorem C04_trampoline_iteration : forall F f ps body vals s,
  run F (S f) (TTramp ps body (Cons Bounce vals)) s =
  bind (eval_function (run F f) false ps body vals) (fun r' => run F f (TTramp ps body r')) s.
Proof. exact trampoline_iteration. Qed.
Theorem C04_trampoline_exit : forall F f ps body r s, is_bounced r = false ->
  run F (S f) (TTramp ps body r) s = (Ok r, s).
Proof. exact trampoline_exit. Qed.
Theorem C04_values_not_reevaluated : forall rec ps vs s,
  zip_args rec false ps vs s =
  match zip_pure ps (firstn (n_used ps (List.length vs)) vs) with
  | Ok b => (Ok (b, skipn (n_used ps (List.length vs)) vs), s)
  | Err e => (Err e, s) | Panic n => (Panic n, s) | Fuel => (Fuel, s)
  end.
Proof. exact zip_args_values_untouched. Qed.

(* for ANY number of iterations, any outcome: the binding stacks are left      *)
(* balanced and no panic site is reached; in the model the loop is iterative     *)
(* (each iteration is one step of the same TTramp task: no nesting of            *)
(* activations grows with the number of iterations)                              *)
Theorem C04_trampoline_balanced : forall F f ps body r s r' s',
  run F f (TTramp ps body r) s = (r', s') -> r' <> Fuel -> Inv s s' /\ np r'.
Proof. exact trampoline_balanced. Qed.

Print Assumptions C04_only_tail_self_calls_rewritten. Print Assumptions C04_marker_evaluates_arguments.
Print Assumptions C04_call_enters_trampoline. Print Assumptions C04_trampoline_iteration.
Print Assumptions C04_trampoline_exit. Print Assumptions C04_values_not_reevaluated.
Print Assumptions C04_trampoline_balanced.

(* non-vacuity: what is stored for a definition with tail and non-tail self   *)
(* calls; a loop of 200 iterations with &optional/&rest, through funcall and     *)
(* mapcar, equal to the same definition written with (funcall 'f ..), which is   *)
(* not rewritten (ordinary recursion)                                            *)
Definition F0 : fops :=
  {| f_add := fun _ _ => 0%Z; f_sub := fun _ _ => 0%Z; f_mul := fun _ _ => 0%Z;
     f_div := fun _ _ => 0%Z; f_rem := fun _ _ => 0%Z; f_pow := fun _ _ => 0%Z;
     f_max := fun _ _ => 0%Z; f_min := fun _ _ => 0%Z; f_of_int := fun z => z;
     f_to_int := fun z => z; f_round := fun z => z; f_trunc := fun z => z;
     f_lt := Z.ltb; f_le := Z.leb; f_eq := Z.eqb; f_is_finite := fun _ => true;
     f_to_dec := fun _ => []; f_of_dec := fun _ => None |}.
Definition ev0 (n : nat) (p : string) := fst (eval_string F0 n (s2t p) (init_state [] None)).
Example C04_stored_body :
  match ev0 40 "(defun f (n) (if (< n 1) 0 (progn (f 0) (f (- n 1))))) f" with
  | Ok (Lam _ body) => print F0 body = s2t "((if (< n 1) 0 (progn (f 0) (list Bounce (- n 1)))))"
  | _ => False
  end.
Proof. vm_compute. reflexivity. Qed.
Example C04_same_as_recursion :
  ev0 900 "(defun f (n &optional acc &rest r) (cond ((< n 1) (list acc r)) (t (f (- n 1) (+ (if acc acc 0) n) n r)))) (list (f 200) (funcall 'f 3 1) (mapcar 'f '(1 2)))"
  = ev0 2500 "(defun f (n &optional acc &rest r) (cond ((< n 1) (list acc r)) (t (funcall 'f (- n 1) (+ (if acc acc 0) n) n r)))) (list (f 200) (funcall 'f 3 1) (mapcar 'f '(1 2)))".
Proof. vm_compute. reflexivity. Qed.

Check C04_only_tail_self_calls_rewritten : forall fuel name body body',
  mark_tail fuel name body = Ok body' -> mt_body name body body'.
