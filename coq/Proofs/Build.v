(* C07 / C11 at heap level: a list built by pushing and appending onto a fresh *)
(* accumulator (the way eval_back_quote, mapcar, seq-filter, append, list! build *)
(* their results) writes no cell that existed before the construction began:     *)
(* templates, spliced lists and arguments read the same afterwards, and the      *)
(* spine of the result consists of new cells only.                                *)
From TL Require Import Base.Base Model.Reader Model.Printer Model.Api.
From TL Require Import Proofs.Heap.
Local Open Scope positive_scope.
Local Open Scope list_scope.

(* no entry beyond the allocation pointer *)
Definition wfh (h : heap) : Prop :=
  forall c, hnext h <= c -> PositiveMap.find c (cells h) = None.

Lemma wfh_alloc h v : wfh h -> wfh (fst (halloc h v)).
Proof.
  intros H c Hc. unfold halloc in *; simpl in *. rewrite PositiveMap.gso by lia. apply H. lia.
Qed.
Lemma wfh_set h i v : wfh h -> i < hnext h -> wfh (hset h i v).
Proof.
  intros H Hi c Hc. unfold hset in *; simpl in *. rewrite PositiveMap.gso by lia. apply H. exact Hc.
Qed.
Lemma wfh_nonnil h c : wfh h -> hget h c <> HNil -> c < hnext h.
Proof.
  intros H Hn. destruct (Pos.ltb_spec c (hnext h)) as [L|L]; [exact L|].
  exfalso. apply Hn. unfold hget. rewrite (H c L). reflexivity.
Qed.

(* the cdr chain from i: every cons cell and the empty-list object that ends it *)
(* were allocated at or after n0                                                 *)
Fixpoint fc (f : nat) (h : heap) (n0 i : positive) : Prop :=
  match f with
  | O => True
  | S f' => match hget h i with
            | HCons _ d => n0 <= i < hnext h /\ fc f' h n0 d
            | HNil => n0 <= i < hnext h
            | _ => True
            end
  end.
Definition FC (h : heap) (n0 i : positive) : Prop := forall f, fc f h n0 i.

Lemma FC_cons h n0 i a d : hget h i = HCons a d -> FC h n0 i -> n0 <= i < hnext h /\ FC h n0 d.
Proof.
  intros E H. split.
  - specialize (H 1%nat). simpl in H. rewrite E in H. apply H.
  - intros f. specialize (H (S f)). simpl in H. rewrite E in H. apply H.
Qed.
Lemma FC_nil h n0 i : hget h i = HNil -> FC h n0 i -> n0 <= i < hnext h.
Proof. intros E H. specialize (H 1%nat). simpl in H. rewrite E in H. exact H. Qed.

(* writes outside a chain, and allocation, do not disturb it *)
Lemma fc_frame h h' n0 : wfh h -> hnext h <= hnext h' ->
  (forall c, c < hnext h -> hget h' c = hget h c) ->
  forall f i, fc f h n0 i -> fc f h' n0 i.
Proof.
  intros W N S. induction f as [|f IH]; intros i H; [exact I|].
  simpl in *. destruct (Pos.ltb_spec i (hnext h)) as [L|L].
  - rewrite (S i L). destruct (hget h i) eqn:E; try exact I; [lia|].
    destruct H as [B Hd]. split; [lia|]. apply IH. exact Hd.
  - assert (E : hget h i = HNil) by (unfold hget; rewrite (W i L); reflexivity).
    rewrite E in H. lia.
Qed.

Lemma fc_weaken h n0 m : n0 <= m -> forall f i, fc f h m i -> fc f h n0 i.
Proof.
  intros Hm. induction f as [|f IH]; intros i H; [exact I|]. simpl in *.
  destruct (hget h i); try exact I; [lia|]. destruct H as [B Hd]. split; [lia|apply IH; exact Hd].
Qed.

(* the chain is cut at cell w and continued by a chain of new cells *)
Lemma fc_graft h h' n0 w x y : wfh h -> hnext h <= hnext h' ->
  n0 <= w < hnext h -> hget h' w = HCons x y -> FC h' n0 y ->
  (forall c, c < hnext h -> c <> w -> hget h' c = hget h c) ->
  forall f i, fc f h n0 i -> fc f h' n0 i.
Proof.
  intros W N Bw Ew Hy S. induction f as [|f IH]; intros i H; [exact I|].
  simpl in *. destruct (Pos.eq_dec i w) as [->|Ne].
  - rewrite Ew. split; [lia|apply Hy].
  - destruct (Pos.ltb_spec i (hnext h)) as [L|L].
    + rewrite (S i L Ne). destruct (hget h i) eqn:E; try exact I; [lia|].
      destruct H as [B Hd]. split; [lia|]. apply IH. exact Hd.
    + assert (E : hget h i = HNil) by (unfold hget; rewrite (W i L); reflexivity).
      rewrite E in H. lia.
Qed.

(* a write below m does not disturb a chain of cells allocated at or after m *)
Lemma fc_set_below h m l v : l < m -> (hget h l = HNil \/ exists a0 d0, hget h l = HCons a0 d0) ->
  forall f i, fc f h m i -> fc f (hset h l v) m i.
Proof.
  intros Hl El. induction f as [|f IH]; intros i H; [exact I|]. simpl in *.
  rewrite hget_hset. destruct (Pos.eqb i l) eqn:E.
  - apply Pos.eqb_eq in E. subst. destruct El as [El|(a0 & d0 & El)]; rewrite El in H; lia.
  - rewrite ?hnext_hset. destruct (hget h i); try exact I; [exact H|].
    destruct H as [B Hd]. split; [exact B|apply IH; exact Hd].
Qed.

(* walking to the end of a fresh chain stays on the chain *)
Lemma walk_last_fc : forall f h n0 d prev last lbo,
  walk_last f h d prev = Ok (last, lbo) -> FC h n0 d ->
  (forall p, prev = Some p -> n0 <= p < hnext h /\ exists pc, hget h p = HCons pc d) ->
  (hget h last = HNil -> n0 <= last < hnext h) /\
  (forall l, lbo = Some l -> n0 <= l < hnext h /\ exists lc, hget h l = HCons lc last).
Proof.
  induction f as [|f IH]; intros h n0 d prev last lbo H Hd Hp; [discriminate|].
  simpl in H. destruct (hget h d) eqn:E.
  all: try (inversion H; subst; split; [intros En; congruence|exact Hp]).
  - inversion H; subst. split; [intros _; eapply FC_nil; eassumption|exact Hp].
  - destruct (FC_cons _ _ _ _ _ E Hd) as [B Hd'].
    eapply IH; [exact H|exact Hd'|].
    intros p Ep. inversion Ep; subst. split; [exact B|eauto].
Qed.

Local Transparent halloc.
Lemma halloc_eq h v : halloc h v = (fst (halloc h v), hnext h).
Proof. reflexivity. Qed.

(* push keeps the accumulator's chain fresh and writes nothing older than n0 *)
Theorem push_fresh h n0 a v h' : wfh h -> n0 <= hnext h -> FC h n0 a -> hget h a <> HNil \/ n0 <= a < hnext h ->
  h_push h a v = Ok h' ->
  wfh h' /\ hnext h <= hnext h' /\ same_below n0 h h' /\ FC h' n0 a.
Proof.
  intros W Hn Ha Hroot H. unfold h_push in H.
  set (h1 := fst (halloc h HNil)) in *. set (n := hnext h) in *.
  assert (graft : forall w, n0 <= w < hnext h -> hget h w = HNil ->
            let hh := hset h1 w (HCons v n) in
            wfh hh /\ hnext h <= hnext hh /\ same_below n0 h hh /\ (forall f i, fc f h n0 i -> fc f hh n0 i)).
  { intros w Bw Ew hh.
    assert (Sx : forall c, c < hnext h -> c <> w -> hget hh c = hget h c).
    { intros c Hc Hw. unfold hh. rewrite hget_hset.
      destruct (Pos.eqb c w) eqn:E; [apply Pos.eqb_eq in E; congruence|].
      unfold h1. rewrite hget_halloc. destruct (Pos.eqb c (hnext h)) eqn:E2; [apply Pos.eqb_eq in E2; lia|reflexivity]. }
    split; [apply wfh_set; [apply wfh_alloc; exact W|unfold h1; rewrite hnext_halloc; lia]|].
    split; [unfold hh; rewrite hnext_hset; unfold h1; rewrite hnext_halloc; lia|].
    split; [intros c Hc; apply Sx; lia|].
    apply (fc_graft h hh n0 w v n W).
    - unfold hh. rewrite hnext_hset. unfold h1. rewrite hnext_halloc. lia.
    - exact Bw.
    - unfold hh. rewrite hget_hset, Pos.eqb_refl. reflexivity.
    - intros f. destruct f; [exact I|]. simpl. unfold hh. rewrite hget_hset.
      assert (En : Pos.eqb n w = false) by (apply Pos.eqb_neq; unfold n; lia). rewrite En.
      unfold h1. rewrite hget_halloc. fold n. rewrite Pos.eqb_refl.
      rewrite ?hnext_hset, ?hnext_halloc. unfold hset, halloc; simpl. fold n. lia.
    - exact Sx. }
  destruct (hget h a) as [| | | | | |x d] eqn:Ea; try discriminate.
  - rewrite halloc_eq in H. fold h1 n in H. inversion H; subst h'.
    assert (Ba : n0 <= a < hnext h) by (destruct Hroot as [Hr|Hr]; [congruence|exact Hr]).
    destruct (graft a Ba Ea) as (W' & N' & S' & F'). repeat split; try assumption.
    intros f. apply F'. apply Ha.
  - destruct (walk_last (hsize h) h d None) as [[last prev]|e|k|] eqn:Ew; try discriminate.
    destruct (h_null h last) eqn:En; [|discriminate].
    rewrite halloc_eq in H. fold h1 n in H. inversion H; subst h'.
    destruct (FC_cons _ _ _ _ _ Ea Ha) as [Ba Hd].
    destruct (walk_last_fc _ _ n0 _ _ _ _ Ew Hd ltac:(intros p Ep; discriminate)) as [Hl _].
    assert (El : hget h last = HNil) by (unfold h_null in En; destruct (hget h last); congruence).
    destruct (graft last (Hl El) El) as (W' & N' & S' & F'). repeat split; try assumption.
    intros f. apply F'. apply Ha.
Qed.

(* ---- the copy made by append is a chain of new cells --------------------------- *)
Lemma alloc_facts h v : wfh h ->
  let h1 := fst (halloc h v) in
  wfh h1 /\ hnext h1 = Pos.succ (hnext h) /\ hget h1 (hnext h) = v /\
  (forall c, c < hnext h -> hget h1 c = hget h c).
Proof.
  intros W h1. split; [apply wfh_alloc; exact W|]. split; [reflexivity|].
  split; [unfold h1; rewrite hget_halloc, Pos.eqb_refl; reflexivity|].
  intros c Hc. unfold h1. rewrite hget_halloc.
  destruct (Pos.eqb c (hnext h)) eqn:E; [apply Pos.eqb_eq in E; lia|reflexivity].
Qed.

Lemma copy_spine_chain : forall fuel h i h' r m,
  copy_spine fuel h i = Ok (h', r) -> wfh h -> m <= hnext h ->
  (exists a d, hget h i = HCons a d) ->
  wfh h' /\ hnext h <= hnext h' /\ FC h' m r.
Proof.
  induction fuel as [|fuel IH]; intros h i h' r m H W Hm (a & d & Ei); [discriminate|].
  cbn [copy_spine] in H. rewrite Ei in H.
  (* the element cell *)
  set (p1 := match hget h a with HCons x y => halloc h (HCons x y) | _ => (h, a) end) in *.
  assert (P1 : wfh (fst p1) /\ hnext h <= hnext (fst p1) /\ (forall c, c < hnext h -> hget (fst p1) c = hget h c)).
  { unfold p1. destruct (hget h a) as [| | | | | |x y]; try (cbn [fst]; split; [exact W|split; [lia|reflexivity]]).
    destruct (alloc_facts h (HCons x y) W) as (W1 & N1 & _ & S1).
    split; [exact W1|]. split; [rewrite N1; lia|exact S1]. }
  destruct p1 as [h1 a'] eqn:Ep. simpl in P1. destruct P1 as (W1 & N1 & S1).
  (* the final cons cell (a' . X) allocated in hx, where the chain of X is fresh in hx *)
  assert (fin : forall hx X, wfh hx -> hnext h <= hnext hx -> FC hx m X ->
            let hy := fst (halloc hx (HCons a' X)) in
            wfh hy /\ hnext h <= hnext hy /\ FC hy m (hnext hx)).
  { intros hx X Wx Nx FX hy.
    destruct (alloc_facts hx (HCons a' X) Wx) as (Wy & Ny & Gy & Sy). fold hy in Wy, Ny, Gy, Sy.
    split; [exact Wy|]. split; [lia|].
    intros f. destruct f; [exact I|]. simpl. rewrite Gy. split; [lia|].
    apply (fc_frame hx hy m Wx ltac:(lia) Sy). apply FX. }
  destruct (hget h1 d) as [| | | | | |x y] eqn:Ed.
  - (* end of the list: a new empty-list object *)
    rewrite halloc_eq in H. set (h2 := fst (halloc h1 HNil)) in *.
    rewrite halloc_eq in H. inversion H; subst h' r.
    destruct (alloc_facts h1 HNil W1) as (W2 & N2 & G2 & S2). fold h2 in W2, N2, G2, S2.
    apply (fin h2 (hnext h1) W2 ltac:(lia)).
    intros f. destruct f; [exact I|]. simpl. rewrite G2. lia.
  - rewrite halloc_eq in H. set (h2 := fst (halloc h1 HT)) in *. rewrite halloc_eq in H. inversion H; subst h' r.
    destruct (alloc_facts h1 HT W1) as (W2 & N2 & G2 & S2). fold h2 in W2, N2, G2, S2.
    apply (fin h2 (hnext h1) W2 ltac:(lia)). intros f. destruct f; [exact I|]. simpl. rewrite G2. exact I.
  - rewrite halloc_eq in H. set (h2 := fst (halloc h1 (HInt z))) in *. rewrite halloc_eq in H. inversion H; subst h' r.
    destruct (alloc_facts h1 (HInt z) W1) as (W2 & N2 & G2 & S2). fold h2 in W2, N2, G2, S2.
    apply (fin h2 (hnext h1) W2 ltac:(lia)). intros f. destruct f; [exact I|]. simpl. rewrite G2. exact I.
  - rewrite halloc_eq in H. set (h2 := fst (halloc h1 (HFlt b))) in *. rewrite halloc_eq in H. inversion H; subst h' r.
    destruct (alloc_facts h1 (HFlt b) W1) as (W2 & N2 & G2 & S2). fold h2 in W2, N2, G2, S2.
    apply (fin h2 (hnext h1) W2 ltac:(lia)). intros f. destruct f; [exact I|]. simpl. rewrite G2. exact I.
  - rewrite halloc_eq in H. set (h2 := fst (halloc h1 (HStr s))) in *. rewrite halloc_eq in H. inversion H; subst h' r.
    destruct (alloc_facts h1 (HStr s) W1) as (W2 & N2 & G2 & S2). fold h2 in W2, N2, G2, S2.
    apply (fin h2 (hnext h1) W2 ltac:(lia)). intros f. destruct f; [exact I|]. simpl. rewrite G2. exact I.
  - (* a symbol as improper tail is shared *)
    rewrite halloc_eq in H. inversion H; subst h' r.
    apply (fin h1 d W1 N1). intros f. destruct f; [exact I|]. simpl. rewrite Ed. exact I.
  - (* a further cons: recursion *)
    destruct (copy_spine fuel h1 d) as [[h2 d']|e|k|] eqn:Ec; try discriminate.
    destruct (IH h1 d h2 d' m Ec W1 ltac:(lia) ltac:(eauto)) as (W2 & N2 & F2).
    rewrite halloc_eq in H. inversion H; subst h' r.
    apply (fin h2 d' W2 ltac:(lia) F2).
Qed.


Local Opaque halloc.
Lemma deep_copy_chain h v h1 c : h_deep_copy h v = Ok (h1, c) -> wfh h ->
  wfh h1 /\ hnext h <= hnext h1 /\ same_below (hnext h) h h1 /\ FC h1 (hnext h) c.
Proof.
  intros H W. destruct (deep_copy_fresh _ _ _ _ H) as [S N].
  unfold h_deep_copy in H.
  assert (atom : forall v0, (forall a d, v0 <> HCons a d) -> Ok (halloc h v0) = Ok (h1, c) ->
            wfh h1 /\ hnext h <= hnext h1 /\ same_below (hnext h) h h1 /\ FC h1 (hnext h) c).
  { intros v0 Hv0 E. assert (E' : halloc h v0 = (h1, c)) by congruence.
    rewrite halloc_eq in E'. injection E' as <- <-.
    destruct (alloc_facts h v0 W) as (W1 & N1 & G1 & S1).
    split; [exact W1|]. split; [lia|]. split; [exact S|].
    intros f. destruct f; [exact I|]. simpl. rewrite G1.
    destruct v0; try exact I; [lia|]. exfalso. eapply Hv0. reflexivity. }
  destruct (hget h v) eqn:Ev.
  1-5: (eapply atom; [|exact H]; intros; discriminate).
  - (* a symbol is shared *)
    inversion H; subst h1 c. split; [exact W|]. split; [lia|]. split; [exact S|].
    intros f. destruct f; [exact I|]. simpl. rewrite Ev. exact I.
  - destruct (copy_spine_chain _ _ _ _ _ (hnext h) H W ltac:(lia) ltac:(eauto)) as (W1 & N1 & F1).
    split; [exact W1|]. split; [exact N1|]. split; [exact S|exact F1].
Qed.

(* append keeps the accumulator's chain fresh and writes nothing older than n0 *)
Theorem append_fresh h n0 a v h' : wfh h -> n0 <= hnext h -> FC h n0 a ->
  hget h a <> HNil \/ n0 <= a < hnext h ->
  h_append h a v = Ok h' ->
  wfh h' /\ hnext h <= hnext h' /\ same_below n0 h h' /\ FC h' n0 a.
Proof.
  intros W Hn Ha Hroot H. unfold h_append in H.
  (* the chain is cut at w (an accumulator cell) and continued by a fresh chain y *)
  assert (graft : forall hm w x y, wfh hm -> hnext h <= hnext hm -> same_below (hnext h) h hm ->
            n0 <= w < hnext h -> (hget hm w = HNil \/ exists a0 d0, hget hm w = HCons a0 d0) ->
            FC hm (hnext h) y ->
            let hh := hset hm w (HCons x y) in
            wfh hh /\ hnext h <= hnext hh /\ same_below n0 h hh /\ FC hh n0 a).
  { intros hm w x y Wm Nm Sm Bw Ew Fy hh.
    assert (Sx : forall c, c < hnext h -> c <> w -> hget hh c = hget h c).
    { intros c Hc Hw. unfold hh. rewrite hget_hset.
      destruct (Pos.eqb c w) eqn:E; [apply Pos.eqb_eq in E; congruence|]. apply Sm. exact Hc. }
    split; [apply wfh_set; [exact Wm|lia]|]. split; [exact Nm|].
    split; [intros c Hc; apply Sx; lia|].
    intros f. apply (fc_graft h hh n0 w x y W Nm Bw).
    - unfold hh. rewrite hget_hset, Pos.eqb_refl. reflexivity.
    - intros g. apply (fc_weaken _ n0 (hnext h) Hn). apply fc_set_below; [lia|exact Ew|apply Fy].
    - exact Sx.
    - apply Ha. }
  destruct (hget h a) as [| | | | | |car0 d] eqn:Ea; try discriminate.
  - (* the accumulator is still the empty list *)
    assert (Ba : n0 <= a < hnext h) by (destruct Hroot as [Hr|Hr]; [congruence|exact Hr]).
    destruct (h_null h v) eqn:Env.
    { inversion H; subst h'. split; [exact W|]. split; [lia|]. split; [apply same_below_refl|exact Ha]. }
    destruct (h_deep_copy h v) as [[h1 c]|e|k|] eqn:Ec; try discriminate.
    destruct (deep_copy_chain _ _ _ _ Ec W) as (W1 & N1 & S1 & F1).
    assert (Ea1 : hget h1 a = HNil) by (rewrite (S1 a ltac:(lia)); exact Ea).
    destruct (hget h1 c) as [| | | | | |x y] eqn:E0.
    7:{ inversion H; subst h'. destruct (FC_cons _ _ _ _ _ E0 F1) as [_ Fy].
        apply (graft h1 a x y W1 N1 S1 Ba (or_introl Ea1) Fy). }
    all: rewrite halloc_eq in H; inversion H; subst h';
      destruct (alloc_facts h1 HNil W1) as (W2 & N2 & G2 & S2);
      apply (graft (fst (halloc h1 HNil)) a c (hnext h1) W2 ltac:(lia));
      [intros c0 Hc0; rewrite S2 by lia; apply S1; exact Hc0|exact Ba|left; rewrite S2 by lia; exact Ea1|];
      intros f; destruct f; [exact I|]; simpl; rewrite G2; lia.
  - destruct (walk_last (hsize h) h d None) as [[last lbo]|e|k|] eqn:Ew; try discriminate.
    destruct (h_null h last) eqn:En; [|discriminate].
    destruct (h_deep_copy h v) as [[h1 c]|e|k|] eqn:Ec; try discriminate.
    destruct (deep_copy_chain _ _ _ _ Ec W) as (W1 & N1 & S1 & F1).
    destruct (FC_cons _ _ _ _ _ Ea Ha) as [Ba Hd].
    destruct (walk_last_fc _ _ n0 _ _ _ _ Ew Hd ltac:(intros p Ep; discriminate)) as [_ Hl].
    destruct lbo as [l|].
    + destruct (Hl l eq_refl) as (Bl & lc0 & El).
      destruct (hget h1 l) as [| | | | | |lc ld] eqn:El1; try discriminate. inversion H; subst h'.
      apply (graft h1 l lc c W1 N1 S1 Bl ltac:(right; eauto) F1).
    + inversion H; subst h'.
      apply (graft h1 a car0 c W1 N1 S1 Ba); [|exact F1].
      right. exists car0, d. rewrite (S1 a ltac:(lia)). exact Ea.
Qed.

(* ---- building a list on a fresh accumulator -------------------------------------- *)
Inductive bop := BPush (v : positive) | BAppend (v : positive).

Definition bstep (a : positive) (h : heap) (o : bop) : res heap :=
  match o with BPush v => h_push h a v | BAppend v => h_append h a v end.

Fixpoint bfold (a : positive) (h : heap) (ops : list bop) : res heap :=
  match ops with
  | [] => Ok h
  | o :: r => match bstep a h o with
              | Ok h1 => bfold a h1 r
              | Err e => Err e | Panic n => Panic n | Fuel => Fuel
              end
  end.

(* TulispObject::nil(), then push / append onto it *)
Definition build (h : heap) (ops : list bop) : res (heap * positive) :=
  match bfold (hnext h) (fst (halloc h HNil)) ops with
  | Ok h' => Ok (h', hnext h)
  | Err e => Err e | Panic n => Panic n | Fuel => Fuel
  end.

Lemma bfold_fresh a n0 : forall ops h h', wfh h -> n0 <= hnext h -> FC h n0 a ->
  hget h a <> HNil \/ n0 <= a < hnext h ->
  bfold a h ops = Ok h' ->
  wfh h' /\ hnext h <= hnext h' /\ same_below n0 h h' /\ FC h' n0 a.
Proof.
  induction ops as [|o ops IH]; intros h h' W Hn Ha Hr H; simpl in H.
  - inversion H; subst. split; [exact W|]. split; [lia|]. split; [apply same_below_refl|exact Ha].
  - destruct (bstep a h o) as [h1|e|k|] eqn:E; try discriminate.
    assert (S1 : wfh h1 /\ hnext h <= hnext h1 /\ same_below n0 h h1 /\ FC h1 n0 a).
    { destruct o; simpl in E; [eapply push_fresh|eapply append_fresh]; eassumption. }
    destruct S1 as (W1 & N1 & B1 & F1).
    assert (Hr1 : hget h1 a <> HNil \/ n0 <= a < hnext h1).
    { destruct (hget h1 a) eqn:Ea; try (left; discriminate). right.
      pose proof (FC_nil _ _ _ Ea F1). lia. }
    destruct (IH h1 h' W1 ltac:(lia) F1 Hr1 H) as (W2 & N2 & B2 & F2).
    split; [exact W2|]. split; [lia|]. split; [|exact F2].
    intros c Hc. rewrite (B2 c Hc). apply B1. exact Hc.
Qed.

(* The result of a construction is a chain of cells that did not exist before,   *)
(* and no cell that existed before has been written.                             *)
Theorem build_fresh h ops h' a : wfh h -> build h ops = Ok (h', a) ->
  a = hnext h /\ wfh h' /\ same_below (hnext h) h h' /\ FC h' (hnext h) a /\ hnext h < hnext h'.
Proof.
  intros W H. unfold build in H.
  destruct (bfold (hnext h) (fst (halloc h HNil)) ops) as [hh|e|k|] eqn:E; try discriminate.
  inversion H; subst hh a. clear H.
  destruct (alloc_facts h HNil W) as (W0 & N0 & G0 & S0).
  destruct (bfold_fresh (hnext h) (hnext h) ops _ h' W0 ltac:(lia)) as (W1 & N1 & B1 & F1); try exact E.
  - intros f. destruct f; [exact I|]. simpl. rewrite G0. lia.
  - right. lia.
  - split; [reflexivity|]. split; [exact W1|]. split; [|split; [exact F1|lia]].
    intros c Hc. rewrite (B1 c Hc). apply S0. exact Hc.
Qed.

(* every object that existed before the construction reads the same afterwards: *)
(* the template, the lists spliced in, the arguments of the library function     *)
Corollary build_leaves_old_objects h ops h' a : wfh h -> build h ops = Ok (h', a) ->
  forall fuel x, below fuel h (hnext h) x = true -> abs fuel h' x = abs fuel h x.
Proof.
  intros W H fuel x Hx. destruct (build_fresh _ _ _ _ W H) as (_ & _ & S & _).
  eapply abs_same_below; eassumption.
Qed.

(* two constructions are independent: the second leaves the result of the first *)
(* (and everything else) as it was                                               *)
Corollary builds_independent h ops1 h1 a1 ops2 h2 a2 : wfh h ->
  build h ops1 = Ok (h1, a1) -> build h1 ops2 = Ok (h2, a2) ->
  a1 <> a2 /\ forall fuel x, below fuel h1 (hnext h1) x = true -> abs fuel h2 x = abs fuel h1 x.
Proof.
  intros W H1 H2. destruct (build_fresh _ _ _ _ W H1) as (E1 & W1 & _ & _ & L1).
  destruct (build_fresh _ _ _ _ W1 H2) as (E2 & _ & S2 & _). split; [lia|].
  intros fuel x Hx. eapply abs_same_below; eassumption.
Qed.
