(* C16: the line / column bookkeeping of the tokenizer.                      *)
From TL Require Import Base.Base Model.Reader.
From TL Require Import Proofs.ReaderTotal.
Local Open Scope N_scope.
Local Open Scope list_scope.

(* the position after consuming a sequence of characters *)
Fixpoint walk (cs : text) (line pos : N) : N * N :=
  match cs with
  | [] => (line, pos)
  | c :: r => let '(l, p) := advance c line pos in walk r l p
  end.

Fixpoint count_nl (cs : text) : N :=
  match cs with [] => 0 | c :: r => (if N.eqb c c_nl then 1 else 0) + count_nl r end.

(* the characters after the last newline *)
Fixpoint after_nl (cs : text) : text :=
  match cs with
  | [] => []
  | c :: r => if N.eqb (count_nl r) 0 then (if N.eqb c c_nl then r else c :: r) else after_nl r
  end.

Lemma walk_app a b line pos :
  walk (a ++ b) line pos = let '(l, p) := walk a line pos in walk b l p.
Proof.
  revert line pos. induction a as [|c a IH]; intros line pos; simpl; [reflexivity|].
  destruct (advance c line pos) as [l p]. apply IH.
Qed.

(* line = 1 + number of newlines consumed; column = 1 + number of characters  *)
(* consumed since the last newline (counted in characters, not bytes)          *)
Theorem walk_spec : forall cs line pos,
  walk cs line pos =
  (line + count_nl cs,
   if N.eqb (count_nl cs) 0 then pos + N.of_nat (List.length cs)
   else 1 + N.of_nat (List.length (after_nl cs))).
Proof.
  induction cs as [|c cs IH]; intros line pos.
  - simpl. f_equal; lia.
  - cbn [walk advance count_nl after_nl]. unfold advance.
    destruct (N.eqb c c_nl) eqn:Ec.
    + rewrite IH. destruct (N.eqb (count_nl cs) 0) eqn:E0.
      * apply N.eqb_eq in E0. rewrite E0. change (N.eqb (1 + 0) 0) with false. cbv iota.
        change (N.eqb 0 0) with true. cbv iota. f_equal; lia.
      * apply N.eqb_neq in E0.
        assert (N.eqb (1 + count_nl cs) 0 = false) as -> by (apply N.eqb_neq; lia).
        f_equal. lia.
    + rewrite IH. destruct (N.eqb (count_nl cs) 0) eqn:E0.
      * apply N.eqb_eq in E0. rewrite E0. change (N.eqb (0 + 0) 0) with true. cbv iota.
        cbn [List.length]. rewrite Nat2N.inj_succ. f_equal; lia.
      * apply N.eqb_neq in E0.
        assert (N.eqb (0 + count_nl cs) 0 = false) as -> by (apply N.eqb_neq; lia).
        f_equal.
Qed.

Corollary walk_from_start cs :
  fst (walk cs 1 1) = 1 + count_nl cs /\ 1 <= snd (walk cs 1 1).
Proof.
  rewrite walk_spec. cbn [fst snd]. split; [reflexivity|]. destruct (N.eqb (count_nl cs) 0); lia.
Qed.

(* an identifier / number token ends where walking its characters ends, and   *)
(* the scanned characters are exactly a prefix of the input                    *)
Lemma scan_ident_walk cs : forall line pos first i f acc out i' f' rest l p,
  scan_ident cs line pos first i f acc = (out, i', f', rest, l, p) ->
  exists consumed, cs = consumed ++ rest /\ out = rev acc ++ consumed /\
                   walk consumed line pos = (l, p) /\
                   forallb (fun c => negb (ident_stop c)) consumed = true.
Proof.
  induction cs as [|c r IH]; intros line pos first i f acc out i' f' rest l p H; simpl in H.
  - inversion H; subst. exists []. rewrite !app_nil_r. repeat split; reflexivity.
  - destruct (ident_stop c) eqn:Es.
    + inversion H; subst. exists []. rewrite !app_nil_r. repeat split; reflexivity.
    + destruct (advance c line pos) as [l1 p1] eqn:Ea.
      assert (G : forall a b d, scan_ident r l1 p1 a b d (c :: acc) = (out, i', f', rest, l, p) ->
        exists consumed, c :: r = consumed ++ rest /\ out = rev acc ++ consumed /\
                         walk consumed line pos = (l, p) /\
                         forallb (fun c0 => negb (ident_stop c0)) consumed = true).
      { intros a b d Hs. destruct (IH _ _ _ _ _ _ _ _ _ _ _ _ Hs) as (cons0 & E1 & E2 & E3 & E4).
        exists (c :: cons0). split; [rewrite E1; reflexivity|].
        split; [rewrite E2; simpl; rewrite <- app_assoc; reflexivity|].
        split; [simpl; rewrite Ea; exact E3|]. simpl. rewrite Es. exact E4. }
      repeat match type of H with context[if ?b then _ else _] => destruct b eqn:? end;
        eapply G; eauto.
Qed.
