(* C20: the object-level list operations refine a sequence model.  [lrep h i l]: *)
(* object i is a proper list whose elements are the objects l, in order.          *)
From TL Require Import Base.Base Model.Reader Model.Printer Model.Api.
From TL Require Import Proofs.Heap Proofs.Build.
Local Open Scope positive_scope.
Local Open Scope list_scope.
Local Opaque halloc.

Inductive lrep (h : heap) : positive -> list positive -> Prop :=
| lrep_nil i : hget h i = HNil -> i < hnext h -> lrep h i []
| lrep_cons i a d l : hget h i = HCons a d -> lrep h d l -> lrep h i (a :: l).

(* the representation is a function of the object *)
Lemma lrep_fun h i l1 : lrep h i l1 -> forall l2, lrep h i l2 -> l1 = l2.
Proof.
  induction 1 as [i E L|i a d l E _ IH]; intros l2 H2; inversion H2; subst; try congruence.
  assert (a = a0 /\ d = d0) as [-> ->] by (split; congruence). f_equal. apply IH. assumption.
Qed.

Lemma lrep_bound h i l : wfh h -> lrep h i l -> i < hnext h.
Proof. intros W H. destruct H; [assumption|]. apply wfh_nonnil; [exact W|congruence]. Qed.

(* a write to a cell that is not on the spine, and allocation, keep the list *)
Lemma lrep_frame h h' i l : lrep h i l -> wfh h -> hnext h <= hnext h' ->
  (forall c, c < hnext h -> hget h' c = hget h c) -> lrep h' i l.
Proof.
  intros H W N S. induction H as [i E L|i a d l E H IH].
  - apply lrep_nil; [rewrite (S i L); exact E|lia].
  - assert (Li : i < hnext h) by (apply wfh_nonnil; [exact W|congruence]).
    eapply lrep_cons; [rewrite (S i Li); exact E|exact IH].
Qed.

(* ---- cons, car, cdr ----------------------------------------------------------------- *)
Theorem cons_is_cons h a d l : wfh h -> lrep h d l ->
  lrep (fst (halloc h (HCons a d))) (hnext h) (a :: l).
Proof.
  intros W H. destruct (alloc_facts h (HCons a d) W) as (W1 & N1 & G1 & S1).
  eapply lrep_cons; [exact G1|]. apply (lrep_frame h); [exact H|exact W|lia|exact S1].
Qed.

Theorem car_cdr_of_cons h i a l : lrep h i (a :: l) ->
  h_car h i = Ok (h, a) /\ exists d, h_cdr h i = Ok (h, d) /\ lrep h d l.
Proof.
  intros H. inversion H; subst. unfold h_car, h_cdr.
  match goal with E : hget h i = HCons _ _ |- _ => rewrite E end. split; [reflexivity|eauto].
Qed.

(* ---- the spine has fewer cells than the heap ------------------------------------------ *)
Fixpoint spine_cells (h : heap) (i : positive) (n : nat) : list positive :=
  match n with
  | O => []
  | S n' => i :: match hget h i with HCons _ d => spine_cells h d n' | _ => [] end
  end.

Lemma lrep_cells h i l : wfh h -> lrep h i l ->
  let cs := spine_cells h i (List.length l) in
  List.length cs = List.length l /\ Forall (fun c => c < hnext h) cs /\
  (forall c, In c cs -> exists l', lrep h c l' /\ (0 < List.length l' <= List.length l)%nat) /\ NoDup cs.
Proof.
  intros W H. induction H as [i E L|i a d l E H IH]; simpl.
  - split; [reflexivity|]. split; [constructor|]. split; [intros c []|constructor].
  - rewrite E. destruct IH as (I1 & I2 & I3 & I4).
    assert (Li : i < hnext h) by (apply wfh_nonnil; [exact W|congruence]).
    split; [simpl; rewrite I1; reflexivity|]. split; [constructor; assumption|].
    split.
    + intros c [<-|Hc]; [exists (a :: l); split; [eapply lrep_cons; eassumption|simpl; lia]|].
      destruct (I3 c Hc) as (l' & R & B). exists l'. split; [exact R|simpl; lia].
    + constructor; [|exact I4]. intros Hin. destruct (I3 i Hin) as (l' & R & B).
      assert (l' = a :: l) by (eapply lrep_fun; [exact R|eapply lrep_cons; eassumption]).
      subst. simpl in B. lia.
Qed.

Lemma nodup_bounded (cs : list positive) n : NoDup cs -> Forall (fun c => c < n) cs ->
  (List.length cs < Pos.to_nat n)%nat.
Proof.
  intros ND B.
  assert (I : incl (map Pos.to_nat cs) (seq 1 (Pos.to_nat n - 1))).
  { intros x Hx. apply in_map_iff in Hx as (c & <- & Hc). rewrite Forall_forall in B. specialize (B c Hc).
    apply in_seq. lia. }
  assert (ND' : NoDup (map Pos.to_nat cs)).
  { clear -ND. induction ND; simpl; constructor; [|assumption].
    intros Hin. apply in_map_iff in Hin as (y & E & Hy). apply Pos2Nat.inj in E. subst. contradiction. }
  pose proof (NoDup_incl_length ND' I) as Hl. rewrite map_length, seq_length in Hl. lia.
Qed.

Lemma lrep_short h i l : wfh h -> lrep h i l -> (List.length l < Pos.to_nat (hnext h))%nat.
Proof.
  intros W H. destruct (lrep_cells h i l W H) as (L & B & _ & ND). rewrite <- L.
  apply nodup_bounded; assumption.
Qed.

(* ---- push appends one element at the end ------------------------------------------------ *)
(* the same with the terminating empty-list object named *)
Inductive lends (h : heap) : positive -> list positive -> positive -> Prop :=
| lends_nil i : hget h i = HNil -> i < hnext h -> lends h i [] i
| lends_cons i a d l last : hget h i = HCons a d -> lends h d l last -> lends h i (a :: l) last.

Lemma lends_lrep h i l last : lends h i l last -> lrep h i l.
Proof. induction 1; [apply lrep_nil|eapply lrep_cons]; eassumption. Qed.
Lemma lrep_lends h i l : lrep h i l -> exists last, lends h i l last.
Proof.
  induction 1 as [i E L|i a d l E _ [last IH]]; [exists i; apply lends_nil; assumption|].
  exists last. eapply lends_cons; eassumption.
Qed.
Lemma lends_last h i l last : lends h i l last -> hget h last = HNil /\ last < hnext h.
Proof. induction 1; auto. Qed.

Lemma walk_last_lends : forall f h d l last prev, lends h d l last -> (List.length l < f)%nat ->
  exists lbo, walk_last f h d prev = Ok (last, lbo).
Proof.
  induction f as [|f IH]; intros h d l last prev H Hf; [lia|].
  destruct H as [i E L|i a d' l last E H].
  - exists prev. simpl. rewrite E. reflexivity.
  - simpl. rewrite E. apply (IH h d' l last (Some i) H). simpl in Hf. lia.
Qed.

(* replacing the terminating empty-list object by (v . new empty list) appends v *)
Lemma lrep_graft h h' n v i l last : lends h i l last -> wfh h ->
  hget h' last = HCons v n -> hget h' n = HNil -> n < hnext h' -> hnext h <= n ->
  (forall c, c < hnext h -> c <> last -> hget h' c = hget h c) ->
  lrep h' i (l ++ [v]).
Proof.
  intros H W Gl Gn Nn Hn S. induction H as [i E L|i a d l last E H IH].
  - simpl. eapply lrep_cons; [exact Gl|]. apply lrep_nil; assumption.
  - destruct (lends_last _ _ _ _ H) as [El _].
    assert (Li : i < hnext h) by (apply wfh_nonnil; [exact W|congruence]).
    assert (Ne : i <> last) by (intros ->; congruence).
    simpl. eapply lrep_cons; [rewrite (S i Li Ne); exact E|]. apply IH; assumption.
Qed.

Theorem push_appends h a v l h' : wfh h -> lrep h a l -> h_push h a v = Ok h' ->
  lrep h' a (l ++ [v]) /\ wfh h'.
Proof.
  intros W H Hp. destruct (lrep_lends _ _ _ H) as [last HL].
  pose proof (lrep_short _ _ _ W H) as Hs.
  destruct (alloc_facts h HNil W) as (W1 & N1 & G1 & S1).
  assert (fin : forall lst, hget h lst = HNil -> lst < hnext h -> lends h a l lst ->
            let hh := hset (fst (halloc h HNil)) lst (HCons v (hnext h)) in
            lrep hh a (l ++ [v]) /\ wfh hh).
  { intros lst El Ll HLl hh. split.
    - apply (lrep_graft h hh (hnext h) v a l lst HLl W).
      + unfold hh. rewrite hget_hset, Pos.eqb_refl. reflexivity.
      + unfold hh. rewrite hget_hset. assert (Pos.eqb (hnext h) lst = false) as -> by (apply Pos.eqb_neq; lia). exact G1.
      + unfold hh. rewrite hnext_hset, N1. lia.
      + lia.
      + intros c Hc Hne. unfold hh. rewrite hget_hset.
        assert (Pos.eqb c lst = false) as -> by (apply Pos.eqb_neq; exact Hne). apply S1. exact Hc.
    - unfold hh. apply wfh_set; [exact W1|rewrite N1; lia]. }
  unfold h_push in Hp. inversion HL as [i E L|i a0 d l0 lst E HLd]; subst.
  - rewrite E in Hp. rewrite halloc_eq in Hp. inversion Hp; subst h'. apply fin; assumption.
  - rewrite E in Hp.
    destruct (walk_last_lends (hsize h) h d l0 last None HLd) as [lbo Ew].
    { unfold hsize. simpl in Hs. lia. }
    rewrite Ew in Hp. destruct (lends_last _ _ _ _ HLd) as [El Ll].
    unfold h_null in Hp. rewrite El in Hp. rewrite halloc_eq in Hp. inversion Hp; subst h'.
    apply fin; assumption.
Qed.

(* ---- deep copy: a new spine, the same elements (cons elements get a new head cell) ------- *)
(* x' is x, or a new cell with the contents of the cons cell x *)
Definition ecopy (h' : heap) (x x' : positive) : Prop :=
  x' = x \/ exists p q, hget h' x = HCons p q /\ hget h' x' = HCons p q.

(* a write below m does not disturb a list whose spine was allocated at or after m *)
Lemma lrep_fresh_frame h m w val : forall i l, lrep h i l -> FC h m i -> w < m -> lrep (hset h w val) i l.
Proof.
  intros i l H. induction H as [i E L|i a d l E H IH]; intros F Hw.
  - pose proof (FC_nil _ _ _ E F) as B. apply lrep_nil; [rewrite hget_hset|rewrite hnext_hset; exact L].
    assert (Pos.eqb i w = false) as -> by (apply Pos.eqb_neq; lia). exact E.
  - destruct (FC_cons _ _ _ _ _ E F) as [B Fd].
    eapply lrep_cons; [|apply IH; assumption]. rewrite hget_hset.
    assert (Pos.eqb i w = false) as -> by (apply Pos.eqb_neq; lia). exact E.
Qed.

Lemma ecopy_frame h2 h3 l l' : wfh h2 -> (forall c, c < hnext h2 -> hget h3 c = hget h2 c) ->
  Forall2 (ecopy h2) l l' -> Forall2 (ecopy h3) l l'.
Proof.
  intros W2 S3 F. induction F as [|x x' lx lx' Hx _ IHF]; constructor; [|exact IHF].
  destruct Hx as [->|(p & q & E1 & E2)]; [left; reflexivity|]. right. exists p, q.
  assert (Lx : x < hnext h2) by (apply wfh_nonnil; [exact W2|congruence]).
  assert (Lx' : x' < hnext h2) by (apply wfh_nonnil; [exact W2|congruence]).
  rewrite !S3 by assumption. auto.
Qed.

Lemma copy_spine_seq : forall fuel h i l h' r,
  lrep h i l -> l <> [] -> (List.length l < fuel)%nat -> wfh h ->
  copy_spine fuel h i = Ok (h', r) ->
  exists l', lrep h' r l' /\ Forall2 (ecopy h') l l' /\ hnext h <= r.
Proof.
  induction fuel as [|fuel IH]; intros h i l h' r H Hne Hf W Hc; [lia|].
  destruct H as [i E L|i a d l E H]; [congruence|]. clear Hne.
  cbn [copy_spine] in Hc. rewrite E in Hc.
  set (p1 := match hget h a with HCons x y => halloc h (HCons x y) | _ => (h, a) end) in *.
  (* the element: shared, or a new head cell *)
  assert (P1 : wfh (fst p1) /\ hnext h <= hnext (fst p1) /\ (forall c, c < hnext h -> hget (fst p1) c = hget h c) /\
               (snd p1 = a \/ exists p q, hget h a = HCons p q /\ hget (fst p1) (snd p1) = HCons p q /\ a < hnext h)).
  { unfold p1. destruct (hget h a) as [| | | | | |x y] eqn:Ea;
      try (cbn [fst snd]; split; [exact W|split; [lia|split; [reflexivity|left; reflexivity]]]).
    destruct (alloc_facts h (HCons x y) W) as (W1 & N1 & G1 & S1). rewrite halloc_eq. cbn [fst snd].
    split; [exact W1|]. split; [rewrite N1; lia|]. split; [exact S1|]. right. exists x, y.
    split; [reflexivity|]. split; [exact G1|]. apply wfh_nonnil; [exact W|congruence]. }
  destruct p1 as [h1 a'] eqn:Ep. cbn [fst snd] in P1. destruct P1 as (W1 & N1 & S1 & Ha).
  assert (Ld : d < hnext h) by (eapply lrep_bound; eassumption).
  assert (Hd1 : lrep h1 d l) by (apply (lrep_frame h); assumption).
  (* what the element relation looks like in a later heap *)
  assert (EC : forall hz, (forall c, c < hnext h1 -> hget hz c = hget h1 c) -> ecopy hz a a').
  { intros hz Sz. destruct Ha as [->|(p & q & Ea & Ga & La)]; [left; reflexivity|].
    right. exists p, q. split.
    - rewrite Sz by lia. rewrite S1 by exact La. exact Ea.
    - destruct (Pos.ltb_spec a' (hnext h1)) as [L1|L1]; [rewrite Sz by exact L1; exact Ga|].
      exfalso. assert (hget h1 a' <> HNil) by congruence. pose proof (wfh_nonnil _ _ W1 H0). lia. }
  destruct Hd1 as [d E1 L1|d a2 d2 l2 E1 H2].
  - (* the last cell: a new empty list, then the cons *)
    rewrite E1 in Hc. rewrite halloc_eq in Hc. set (h2 := fst (halloc h1 HNil)) in *.
    rewrite halloc_eq in Hc. inversion Hc; subst h' r. clear Hc.
    destruct (alloc_facts h1 HNil W1) as (W2 & N2 & G2 & S2). fold h2 in W2, N2, G2, S2.
    destruct (alloc_facts h2 (HCons a' (hnext h1)) W2) as (W3 & N3 & G3 & S3).
    fold h2. exists [a']. split; [|split].
    + eapply lrep_cons; [exact G3|]. apply lrep_nil; [rewrite S3 by lia; exact G2|lia].
    + constructor; [|constructor]. apply EC. intros c Hc. rewrite S3 by lia. apply S2. exact Hc.
    + rewrite N2. lia.
  - rewrite E1 in Hc.
    destruct (copy_spine fuel h1 d) as [[h2 d']|e|k|] eqn:Ec; try discriminate.
    assert (Hd1 : lrep h1 d (a2 :: l2)) by (eapply lrep_cons; eassumption).
    destruct (IH h1 d (a2 :: l2) h2 d' Hd1 ltac:(discriminate) ltac:(simpl in *; lia) W1 Ec) as (l' & R' & F' & B').
    destruct (copy_spine_fresh _ _ _ _ _ (hnext h1) Ec ltac:(lia)) as [S2 N2].
    destruct (copy_spine_chain _ _ _ _ _ (hnext h1) Ec W1 ltac:(lia) ltac:(eauto)) as (W2 & _ & _).
    rewrite halloc_eq in Hc. inversion Hc; subst h' r. clear Hc.
    destruct (alloc_facts h2 (HCons a' d') W2) as (W3 & N3 & G3 & S3).
    exists (a' :: l'). split; [|split; [|lia]].
    + eapply lrep_cons; [exact G3|]. apply (lrep_frame h2); [exact R'|exact W2|lia|exact S3].
    + constructor.
      * apply EC. intros c Hc. rewrite S3 by lia. apply S2. exact Hc.
      * eapply ecopy_frame; [exact W2|exact S3|exact F'].
Qed.

Lemma deep_copy_seq h v l2 h1 c : wfh h -> lrep h v l2 -> h_deep_copy h v = Ok (h1, c) ->
  exists l2', lrep h1 c l2' /\ Forall2 (ecopy h1) l2 l2' /\ hnext h <= c.
Proof.
  intros W H Hc. unfold h_deep_copy in Hc. destruct H as [v E L|v a d l E H].
  - rewrite E in Hc. assert (E' : halloc h HNil = (h1, c)) by congruence.
    rewrite halloc_eq in E'. injection E' as <- <-.
    destruct (alloc_facts h HNil W) as (W1 & N1 & G1 & S1).
    exists []. split; [apply lrep_nil; [exact G1|lia]|]. split; [constructor|lia].
  - rewrite E in Hc. assert (Hv : lrep h v (a :: l)) by (eapply lrep_cons; eassumption).
    pose proof (lrep_short _ _ _ W Hv) as Hs.
    eapply copy_spine_seq; [exact Hv|discriminate| |exact W|exact Hc]. unfold hsize. lia.
Qed.

(* the last cons cell of a non-empty list *)
Inductive lpen (h : heap) : positive -> list positive -> positive -> Prop :=
| lpen_one i a d : hget h i = HCons a d -> hget h d = HNil -> d < hnext h -> lpen h i [a] i
| lpen_cons i a d l w : hget h i = HCons a d -> lpen h d l w -> lpen h i (a :: l) w.

Lemma lrep_lpen h i l : lrep h i l -> l <> [] -> exists w, lpen h i l w.
Proof.
  induction 1 as [i E L|i a d l E H IH]; intros Hne; [congruence|].
  destruct H as [d Ed Ld|d a2 d2 l2 Ed H2].
  - exists i. eapply lpen_one; eassumption.
  - destruct IH as [w Hw]; [discriminate|]. exists w. eapply lpen_cons; eassumption.
Qed.

Lemma walk_last_lpen : forall f h d l w prev, lpen h d l w -> (List.length l < f)%nat ->
  exists last x, walk_last f h d prev = Ok (last, Some w) /\ hget h w = HCons x last /\ hget h last = HNil.
Proof.
  induction f as [|f IH]; intros h d l w prev H Hf; [lia|].
  destruct H as [i a d' E Ed Ld|i a d' l w E H].
  - simpl in Hf. destruct f; [lia|]. exists d', a. simpl. rewrite E, Ed. auto.
  - simpl. rewrite E. apply (IH h d' l w (Some i) H). simpl in Hf. lia.
Qed.

(* the cdr of the last cons cell is redirected to another list: concatenation *)
Lemma lrep_rewire h h' i l w x last c l2 : lpen h i l w -> wfh h ->
  hget h w = HCons x last -> hget h last = HNil ->
  hget h' w = HCons x c -> lrep h' c l2 ->
  (forall c0, c0 < hnext h -> c0 <> w -> hget h' c0 = hget h c0) ->
  lrep h' i (l ++ l2).
Proof.
  intros H W Ew El Gw Rc S. induction H as [i a d E Ed Ld|i a d l w E H IH].
  - assert (a = x) by congruence. subst. simpl. eapply lrep_cons; eassumption.
  - assert (Li : i < hnext h) by (apply wfh_nonnil; [exact W|congruence]).
    assert (Ne : i <> w).
    { intros ->. assert (d = last) by congruence. subst. inversion H; congruence. }
    simpl. eapply lrep_cons; [rewrite (S i Li Ne); exact E|]. apply IH; assumption.
Qed.

(* a write to a cell that holds no cons keeps the element relation *)
Lemma ecopy_set h w val l l' : (forall p q, hget h w <> HCons p q) ->
  Forall2 (ecopy h) l l' -> Forall2 (ecopy (hset h w val)) l l'.
Proof.
  intros Hw F. induction F as [|x x' lx lx' Hx _ IHF]; constructor; [|exact IHF].
  destruct Hx as [->|(p & q & E1 & E2)]; [left; reflexivity|]. right. exists p, q.
  rewrite !hget_hset.
  assert (Pos.eqb x w = false) as -> by (apply Pos.eqb_neq; intros ->; eapply Hw; eassumption).
  assert (Pos.eqb x' w = false) as -> by (apply Pos.eqb_neq; intros ->; eapply Hw; eassumption).
  auto.
Qed.

(* ---- append concatenates --------------------------------------------------------------- *)
(* The destination becomes its elements followed by the elements of the argument (cons     *)
(* elements as new head cells with the contents they had when the argument was copied,       *)
(* heap h1).                                                                                 *)
Theorem append_concatenates h a v l1 l2 h' : wfh h -> lrep h a l1 -> lrep h v l2 ->
  h_append h a v = Ok h' ->
  exists h1 l2', same_below (hnext h) h h1 /\ Forall2 (ecopy h1) l2 l2' /\
                 lrep h' a (l1 ++ l2') /\ wfh h'.
Proof.
  intros W Ha Hv Hp. unfold h_append in Hp.
  pose proof (lrep_bound _ _ _ W Ha) as La.
  destruct Ha as [a Ea _|a car0 d l Ea Hd].
  - (* appending to the empty list *)
    rewrite Ea in Hp. destruct (h_null h v) eqn:Env.
    + inversion Hp; subst h'. exists h, []. unfold h_null in Env.
      destruct Hv as [v Ev Lv|v x y l Ev Hv]; [|rewrite Ev in Env; discriminate].
      split; [apply same_below_refl|]. split; [constructor|]. split; [apply lrep_nil; assumption|exact W].
    + destruct (h_deep_copy h v) as [[h1 c]|e|k|] eqn:Ec; try discriminate.
      destruct (deep_copy_seq _ _ _ _ _ W Hv Ec) as (l2' & Rc & F2 & Bc).
      destruct (deep_copy_chain _ _ _ _ Ec W) as (W1 & N1 & S1 & F1).
      assert (Ea1 : hget h1 a = HNil) by (rewrite (S1 a La); exact Ea).
      exists h1, l2'. split; [exact S1|]. split; [exact F2|]. simpl.
      destruct Rc as [c Ecn Lc|c x y lr Ecc Ry].
      * (* the argument is not a list object with elements: it was the empty list, excluded by h_null *)
        exfalso. inversion F2; subst. unfold h_null in Env. inversion Hv as [v0 Ev Lv|]; subst. rewrite Ev in Env. discriminate.
      * rewrite Ecc in Hp. inversion Hp; subst h'. split.
        -- eapply lrep_cons; [rewrite hget_hset, Pos.eqb_refl; reflexivity|].
           destruct (FC_cons _ _ _ _ _ Ecc F1) as [_ Fy]. apply (lrep_fresh_frame h1 (hnext h)); [exact Ry|exact Fy|exact La].
        -- apply wfh_set; [exact W1|lia].
  - rewrite Ea in Hp.
    assert (Hs : (List.length l < Pos.to_nat (hnext h))%nat) by (eapply lrep_short; eassumption).
    destruct l as [|b lt].
    + (* one element: the cdr of the head cell is the terminator *)
      inversion Hd as [d0 Ed Ld|]; subst.
      assert (Ew : walk_last (hsize h) h d None = Ok (d, None)) by (unfold hsize; simpl; rewrite Ed; reflexivity).
      rewrite Ew in Hp. unfold h_null in Hp. rewrite Ed in Hp.
      destruct (h_deep_copy h v) as [[h1 c]|e|k|] eqn:Ec; try discriminate.
      destruct (deep_copy_seq _ _ _ _ _ W Hv Ec) as (l2' & Rc & F2 & Bc).
      destruct (deep_copy_chain _ _ _ _ Ec W) as (W1 & N1 & S1 & F1).
      inversion Hp; subst h'. exists h1, l2'. split; [exact S1|]. split; [exact F2|]. split.
      * simpl. eapply lrep_cons; [rewrite hget_hset, Pos.eqb_refl; reflexivity|].
        apply (lrep_fresh_frame h1 (hnext h)); [exact Rc|exact F1|exact La].
      * apply wfh_set; [exact W1|lia].
    + destruct (lrep_lpen _ _ _ Hd ltac:(discriminate)) as [w Hw].
      destruct (walk_last_lpen (hsize h) h d (b :: lt) w None Hw ltac:(unfold hsize; lia)) as (last & x & Ew & Ewc & El).
      rewrite Ew in Hp. unfold h_null in Hp. rewrite El in Hp.
      destruct (h_deep_copy h v) as [[h1 c]|e|k|] eqn:Ec; try discriminate.
      destruct (deep_copy_seq _ _ _ _ _ W Hv Ec) as (l2' & Rc & F2 & Bc).
      destruct (deep_copy_chain _ _ _ _ Ec W) as (W1 & N1 & S1 & F1).
      assert (Lw : w < hnext h) by (apply wfh_nonnil; [exact W|congruence]).
      rewrite (S1 w Lw), Ewc in Hp. inversion Hp; subst h'.
      exists h1, l2'. split; [exact S1|]. split; [exact F2|]. split.
      * change ((car0 :: b :: lt) ++ l2') with (car0 :: ((b :: lt) ++ l2')).
        assert (Na : a <> w).
        { intros ->. assert (d = last) by congruence. subst. inversion Hw; congruence. }
        eapply lrep_cons.
        -- rewrite hget_hset. assert (Pos.eqb a w = false) as -> by (apply Pos.eqb_neq; exact Na).
           rewrite (S1 a La). exact Ea.
        -- apply (lrep_rewire h (hset h1 w (HCons x c)) d (b :: lt) w x last c l2' Hw W Ewc El).
           ++ rewrite hget_hset, Pos.eqb_refl. reflexivity.
           ++ apply (lrep_fresh_frame h1 (hnext h)); [exact Rc|exact F1|exact Lw].
           ++ intros c0 Hc0 Hne. rewrite hget_hset.
              assert (Pos.eqb c0 w = false) as -> by (apply Pos.eqb_neq; exact Hne). apply S1. exact Hc0.
      * apply wfh_set; [exact W1|lia].
Qed.

(* ---- a list built by pushes is the list of the pushed objects ---------------------------- *)
Lemma bfold_pushes a : forall vs h l h', wfh h -> lrep h a l ->
  bfold a h (map BPush vs) = Ok h' -> lrep h' a (l ++ vs) /\ wfh h'.
Proof.
  induction vs as [|v vs IH]; intros h l h' W H Hb; simpl in Hb.
  - inversion Hb; subst. rewrite app_nil_r. auto.
  - destruct (h_push h a v) as [h1|e|k|] eqn:Ep; try discriminate.
    destruct (push_appends _ _ _ _ _ W H Ep) as [H1 W1].
    destruct (IH h1 (l ++ [v]) h' W1 H1 Hb) as [H2 W2]. rewrite <- app_assoc in H2. auto.
Qed.

(* ctx.map / ctx.filter / eval_each / list: a new empty list, one push per result *)
Theorem build_pushes h vs h' a : wfh h -> build h (map BPush vs) = Ok (h', a) -> lrep h' a vs.
Proof.
  intros W H. unfold build in H.
  destruct (bfold (hnext h) (fst (halloc h HNil)) (map BPush vs)) as [hh|e|k|] eqn:E; try discriminate.
  inversion H; subst hh a. destruct (alloc_facts h HNil W) as (W0 & N0 & G0 & S0).
  destruct (bfold_pushes (hnext h) vs _ [] h' W0 (lrep_nil _ _ G0 ltac:(lia)) E) as [R _]. exact R.
Qed.
