(* C02: argument evaluation and parameter binding of Model/Eval.v.          *)
From TL Require Import Base.Base Model.Reader Model.Printer Model.Store Model.Eval.
Local Open Scope nat_scope.
Local Open Scope list_scope.

(* what the parameter list does with the already evaluated values *)
Fixpoint zip_pure (ps : list param) (vs : list sx) : res (list sx) :=
  match ps with
  | [] => Ok []
  | p :: ps' =>
      let cons_ok v r := match r with Ok l => Ok (v :: l) | e => e end in
      if p_opt p then
        match vs with
        | v :: vs' => cons_ok v (zip_pure ps' vs')
        | [] => cons_ok Nil (zip_pure ps' [])
        end
      else if p_rest p then cons_ok (of_list vs Nil) (zip_pure ps' [])
      else match vs with
           | v :: vs' => cons_ok v (zip_pure ps' vs')
           | [] => Err EType
           end
  end.

(* how many of n supplied arguments the parameter list consumes *)
Fixpoint n_used (ps : list param) (n : nat) : nat :=
  match ps with
  | [] => 0
  | p :: ps' =>
      if p_opt p then match n with S n' => S (n_used ps' n') | O => 0 end
      else if p_rest p then n
      else match n with S n' => S (n_used ps' n') | O => 0 end
  end.

Lemma n_used_le ps : forall n, n_used ps n <= n.
Proof.
  induction ps as [|p ps IH]; intros n; simpl; [lia|].
  destruct (p_opt p); [destruct n; [lia|specialize (IH n); lia]|].
  destruct (p_rest p); [lia|]. destruct n; [lia|specialize (IH n); lia].
Qed.

Section Calls.
Variable rec : task -> M sx.

(* the factored form: evaluate the consumed arguments, once each, left to  *)
(* right, in the state of the caller; then a pure distribution over the      *)
(* parameters.  No binding is made in between.                               *)
Definition zip_factored (ps : list param) (args : list sx) : M (list sx * list sx) :=
  fun s =>
    let k := n_used ps (List.length args) in
    match eval_each rec (firstn k args) s with
    | (Ok vs, s') => match zip_pure ps vs with
                     | Ok bound => (Ok (bound, skipn k args), s')
                     | Err e => (Err e, s') | Panic n => (Panic n, s') | Fuel => (Fuel, s')
                     end
    | (Err e, s') => (Err e, s') | (Panic n, s') => (Panic n, s') | (Fuel, s') => (Fuel, s')
    end.

Lemma eval_each_nil s : eval_each rec [] s = (Ok [], s).
Proof. reflexivity. Qed.

Lemma zip_args_nil_pure : forall ps s,
  zip_args rec true ps [] s =
  match zip_pure ps [] with
  | Ok b => (Ok (b, []), s) | Err e => (Err e, s) | Panic n => (Panic n, s) | Fuel => (Fuel, s) end.
Proof.
  induction ps as [|p ps IH]; intros s; simpl; [reflexivity|].
  destruct (p_opt p).
  - unfold bind. rewrite IH. destruct (zip_pure ps []); reflexivity.
  - destruct (p_rest p); [|reflexivity].
    unfold bind. simpl. unfold ret. rewrite IH. destruct (zip_pure ps []); reflexivity.
Qed.

Theorem zip_args_factors : forall ps args s,
  zip_args rec true ps args s = zip_factored ps args s.
Proof.
  induction ps as [|p ps IH]; intros args s.
  - unfold zip_factored. simpl. reflexivity.
  - unfold zip_factored. cbn [zip_args n_used zip_pure].
    destruct (p_opt p).
    + destruct args as [|a args].
      * simpl. unfold bind. rewrite zip_args_nil_pure. destruct (zip_pure ps []); reflexivity.
      * cbn [List.length firstn skipn eval_each]. unfold bind.
        destruct (ev rec a s) as [[v|e|n|] s1]; try reflexivity.
        rewrite IH. unfold zip_factored.
        destruct (eval_each rec (firstn (n_used ps (List.length args)) args) s1) as [[vs|e|n|] s2];
          try reflexivity.
        unfold ret. destruct (zip_pure ps vs); reflexivity.
    + destruct (p_rest p).
      * rewrite firstn_all, skipn_all. unfold bind.
        destruct (eval_each rec args s) as [[vs|e|n|] s1]; try reflexivity.
        rewrite zip_args_nil_pure. destruct (zip_pure ps []); reflexivity.
      * destruct args as [|a args]; [reflexivity|].
        cbn [List.length firstn skipn eval_each]. unfold bind.
        destruct (ev rec a s) as [[v|e|n|] s1]; try reflexivity.
        rewrite IH. unfold zip_factored.
        destruct (eval_each rec (firstn (n_used ps (List.length args)) args) s1) as [[vs|e|n|] s2];
          try reflexivity.
        unfold ret. destruct (zip_pure ps vs); reflexivity.
Qed.

(* values handed over by funcall / mapcar / sort ... are never evaluated:  *)
(* with evalp = false the result does not depend on the interpreter at all  *)
Theorem zip_args_values_untouched : forall ps vs s,
  zip_args rec false ps vs s =
  match zip_pure ps (firstn (n_used ps (List.length vs)) vs) with
  | Ok b => (Ok (b, skipn (n_used ps (List.length vs)) vs), s)
  | Err e => (Err e, s) | Panic n => (Panic n, s) | Fuel => (Fuel, s)
  end.
Proof.
  induction ps as [|p ps IH]; intros vs s; [reflexivity|].
  cbn [zip_args n_used zip_pure]. destruct (p_opt p).
  - destruct vs as [|v vs].
    + simpl. unfold bind. rewrite (IH [] s). rewrite firstn_nil, skipn_nil. destruct (zip_pure ps []); reflexivity.
    + cbn [List.length firstn skipn]. unfold bind, ret. rewrite IH.
      destruct (zip_pure ps _); reflexivity.
  - destruct (p_rest p).
    + rewrite firstn_all, skipn_all. unfold bind, ret. rewrite (IH [] s).
      rewrite firstn_nil, skipn_nil. destruct (zip_pure ps []); reflexivity.
    + destruct vs as [|v vs]; [reflexivity|].
      cbn [List.length firstn skipn]. unfold bind, ret. rewrite IH.
      destruct (zip_pure ps _); reflexivity.
Qed.

(* too many arguments: an error, raised after the arguments and without the body *)
Theorem too_many_args_no_body e psx body args s pl vs x rest s1 :
  parse_params psx = Ok pl -> zip_args rec e pl (items args) s = (Ok (vs, x :: rest), s1) ->
  eval_function rec e psx body args s = (Err EType, s1).
Proof.
  intros Hp Hz. unfold eval_function, bind, lift. rewrite Hp, Hz. reflexivity.
Qed.

(* too few arguments (or any failing argument): the body is not run either *)
Theorem failed_args_no_body e psx body args s pl r s1 :
  parse_params psx = Ok pl -> zip_args rec e pl (items args) s = (r, s1) ->
  (forall x, r <> Ok x) ->
  exists r', eval_function rec e psx body args s = (r', s1) /\ (forall x, r' <> Ok x) /\
             forall body2, eval_function rec e psx body2 args s = (r', s1).
Proof.
  intros Hp Hz Hr. unfold eval_function, bind, lift. rewrite Hp, Hz.
  destruct r as [x|e0|n|]; [exfalso; eapply Hr; reflexivity| | |];
    eexists; (split; [reflexivity|split; [discriminate|reflexivity]]).
Qed.

(* the body sees exactly the distributed values: parameters bound after all *)
(* arguments were evaluated                                                  *)
Theorem call_factors e psx body args s pl :
  parse_params psx = Ok pl ->
  eval_function rec e psx body args s =
  match zip_args rec e pl (items args) s with
  | (Ok (vs, []), s1) =>
      bind (bind_all (map p_sym pl) vs [])
           (fun _ => catch (eval_progn rec body)
                           (fun r => bind (unbind_all (map p_sym pl)) (fun _ => lift r))) s1
  | (Ok (_, _ :: _), s1) => (Err EType, s1)
  | (Err e0, s1) => (Err e0, s1) | (Panic n, s1) => (Panic n, s1) | (Fuel, s1) => (Fuel, s1)
  end.
Proof.
  intros Hp. unfold eval_function. unfold bind at 1. unfold lift. rewrite Hp.
  unfold bind at 1. destruct (zip_args rec e pl (items args) s) as [[[vs rest]|e0|n|] s1];
    try reflexivity.
  destruct rest; reflexivity.
Qed.

End Calls.

(* built-ins called by funcall / mapcar / sort get their values quoted: the *)
(* interpreter gives the value back without evaluating it                    *)
Theorem quote_arg_roundtrip F f v s : run F (S f) (TEval (quote_arg v)) s = (Ok v, s).
Proof. destruct v; reflexivity. Qed.

Theorem eval_each_quoted F f : forall vs s,
  eval_each (run F (S f)) (map quote_arg vs) s = (Ok vs, s).
Proof.
  induction vs as [|v vs IH]; intros s; [reflexivity|].
  cbn [map eval_each]. unfold bind, ev. rewrite quote_arg_roundtrip, IH. reflexivity.
Qed.
