(* Decimal printing of integers (Model/Printer.v) is inverted by the        *)
(* reader's digit conversion (Model/Reader.v): used by C09 and C15.          *)
From TL Require Import Base.Base Model.Reader Model.Printer.
Local Open Scope N_scope.
Local Open Scope list_scope.
Ltac Zify.zify_post_hook ::= Z.div_mod_to_equations.

Lemma digits_val_app : forall x y a, digits_val (x ++ y) a = digits_val y (digits_val x a).
Proof. induction x as [|c x IH]; intros y a; simpl; [reflexivity|apply IH]. Qed.

Definition all_digits (l : text) : Prop := Forall (fun c => is_digit c = true) l.

Lemma digit_char n : is_digit (c_0 + n mod 10) = true.
Proof.
  assert (Hm : n mod 10 < 10) by (apply N.mod_lt; discriminate).
  set (m := n mod 10) in *. clearbody m.
  unfold is_digit, c_0, c_9. apply andb_true_iff. split; apply N.leb_le; lia.
Qed.

Lemma c0_cancel m : c_0 + m - c_0 = m.
Proof. unfold c_0. lia. Qed.

Lemma pos_digits_spec : forall fuel n acc, (0 < fuel)%nat -> n < 10 ^ N.of_nat fuel ->
  exists D, pos_digits fuel n acc = D ++ acc /\ D <> [] /\ all_digits D /\
            digits_val D 0 = Z.of_N n /\
            (n <> 0 -> List.hd c_0 D <> c_0).
Proof.
  induction fuel as [|fuel IH]; intros n acc Hf Hn; [lia|].
  cbn [pos_digits]. destruct (N.eqb (n / 10) 0) eqn:Eq.
  - apply N.eqb_eq in Eq. exists [c_0 + n mod 10]. split; [reflexivity|].
    split; [discriminate|]. split; [constructor; [apply digit_char|constructor]|].
    split.
    + assert (Hs : n mod 10 = n) by (apply N.mod_small; apply N.div_small_iff in Eq; lia).
      rewrite Hs. cbn [digits_val]. rewrite c0_cancel. lia.
    + intros Hz.
      assert (Hs : n mod 10 = n) by (apply N.mod_small; apply N.div_small_iff in Eq; lia).
      rewrite Hs. cbn [List.hd]. unfold c_0. lia.
  - apply N.eqb_neq in Eq.
    assert (Hq : n / 10 < 10 ^ N.of_nat fuel).
    { replace (N.of_nat (S fuel)) with (N.succ (N.of_nat fuel)) in Hn by lia.
      rewrite N.pow_succ_r' in Hn. apply N.div_lt_upper_bound; lia. }
    assert (Hf' : (0 < fuel)%nat).
    { destruct fuel; [|lia]. simpl in Hq. lia. }
    destruct (IH (n / 10) ((c_0 + n mod 10) :: acc) Hf' Hq) as (D & E & Hne & Hd & Hv & Hh).
    exists (D ++ [c_0 + n mod 10]). split; [rewrite E, <- app_assoc; reflexivity|].
    split; [destruct D; discriminate|].
    split; [apply Forall_app; split; [assumption|constructor; [apply digit_char|constructor]]|].
    split.
    + rewrite digits_val_app, Hv. cbn [digits_val].
      rewrite c0_cancel.
      pose proof (N.div_mod n 10 ltac:(discriminate)) as Hdm.
      set (q := n / 10) in *. set (m := n mod 10) in *. clearbody q m. lia.
    + intros _. destruct D as [|d D]; [congruence|]. simpl. apply Hh. assumption.
Qed.

Lemma log2_bound n : n < 10 ^ N.of_nat (S (N.to_nat (N.log2 n))).
Proof.
  destruct (N.eq_dec n 0) as [->|Hn]; [simpl; lia|].
  assert (n < 2 ^ N.succ (N.log2 n)) by (apply N.log2_spec; lia).
  replace (N.of_nat (S (N.to_nat (N.log2 n)))) with (N.succ (N.log2 n)) by lia.
  eapply N.lt_le_trans; [eassumption|]. apply N.pow_le_mono_l. lia.
Qed.

Lemma print_N_spec n :
  print_N n <> [] /\ all_digits (print_N n) /\ digits_val (print_N n) 0 = Z.of_N n /\
  (n <> 0 -> List.hd c_0 (print_N n) <> c_0).
Proof.
  unfold print_N.
  destruct (pos_digits_spec (S (N.to_nat (N.log2 n))) n [] ltac:(lia) (log2_bound n))
    as (D & E & Hne & Hd & Hv & Hh).
  rewrite E, app_nil_r. auto.
Qed.

Lemma minus_not_digit : is_digit c_minus = false. Proof. reflexivity. Qed.

(* str::parse::<i64> of the printed integer gives the integer back *)
Theorem parse_print_Z z : in_i64 z = true -> parse_i64 (print_Z z) = Some z.
Proof.
  intros Hz. unfold parse_i64, print_Z. destruct z as [|p|p].
  - reflexivity.
  - destruct (print_N_spec (Npos p)) as (Hne & Hd & Hv & _).
    destruct (print_N (Npos p)) as [|c r] eqn:E; [congruence|].
    inversion Hd as [|? ? Hc _]; subst.
    destruct (N.eqb c c_minus) eqn:Em.
    { apply N.eqb_eq in Em. subst. discriminate Hc. }
    rewrite Hv. simpl Z.of_N. rewrite Hz. reflexivity.
  - rewrite N.eqb_refl.
    destruct (print_N_spec (Npos p)) as (Hne & Hd & Hv & _).
    destruct (print_N (Npos p)) as [|c r] eqn:E; [congruence|].
    rewrite Hv. simpl Z.of_N. change (- Z.pos p)%Z with (Z.neg p). rewrite Hz. reflexivity.
Qed.

(* printing is injective *)
Theorem print_N_inj a b : print_N a = print_N b -> a = b.
Proof.
  intros H. destruct (print_N_spec a) as (_ & _ & Ha & _). destruct (print_N_spec b) as (_ & _ & Hb & _).
  rewrite H in Ha. lia.
Qed.

Theorem print_Z_inj a b : print_Z a = print_Z b -> a = b.
Proof.
  assert (Hfirst : forall p, exists c r, print_N (Npos p) = c :: r /\ is_digit c = true /\ c <> c_0).
  { intros p. destruct (print_N_spec (Npos p)) as (Hne & Hd & _ & Hh).
    destruct (print_N (Npos p)) as [|c r]; [congruence|]. inversion Hd; subst.
    exists c, r. split; [reflexivity|]. split; [assumption|]. apply Hh. discriminate. }
  destruct a as [|p|p], b as [|q|q]; cbn [print_Z]; intros H; try reflexivity.
  - destruct (Hfirst q) as (c & r & E & _ & Hc). rewrite E in H. inversion H. congruence.
  - inversion H.
  - destruct (Hfirst p) as (c & r & E & _ & Hc). rewrite E in H. inversion H. congruence.
  - apply print_N_inj in H. congruence.
  - destruct (Hfirst p) as (c & r & E & Hd & _). rewrite E in H. inversion H; subst. discriminate Hd.
  - inversion H.
  - destruct (Hfirst q) as (c & r & E & Hd & _). rewrite E in H. inversion H; subst. discriminate Hd.
  - inversion H as [H']. apply print_N_inj in H'. congruence.
Qed.
