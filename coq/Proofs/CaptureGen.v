(* C05: the capture walk of `lambda` over ANY body - in particular a body    *)
(* that already contains cells of an enclosing closure (nested closures) or  *)
(* uninterned symbols.                                                        *)
From TL Require Import Base.Base Model.Reader Model.Printer Model.Store Model.Eval.
From TL Require Import Proofs.Closures Proofs.Capture.
Local Open Scope nat_scope.
Local Open Scope list_scope.

Section CaptureGen.
Variable s : st.                 (* the state in which the lambda is created *)
Variable excl : list sx.         (* its parameters *)

(* the objects of the body exist in s: serials of uninterned symbols and of   *)
(* cells are below the next serial, and every cell holds a value              *)
Fixpoint ok (x : sx) : Prop :=
  match x with
  | USym _ i => (i < next_id s)%positive
  | Cell _ i _ => (i < next_id s)%positive /\ bitems (sget s (key_of_id i)) <> []
  | Cons a d => ok a /\ ok d
  | Quote v | Bq v | Unq v | Splice v | Sharp v => ok v
  | _ => True
  end.

(* locally bound at creation: a cell always is *)
Definition lexb (x : sx) : bool :=
  match x with
  | Cell _ _ _ => true
  | _ => match key_of x with None => false | Some k => b_lex_bound (sget s k) end
  end.
Definition capt (x : sx) : bool := lexb x && negb (in_excl excl x).

(* the body with every capturable symbol occurrence replaced by its cell *)
Fixpoint gsubst (caps : cap_list) (x : sx) : sx :=
  match x with
  | Sym _ | USym _ _ | Cell _ _ _ =>
      if capt x then match find_cap caps x with Some c => c | None => x end else x
  | Cons a d => Cons (gsubst caps a) (gsubst caps d)
  | Quote v => Quote (gsubst caps v) | Bq v => Bq (gsubst caps v)
  | Unq v => Unq (gsubst caps v) | Splice v => Splice (gsubst caps v)
  | Sharp v => Sharp (gsubst caps v)
  | o => o
  end.

Lemma gsubst_of_list caps : forall x,
  gsubst caps x = match x with
                  | Cons _ _ => of_list (map (gsubst caps) (items x)) (gsubst caps (tail_of x))
                  | _ => gsubst caps x
                  end.
Proof.
  induction x; try reflexivity. cbn [gsubst items tail_of map of_list]. f_equal.
  destruct x2; try reflexivity. rewrite IHx2. reflexivity.
Qed.

(* keys that exist in s: not the slot of a serial handed out later *)
Definition old (k : key) : Prop := forall i, (next_id s <= i)%positive -> k <> key_of_id i.

Definition agree (st : st) : Prop :=
  (next_id s <= next_id st)%positive /\ forall k, old k -> sget st k = sget s k.

(* every entry of the capture list: a capturable symbol occurrence and a NEW  *)
(* cell for it, with the root of what it was made from                        *)
Definition gcaps_ok (caps : cap_list) : Prop :=
  Forall (fun p => symbolp (fst p) = true /\ capt (fst p) = true /\
                   exists nm id, snd p = Cell nm id (cell_root (fst p)) /\
                                 (next_id s <= id)%positive) caps.

Definition ginv (caps : cap_list) (st : st) : Prop := agree st /\ gcaps_ok caps.

Fixpoint gclosed (caps : cap_list) (x : sx) : Prop :=
  match x with
  | Sym _ | USym _ _ | Cell _ _ _ => capt x = true -> find_cap caps x <> None
  | Cons a d => gclosed caps a /\ gclosed caps d
  | Quote v | Bq v | Unq v | Splice v | Sharp v => gclosed caps v
  | _ => True
  end.

Lemma gsubst_ext caps more : forall x, gclosed caps x -> gsubst (caps ++ more) x = gsubst caps x.
Proof.
  assert (Hs : forall x, (capt x = true -> find_cap caps x <> None) ->
          (if capt x then match find_cap (caps ++ more) x with Some c => c | None => x end else x) =
          (if capt x then match find_cap caps x with Some c => c | None => x end else x)).
  { intros x H. destruct (capt x); [|reflexivity]. rewrite find_cap_app.
    destruct (find_cap caps x); [reflexivity|]. exfalso. apply H; reflexivity. }
  induction x; cbn [gsubst gclosed]; intros Hc; try reflexivity;
    try (apply Hs; exact Hc); try (rewrite IHx by assumption; reflexivity).
  destruct Hc as [C1 C2]. rewrite IHx1, IHx2 by assumption. reflexivity.
Qed.

Lemma gclosed_ext caps more : forall x, gclosed caps x -> gclosed (caps ++ more) x.
Proof.
  assert (Hs : forall x, (capt x = true -> find_cap caps x <> None) ->
                         capt x = true -> find_cap (caps ++ more) x <> None).
  { intros x H Hc. rewrite find_cap_app. specialize (H Hc).
    destruct (find_cap caps x); [discriminate|congruence]. }
  induction x; cbn [gclosed]; auto.
  intros [H1 H2]. split; auto.
Qed.

Lemma gcaps_ok_app a b : gcaps_ok a -> gcaps_ok b -> gcaps_ok (a ++ b).
Proof. intros. apply Forall_app. split; assumption. Qed.

Lemma key_old x k : symbolp x = true -> ok x -> key_of x = Some k -> old k.
Proof.
  intros Hs Ho Hk i Hi. destruct x; try discriminate Hs; cbn [key_of] in Hk; inversion Hk; subst k.
  - apply name_key_not_cell_key.
  - cbn [ok] in Ho. unfold key_of_id. intros E. inversion E. subst. lia.
  - cbn [ok] in Ho. destruct Ho as [Ho _]. unfold key_of_id. intros E. inversion E. subst. lia.
Qed.

(* ---- one symbol occurrence ------------------------------------------------ *)
Lemma gcapture_symbol_ok x caps st : symbolp x = true -> ok x -> ginv caps st ->
  exists caps2 st2,
    capture_symbol excl caps x st = (Ok (gsubst (caps ++ caps2) x, caps ++ caps2), st2) /\
    ginv (caps ++ caps2) st2 /\ gclosed (caps ++ caps2) x.
Proof.
  intros Hsym Hok [[Hle Ha] Hcok].
  assert (Hg : forall c, gsubst c x = if capt x then match find_cap c x with Some c0 => c0 | None => x end else x)
    by (intros c; destruct x; try discriminate Hsym; reflexivity).
  assert (Hcl : forall c, gclosed c x = (capt x = true -> find_cap c x <> None))
    by (intros c; destruct x; try discriminate Hsym; reflexivity).
  assert (Hkey : exists k, key_of x = Some k) by (destruct x; try discriminate Hsym; eexists; reflexivity).
  destruct Hkey as [k Hk]. pose proof (key_old x k Hsym Hok Hk) as Hold.
  assert (Hlb : lex_bound x st = (Ok (lexb x), st)).
  { unfold lex_bound, lexb. destruct x; try discriminate Hsym; try reflexivity;
      rewrite Hk; rewrite (Ha k Hold); reflexivity. }
  unfold capture_symbol, bind. rewrite Hlb.
  destruct (lexb x) eqn:Elb; cbn [negb].
  2:{ exists [], st. rewrite app_nil_r. split; [|split; [split; [split|]; assumption|]].
      - rewrite Hg. unfold capt. rewrite Elb. reflexivity.
      - rewrite Hcl. unfold capt. rewrite Elb. discriminate. }
  destruct (in_excl excl x) eqn:Eex.
  { exists [], st. rewrite app_nil_r. split; [|split; [split; [split|]; assumption|]].
    - rewrite Hg. unfold capt. rewrite Eex, andb_false_r. reflexivity.
    - rewrite Hcl. unfold capt. rewrite Eex, andb_false_r. discriminate. }
  assert (Hcap : capt x = true) by (unfold capt; rewrite Elb, Eex; reflexivity).
  destruct (find_cap caps x) as [c|] eqn:Ef.
  { exists [], st. rewrite app_nil_r. split; [|split; [split; [split|]; assumption|]].
    - rewrite Hg, Hcap, Ef. reflexivity.
    - rewrite Hcl. intros _. rewrite Ef. discriminate. }
  (* a new cell *)
  assert (Hget : exists v, sym_get x st = (Ok v, st)).
  { unfold sym_get. rewrite Hk. destruct (keywordp x); [eexists; reflexivity|].
    rewrite (Ha k Hold).
    assert (Hne : bitems (sget s k) <> []).
    { destruct x; try discriminate Hsym; cbn [key_of] in Hk; inversion Hk; subst k.
      - unfold lexb in Elb. cbn [key_of] in Elb. unfold b_lex_bound in Elb.
        destruct (bitems (sget s (key_of_name n))); [|discriminate].
        destruct (has_global (sget s (key_of_name n))); discriminate.
      - unfold lexb in Elb. cbn [key_of] in Elb. unfold b_lex_bound in Elb.
        destruct (bitems (sget s (key_of_id id))); [|discriminate].
        destruct (has_global (sget s (key_of_id id))); discriminate.
      - cbn [ok] in Hok. apply Hok. }
    destruct (bitems (sget s k)); [congruence|eexists; reflexivity]. }
  destruct Hget as [v Hv]. rewrite Hv. unfold fresh_id.
  set (nm := match sym_name x with Some n => n | None => [] end).
  set (c := Cell nm (next_id st) (cell_root x)).
  unfold sym_set, with_key. cbn [key_of is_constant].
  exists [(x, c)]. eexists. split; [|split].
  - rewrite Hg, Hcap, find_cap_app, Ef. cbn [find_cap].
    assert (Hrefl : sym_eq x x = true).
    { destruct x; try discriminate Hsym; cbn [sym_eq]; [apply text_eqb_refl|apply Pos.eqb_refl|].
      rewrite Pos.eqb_refl. reflexivity. }
    rewrite Hrefl. reflexivity.
  - split; [split|].
    + unfold sput. cbn [next_id]. lia.
    + intros k0 Hk0. rewrite sget_sput_other by (apply not_eq_sym; apply Hk0; exact Hle).
      unfold sget. cbn [store]. apply Ha. exact Hk0.
    + apply gcaps_ok_app; [assumption|]. constructor; [|constructor].
      cbn [fst snd]. split; [assumption|split; [assumption|]]. exists nm, (next_id st). split; [reflexivity|exact Hle].
  - rewrite Hcl. intros _. rewrite find_cap_app, Ef. cbn [find_cap].
    assert (Hrefl : sym_eq x x = true).
    { destruct x; try discriminate Hsym; cbn [sym_eq]; [apply text_eqb_refl|apply Pos.eqb_refl|].
      rewrite Pos.eqb_refl. reflexivity. }
    rewrite Hrefl. discriminate.
Qed.

Definition gcap_post (caps : cap_list) (x : sx) (r : res (sx * cap_list) * st) : Prop :=
  exists caps2 st2, r = (Ok (gsubst (caps ++ caps2) x, caps ++ caps2), st2) /\
                    ginv (caps ++ caps2) st2 /\ gclosed (caps ++ caps2) x.

Lemma gcap_post_sym x caps st0 : symbolp x = true -> ok x -> ginv caps st0 ->
  gcap_post caps x (capture_symbol excl caps x st0).
Proof. intros Hs Ho H. destruct (gcapture_symbol_ok x caps st0 Hs Ho H) as (c2 & s2 & E & I & C). exists c2, s2. auto. Qed.

Lemma gtail_finish caps1 c1 acc l1 o (m : M (sx * cap_list)) s1' :
  gclosed (caps1 ++ c1) l1 ->
  gcap_post (caps1 ++ c1) o (m s1') ->
  exists caps2 st2,
    bind m (fun p => let '(o', caps2) := p in ret (of_list (acc ++ [gsubst (caps1 ++ c1) l1]) o', caps2)) s1'
    = (Ok (of_list (acc ++ [gsubst (caps1 ++ caps2) l1]) (gsubst (caps1 ++ caps2) o), caps1 ++ caps2), st2) /\
    ginv (caps1 ++ caps2) st2 /\ gclosed (caps1 ++ caps2) l1 /\ gclosed (caps1 ++ caps2) o.
Proof.
  intros C1 (c2 & s2' & E2 & I2 & C2). unfold bind. rewrite E2.
  exists (c1 ++ c2), s2'. rewrite !app_assoc. split; [|split; [assumption|split; [apply gclosed_ext; assumption|assumption]]].
  unfold ret. rewrite (gsubst_ext (caps1 ++ c1) c2 l1 C1). reflexivity.
Qed.

Lemma gcapture_ok : forall n x, sx_size x <= n -> ok x ->
  forall caps st0, ginv caps st0 -> gcap_post caps x (capture excl caps x st0).
Proof.
  induction n as [|n IH]; intros x Hx Ho caps st0 Hi; [destruct x; simpl in Hx; lia|].
  assert (Hatom : forall o, gsubst caps o = o -> gclosed caps o ->
                  gcap_post caps o (ret (o, caps) st0)).
  { intros o Hs Hc. exists [], st0. rewrite app_nil_r, Hs. auto. }
  assert (Hwrap : forall (mk : sx -> sx) v,
            sx_size v <= n -> ok v ->
            (forall c, gsubst c (mk v) = mk (gsubst c v)) -> (forall c, gclosed c (mk v) = gclosed c v) ->
            gcap_post caps (mk v)
              (bind (capture excl caps v) (fun p => let '(v', c) := p in ret (mk v', c)) st0)).
  { intros mk v Hv Hov Hs Hc. destruct (IH v Hv Hov caps st0 Hi) as (c2 & s2 & E & I & C).
    unfold bind. rewrite E. exists c2, s2. rewrite Hs, Hc. auto. }
  destruct x; simpl in Hx;
    try (cbn [capture symbolp]; apply Hatom; [reflexivity|exact I]).
  - (* Sym *) cbn [capture symbolp]. apply gcap_post_sym; [reflexivity|assumption|assumption].
  - (* USym *) cbn [capture symbolp]. apply gcap_post_sym; [reflexivity|assumption|assumption].
  - (* Cell *) cbn [capture symbolp]. apply gcap_post_sym; [reflexivity|assumption|assumption].
  - (* Cons *)
    rewrite capture_cons.
    assert (Hsp : forall l, sx_size l <= S n -> ok l ->
              forall a0 d0, l = Cons a0 d0 ->
              forall caps1 acc st1, ginv caps1 st1 ->
              exists caps2 st2,
                cap_spine excl l caps1 acc st1 =
                  (Ok (of_list (acc ++ map (gsubst (caps1 ++ caps2)) (items l))
                               (gsubst (caps1 ++ caps2) (tail_of l)), caps1 ++ caps2), st2) /\
                ginv (caps1 ++ caps2) st2 /\ gclosed (caps1 ++ caps2) l).
    { induction l; intros Hl Hol a0 d0 El caps1 acc st1 Hi1; try discriminate El.
      clear IHl1. simpl in Hl. cbn [ok] in Hol. destruct Hol as [Ho1 Ho2].
      cbn [cap_spine]. unfold bind at 1.
      (* the element *)
      assert (He : gcap_post caps1 l1
                (match l1 with
                 | Cons _ _ => capture excl caps1 l1
                 | _ => if symbolp l1 then capture_symbol excl caps1 l1 else capture excl caps1 l1
                 end st1)).
      { destruct l1; cbn [symbolp];
          try (apply IH; [simpl in *; lia|assumption|assumption]);
          apply gcap_post_sym; solve [reflexivity|assumption]. }
      destruct He as (c1 & s1' & E1 & I1 & C1). rewrite E1.
      destruct l2 as [| | | | |tn| | |ta td| | | | | | | | | | |].
      all: try (* every tail that is neither nil nor a cons *)
        (match goal with
         | |- context[if symbolp ?o then capture_symbol excl ?cc ?o else capture excl ?cc ?o] =>
             assert (Hp : gcap_post cc o ((if symbolp o then capture_symbol excl cc o
                                           else capture excl cc o) s1'));
             [cbn [symbolp]; first [apply gcap_post_sym; solve [reflexivity|assumption]
                                   | apply IH; [simpl in *; lia|assumption|assumption]]|];
             destruct (gtail_finish caps1 c1 acc l1 o _ s1' C1 Hp) as (cF & sF & EF & IF & CF1 & CF2);
             exists cF, sF; split; [exact EF|split; [assumption|split; assumption]]
         end).
      + (* Nil tail *)
        exists c1, s1'. split; [|split; [assumption|split; [assumption|exact I]]].
        cbn [items tail_of map gsubst]. reflexivity.
      + (* Cons tail *)
        destruct (IHl2 ltac:(simpl in *; lia) Ho2 ta td eq_refl (caps1 ++ c1) (acc ++ [gsubst (caps1 ++ c1) l1]) s1' I1)
          as (c2 & s2' & E2 & I2 & C2).
        fold (cap_spine excl). rewrite E2. exists (c1 ++ c2), s2'. rewrite !app_assoc.
        split; [|split; [assumption|split; [apply gclosed_ext; assumption|assumption]]].
        cbn [items map tail_of].
        rewrite (gsubst_ext (caps1 ++ c1) c2 l1 C1).
        rewrite <- app_assoc. reflexivity. }
    destruct (Hsp (Cons x1 x2) ltac:(simpl; lia) Ho x1 x2 eq_refl caps [] st0 Hi) as (c2 & s2 & E & I2 & C).
    exists c2, s2. rewrite E. split; [|split; assumption].
    rewrite (gsubst_of_list (caps ++ c2) (Cons x1 x2)). reflexivity.
  - apply (Hwrap Quote); [lia|assumption|reflexivity|reflexivity].
  - apply (Hwrap Bq); [lia|assumption|reflexivity|reflexivity].
  - apply (Hwrap Unq); [lia|assumption|reflexivity|reflexivity].
  - apply (Hwrap Splice); [lia|assumption|reflexivity|reflexivity].
  - apply (Hwrap Sharp); [lia|assumption|reflexivity|reflexivity].
Qed.

End CaptureGen.

(* the whole body of a lambda created in state s with parameters excl: ANY body *)
Theorem capture_any_body s excl body :
  ok s body ->
  exists caps s2,
    capture excl [] body s = (Ok (gsubst s excl caps body, caps), s2) /\
    agree s s2 /\ gcaps_ok s excl caps /\ gclosed s excl caps body.
Proof.
  intros Ho.
  destruct (gcapture_ok s excl (sx_size body) body (Nat.le_refl _) Ho [] s) as (c2 & s2 & E & [Ha Hok] & C).
  - split; [split; [lia|intros k _; reflexivity]|constructor].
  - exists c2, s2. simpl in *. auto.
Qed.

Lemma find_cap_in caps x c : find_cap caps x = Some c ->
  exists from, In (from, c) caps /\ sym_eq x from = true.
Proof.
  induction caps as [|[from to] caps IH]; cbn [find_cap]; [discriminate|].
  destruct (sym_eq x from) eqn:E.
  - intros H. inversion H; subst. exists from. split; [left; reflexivity|assumption].
  - intros H. destruct (IH H) as (f & Hin & He). exists f. split; [right; assumption|assumption].
Qed.

(* a cell of an enclosing closure that occurs in the body and is not shadowed  *)
(* by a parameter is replaced by a NEW cell (a serial not yet handed out in s)  *)
(* made from an occurrence that is eq to it, and rooted where that one is       *)
Theorem outer_cell_recaptured s excl caps n i r :
  gcaps_ok s excl caps -> gclosed s excl caps (Cell n i r) -> in_excl excl (Cell n i r) = false ->
  exists from nm id,
    gsubst s excl caps (Cell n i r) = Cell nm id (cell_root from) /\
    In (from, Cell nm id (cell_root from)) caps /\ sym_eq (Cell n i r) from = true /\
    (next_id s <= id)%positive.
Proof.
  intros Hok Hc Hex. cbn [gsubst gclosed] in *.
  assert (Hcap : capt s excl (Cell n i r) = true) by (unfold capt; cbn [lexb]; rewrite Hex; reflexivity).
  rewrite Hcap. specialize (Hc Hcap).
  destruct (find_cap caps (Cell n i r)) as [c|] eqn:E; [|congruence].
  destruct (find_cap_in _ _ _ E) as (from & Hin & He).
  unfold gcaps_ok in Hok. rewrite Forall_forall in Hok. destruct (Hok _ Hin) as (_ & _ & nm & id & Hs & Hle).
  cbn [fst snd] in Hs. subst c. exists from, nm, id. auto.
Qed.

(* a parameter of the inner lambda, or a symbol not locally bound, stays *)
Theorem not_capt_untouched s excl caps x :
  symbolp x = true -> capt s excl x = false -> gsubst s excl caps x = x.
Proof. intros Hs Hc. destruct x; try discriminate Hs; cbn [gsubst]; rewrite Hc; reflexivity. Qed.

(* on bodies from program text the general walk is the walk of Capture.v *)
Theorem gsubst_on_text_bodies s excl caps : forall x,
  only_syms x = true -> caps_ok s excl caps -> gsubst s excl caps x = subst caps x.
Proof.
  intros x Ho Hok. induction x; simpl in Ho; try discriminate Ho; cbn [gsubst subst]; try reflexivity;
    try (rewrite IHx by assumption; reflexivity).
  - destruct (capt s excl (Sym n)) eqn:Ec; [reflexivity|].
    destruct (find_cap caps (Sym n)) eqn:E; [|reflexivity].
    destruct (find_cap_ok s excl _ _ _ Hok E) as [Hc _]. unfold capturable in Hc.
    unfold capt, lexb in Ec. cbn [key_of] in Ec. congruence.
  - apply andb_true_iff in Ho as [H1 H2]. rewrite IHx1, IHx2 by assumption. reflexivity.
Qed.
