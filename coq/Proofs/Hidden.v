(* C04: evaluation is insensitive to binding-stack entries buried below the   *)
(* top ("hidden frames"): the frames of pending tail-callers that ordinary      *)
(* recursion keeps on the stacks and the trampoline has already popped.         *)
From TL Require Import Base.Base Model.Reader Model.Printer Model.Store Model.Eval.
From TL Require Import Proofs.ReaderTotal Proofs.EvalRel Proofs.Lists Proofs.Backquote Proofs.Closures Proofs.Capture Proofs.Cont.
Local Open Scope nat_scope.
Local Open Scope list_scope.

(* ---- inserting entries at a fixed height from the bottom ------------------ *)
Definition insl (H : list sx) (fl : nat) (l : list sx) : list sx :=
  firstn (List.length l - fl) l ++ H ++ skipn (List.length l - fl) l.

Lemma insl_nil fl l : insl [] fl l = l.
Proof. unfold insl. simpl. apply firstn_skipn. Qed.

Lemma insl_cons H fl x r : fl <= List.length r -> insl H fl (x :: r) = x :: insl H fl r.
Proof.
  intros Hf. unfold insl. simpl List.length.
  replace (S (List.length r) - fl) with (S (List.length r - fl)) by lia. reflexivity.
Qed.

Lemma insl_length H fl l : List.length (insl H fl l) = List.length l + List.length H.
Proof.
  unfold insl. rewrite !app_length, firstn_length, skipn_length. lia.
Qed.

Lemma replace_last_app : forall X B v, B <> [] -> replace_last (X ++ B) v = X ++ replace_last B v.
Proof.
  induction X as [|x X IH]; intros B v HB; [reflexivity|].
  simpl. destruct (X ++ B) eqn:E.
  - destruct X; destruct B; simpl in E; congruence.
  - rewrite <- E. rewrite IH by assumption. reflexivity.
Qed.

Lemma replace_last_length l v : List.length (replace_last l v) = Nat.max (List.length l) 1.
Proof. apply length_replace_last. Qed.

Lemma firstn_app_exact {A} (a b : list A) : firstn (List.length a) (a ++ b) = a.
Proof. rewrite firstn_app, Nat.sub_diag, firstn_all, firstn_O, app_nil_r. reflexivity. Qed.
Lemma skipn_app_exact {A} (a b : list A) : skipn (List.length a) (a ++ b) = b.
Proof. rewrite skipn_app, Nat.sub_diag, skipn_all, skipn_O. reflexivity. Qed.

Lemma insl_replace_last H fl l v : 1 <= fl -> fl <= List.length l ->
  replace_last (insl H fl l) v = insl H fl (replace_last l v).
Proof.
  intros H1 H2. unfold insl.
  assert (Hl : List.length (replace_last l v) = List.length l) by (rewrite replace_last_length; lia).
  rewrite Hl.
  set (m := List.length l - fl).
  set (A := firstn m l). set (B := skipn m l).
  assert (El : l = A ++ B) by (symmetry; apply firstn_skipn).
  assert (LA : List.length A = m) by (unfold A; rewrite firstn_length; unfold m; lia).
  assert (HB : B <> []).
  { intro E. apply (f_equal (@List.length sx)) in E. unfold B in E. rewrite skipn_length in E.
    simpl in E. unfold m in E. lia. }
  rewrite app_assoc, replace_last_app by assumption. rewrite <- app_assoc.
  assert (Er : replace_last l v = A ++ replace_last B v)
    by (rewrite El at 1; apply replace_last_app; assumption).
  rewrite Er. rewrite <- LA. rewrite firstn_app_exact, skipn_app_exact. reflexivity.
Qed.

Section Hidden.
Variable hk : key -> list sx.      (* the hidden entries of each symbol (top first) *)
Variable hf : key -> nat.          (* the height, from the bottom, at which they sit *)
Variable trk : key -> Prop.        (* the symbols that are tracked: at least those with hidden entries *)
Hypothesis Htrk : forall k, hk k <> [] -> trk k.

Definition insb (k : key) (b : binding) : binding :=
  {| has_global := has_global b; bitems := insl (hk k) (hf k) (bitems b) |}.

Definition wfk (k : key) (b : binding) : Prop :=
  trk k -> hf k < List.length (bitems b) /\ (hf k = 0 -> has_global b = false).

Lemma insb_plain k b : hk k = [] -> insb k b = b.
Proof. intros H. unfold insb. rewrite H, insl_nil. destruct b; reflexivity. Qed.

(* the top of the stack is the same in both worlds, and the rest is again an insertion *)
Lemma insb_top k b : wfk k b ->
  bitems (insb k b) = match bitems b with
                      | [] => []
                      | x :: r => x :: insl (hk k) (hf k) r
                      end.
Proof.
  intros Hw. unfold insb; simpl. destruct (hk k) eqn:Eh.
  - rewrite insl_nil. destruct (bitems b); [reflexivity|]. rewrite insl_nil. reflexivity.
  - destruct Hw as [Hw _]; [apply Htrk; rewrite Eh; discriminate|].
    destruct (bitems b) as [|x r]; [simpl in Hw; lia|]. rewrite <- Eh.
    apply insl_cons. simpl in Hw. lia.
Qed.

(* the two worlds: all components equal, the stores related entry by entry *)
Definition same_rest (s1 s2 : st) : Prop :=
  next_id s1 = next_id s2 /\ log s1 = log s2 /\ steps s1 = steps s2 /\ fail_at s1 = fail_at s2 /\
  htabs s1 = htabs s2 /\ flags s1 = flags s2 /\ files s1 = files s2 /\ nfiles s1 = nfiles s2 /\
  mlog s1 = mlog s2 /\ glog s1 = glog s2.

Definition SR (s1 s2 : st) : Prop :=
  same_rest s1 s2 /\ forall k, sget s1 k = insb k (sget s2 k).
Definition wf (s2 : st) : Prop := forall k, wfk k (sget s2 k).

(* the global slot of a symbol whose hidden entries reach the bottom was not written *)
Definition hz (k : key) : Prop := trk k /\ hf k = 0.
Definition gsuffix (s s' : st) : Prop := exists new, glog s' = new ++ glog s.
Definition quiet (s s' : st) : Prop := forall k, hz k -> cnt (glog s') k = cnt (glog s) k.
Definition dmono (s s' : st) : Prop := forall k, depth s k <= depth s' k.

Lemma gsuffix_refl s : gsuffix s s. Proof. exists []. reflexivity. Qed.
Lemma gsuffix_trans a b c : gsuffix a b -> gsuffix b c -> gsuffix a c.
Proof. intros [n1 H1] [n2 H2]. exists (n2 ++ n1). rewrite H2, H1, app_assoc. reflexivity. Qed.
Lemma dmono_refl s : dmono s s. Proof. intros k. lia. Qed.
Lemma dmono_trans a b c : dmono a b -> dmono b c -> dmono a c.
Proof. intros H1 H2 k. specialize (H1 k). specialize (H2 k). lia. Qed.

Lemma quiet_split a b c : gsuffix a b -> gsuffix b c -> quiet a c -> quiet a b /\ quiet b c.
Proof.
  intros [n1 H1] [n2 H2] Hq. split; intros k Hk; specialize (Hq k Hk);
    rewrite H2, H1 in Hq; rewrite !cnt_app in Hq; rewrite ?H2, ?H1, ?cnt_app; lia.
Qed.

(* the relation between the two worlds' computations *)
Definition G {A} (m : M A) : Prop :=
  forall s r s', m s = (r, s') -> r <> Fuel -> gsuffix s s'.
Definition R2 {A} (m1 m2 : M A) : Prop :=
  G m1 /\
  forall s1 s2 r s1', SR s1 s2 -> wf s2 -> m1 s1 = (r, s1') -> r <> Fuel -> quiet s1 s1' ->
    exists s2', m2 s2 = (r, s2') /\ SR s1' s2' /\ wf s2' /\ dmono s2 s2'.

Lemma R2_pure {A} (x : res A) : R2 (lift x) (lift x).
Proof.
  split.
  - intros s r s' H _. inversion H; subst. apply gsuffix_refl.
  - intros s1 s2 r s1' HS Hw H _ _. inversion H; subst. exists s2.
    split; [reflexivity|]. split; [assumption|]. split; [assumption|apply dmono_refl].
Qed.
Lemma R2_ret {A} (a : A) : R2 (ret a) (ret a).
Proof. apply (R2_pure (Ok a)). Qed.
Lemma R2_fail {A} e : R2 (@fail A e) (fail e).
Proof. apply (R2_pure (Err e)). Qed.
Lemma R2_lift {A} (x : res A) : R2 (lift x) (lift x).
Proof. apply R2_pure. Qed.
Lemma R2_panic {A} n : R2 (@panic A n) (panic n).
Proof. apply (R2_pure (Panic n)). Qed.

Lemma R2_bind {A B} (m1 m2 : M A) (f1 f2 : A -> M B) :
  R2 m1 m2 -> (forall a, R2 (f1 a) (f2 a)) -> R2 (bind m1 f1) (bind m2 f2).
Proof.
  intros [Gm Hm] Hf. split.
  - intros s r s' H Hr. unfold bind in H. destruct (m1 s) as [r1 sm] eqn:E1.
    destruct r1 as [a|e|n|]; try (inversion H; subst; apply (Gm _ _ _ E1); discriminate).
    + eapply gsuffix_trans; [apply (Gm _ _ _ E1); discriminate|].
      apply (proj1 (Hf a) _ _ _ H Hr).
    + inversion H; subst. congruence.
  - intros s1 s2 r s1' HS Hw H Hr Hq. unfold bind in H.
    destruct (m1 s1) as [r1 sm] eqn:E1.
    destruct r1 as [a|e|n|].
    + assert (G1 : gsuffix s1 sm) by (apply (Gm _ _ _ E1); discriminate).
      assert (G2 : gsuffix sm s1') by (apply (proj1 (Hf a) _ _ _ H Hr)).
      destruct (quiet_split _ _ _ G1 G2 Hq) as [Q1 Q2].
      destruct (Hm _ _ _ _ HS Hw E1 ltac:(discriminate) Q1) as (sm2 & E2 & HS2 & Hw2 & D2).
      destruct (proj2 (Hf a) _ _ _ _ HS2 Hw2 H Hr Q2) as (s2' & E3 & HS3 & Hw3 & D3).
      exists s2'. unfold bind. rewrite E2.
      split; [assumption|split; [assumption|split; [assumption|eapply dmono_trans; eassumption]]].
    + inversion H; subst. destruct (Hm _ _ _ _ HS Hw E1 ltac:(discriminate) Hq) as (sm2 & E2 & HS2 & Hw2 & D2).
      exists sm2. unfold bind. rewrite E2. auto.
    + inversion H; subst. destruct (Hm _ _ _ _ HS Hw E1 ltac:(discriminate) Hq) as (sm2 & E2 & HS2 & Hw2 & D2).
      exists sm2. unfold bind. rewrite E2. auto.
    + inversion H; subst. congruence.
Qed.

Lemma R2_catch {A B} (m1 m2 : M A) (k1 k2 : res A -> M B) :
  R2 m1 m2 -> (forall r, r <> Fuel -> R2 (k1 r) (k2 r)) -> R2 (catch m1 k1) (catch m2 k2).
Proof.
  intros [Gm Hm] Hk. split.
  - intros s r s' H Hr. unfold catch in H. destruct (m1 s) as [r1 sm] eqn:E1.
    assert (Hr1 : r1 <> Fuel) by (intros ->; inversion H; subst; congruence).
    assert (H' : k1 r1 sm = (r, s')) by (destruct r1; auto; congruence).
    eapply gsuffix_trans; [apply (Gm _ _ _ E1 Hr1)|apply (proj1 (Hk r1 Hr1) _ _ _ H' Hr)].
  - intros s1 s2 r s1' HS Hw H Hr Hq. unfold catch in H.
    destruct (m1 s1) as [r1 sm] eqn:E1.
    assert (Hr1 : r1 <> Fuel) by (intros ->; inversion H; subst; congruence).
    assert (H' : k1 r1 sm = (r, s1')) by (destruct r1; auto; congruence).
    assert (G1 : gsuffix s1 sm) by (apply (Gm _ _ _ E1 Hr1)).
    assert (G2 : gsuffix sm s1') by (apply (proj1 (Hk r1 Hr1) _ _ _ H' Hr)).
    destruct (quiet_split _ _ _ G1 G2 Hq) as [Q1 Q2].
    destruct (Hm _ _ _ _ HS Hw E1 Hr1 Q1) as (sm2 & E2 & HS2 & Hw2 & D2).
    destruct (proj2 (Hk r1 Hr1) _ _ _ _ HS2 Hw2 H' Hr Q2) as (s2' & E3 & HS3 & Hw3 & D3).
    exists s2'. unfold catch. rewrite E2.
    split; [destruct r1; auto; congruence|].
    split; [assumption|split; [assumption|eapply dmono_trans; eassumption]].
Qed.

(* ---- state operations ------------------------------------------------------- *)
Lemma S_sget s1 s2 k : SR s1 s2 -> sget s1 k = insb k (sget s2 k).
Proof. intros [_ H]. apply H. Qed.

Lemma S_sput s1 s2 k b : SR s1 s2 -> SR (sput s1 k (insb k b)) (sput s2 k b).
Proof.
  intros [Hr Hs]. split; [exact Hr|]. intros k'. destruct (Pos.eq_dec k k') as [<-|N].
  - rewrite !sget_sput_same. reflexivity.
  - rewrite !sget_sput_other by assumption. apply Hs.
Qed.

Lemma wf_sput s2 k b : wf s2 -> wfk k b -> wf (sput s2 k b).
Proof.
  intros Hw Hb k'. destruct (Pos.eq_dec k k') as [<-|N].
  - rewrite sget_sput_same. assumption.
  - rewrite sget_sput_other by assumption. apply Hw.
Qed.

Lemma dmono_sput s2 k b : List.length (bitems (sget s2 k)) <= List.length (bitems b) ->
  dmono s2 (sput s2 k b).
Proof.
  intros H k'. destruct (Pos.eq_dec k k') as [<-|N].
  - rewrite depth_sput_same. exact H.
  - rewrite depth_sput_other by assumption. lia.
Qed.

Lemma gsuffix_sput s k b : gsuffix s (sput s k b).
Proof. exists []. reflexivity. Qed.

(* an operation that reads the state only *)
Lemma R2_read {A} (m : M A) :
  (forall s, exists r, m s = (r, s)) ->
  (forall s1 s2, SR s1 s2 -> wf s2 -> fst (m s1) = fst (m s2)) -> R2 m m.
Proof.
  intros Hsame Hres. split.
  - intros s r s' H _. destruct (Hsame s) as [r0 E]. rewrite E in H. inversion H; subst. apply gsuffix_refl.
  - intros s1 s2 r s1' HS Hw H _ _. destruct (Hsame s1) as [r1 E1]. destruct (Hsame s2) as [r2 E2].
    rewrite E1 in H. inversion H; subst. exists s2.
    pose proof (Hres _ _ HS Hw) as Hf. rewrite E1, E2 in Hf. simpl in Hf. subst.
    split; [assumption|]. split; [assumption|]. split; [assumption|apply dmono_refl].
Qed.

Lemma top_same s1 s2 k : SR s1 s2 -> wf s2 ->
  match bitems (sget s1 k), bitems (sget s2 k) with
  | [], [] => True
  | x :: _, y :: _ => x = y
  | _, _ => False
  end.
Proof.
  intros HS Hw. rewrite (S_sget _ _ k HS), (insb_top k _ (Hw k)).
  destruct (bitems (sget s2 k)); auto.
Qed.

Lemma sym_get_R2 x : R2 (sym_get x) (sym_get x).
Proof.
  apply R2_read.
  - intros s. unfold sym_get. destruct (key_of x); [|eexists; reflexivity].
    destruct (keywordp x); [eexists; reflexivity|]. destruct (bitems (sget s k)); eexists; reflexivity.
  - intros s1 s2 HS Hw. unfold sym_get. destruct (key_of x) as [k|]; [|reflexivity].
    destruct (keywordp x); [reflexivity|]. pose proof (top_same _ _ k HS Hw) as Ht.
    destruct (bitems (sget s1 k)), (bitems (sget s2 k)); simpl; try contradiction; congruence.
Qed.

Lemma depth_same_zero s1 s2 k : SR s1 s2 -> wf s2 -> Nat.eqb (depth s1 k) 0 = Nat.eqb (depth s2 k) 0.
Proof.
  intros HS Hw. unfold depth. pose proof (top_same _ _ k HS Hw) as Ht.
  destruct (bitems (sget s1 k)), (bitems (sget s2 k)); simpl; try contradiction; reflexivity.
Qed.

Lemma sym_boundp_R2 x : R2 (sym_boundp x) (sym_boundp x).
Proof.
  apply R2_read.
  - intros s. unfold sym_boundp. destruct (key_of x); eexists; reflexivity.
  - intros s1 s2 HS Hw. unfold sym_boundp. destruct (key_of x) as [k|]; [|reflexivity].
    simpl. rewrite (depth_same_zero _ _ k HS Hw). reflexivity.
Qed.

Lemma lex_bound_R2 x : R2 (lex_bound x) (lex_bound x).
Proof.
  apply R2_read.
  - intros s. unfold lex_bound. destruct x; simpl; eexists; reflexivity.
  - intros s1 s2 HS Hw. unfold lex_bound.
    assert (Hk : forall k, b_lex_bound (sget s1 k) = b_lex_bound (sget s2 k)).
    { intros k. rewrite (S_sget _ _ k HS). unfold b_lex_bound, insb. simpl.
      rewrite insl_length. pose proof (Hw k) as Hwk. unfold wfk in Hwk.
      destruct (hk k) eqn:Eh; [simpl; rewrite Nat.add_0_r; reflexivity|].
      destruct Hwk as [H1 H2]; [apply Htrk; rewrite Eh; discriminate|].
      destruct (has_global (sget s2 k)) eqn:Eg.
      - assert (1 <= hf k) by (destruct (hf k); [specialize (H2 eq_refl); discriminate|lia]).
        assert (Nat.ltb 1 (List.length (bitems (sget s2 k)) + List.length (s :: l)) = true) as ->
          by (apply Nat.ltb_lt; simpl; lia).
        symmetry. apply Nat.ltb_lt. lia.
      - assert (Nat.eqb (List.length (bitems (sget s2 k)) + List.length (s :: l)) 0 = false) as ->
          by (apply Nat.eqb_neq; simpl; lia).
        assert (Nat.eqb (List.length (bitems (sget s2 k))) 0 = false) as -> by (apply Nat.eqb_neq; lia).
        reflexivity. }
    destruct x; simpl; try reflexivity; rewrite Hk; reflexivity.
Qed.

(* assignment to the innermost binding *)
Lemma b_set_ins k b v : wfk k b -> insb k (b_set b v) = b_set (insb k b) v /\ wfk k (b_set b v).
Proof.
  intros Hw. unfold b_set. rewrite (insb_top k b Hw). destruct (bitems b) as [|x r] eqn:Eb.
  - (* empty: no hidden entries can sit here *)
    assert (Hh : hk k = []).
    { destruct (hk k) eqn:Eh; [reflexivity|]. destruct Hw as [Hw _]; [apply Htrk; rewrite Eh; discriminate|].
      rewrite Eb in Hw. simpl in Hw. lia. }
    split; [unfold insb; simpl; rewrite Hh, insl_nil; reflexivity|].
    intros Hne. destruct (Hw Hne) as [Hx _]. rewrite Eb in Hx. simpl in Hx. lia.
  - split.
    + unfold insb; simpl. f_equal. destruct (hk k) eqn:Eh.
      * rewrite !insl_nil. reflexivity.
      * destruct Hw as [Hw _]; [apply Htrk; rewrite Eh; discriminate|]. rewrite Eb in Hw. simpl in Hw.
        rewrite <- Eh. apply insl_cons. lia.
    + intros Hne. destruct (Hw Hne) as [H1 H2]. rewrite Eb in H1. simpl in *. split; assumption.
Qed.

Lemma with_key_R2 x (f : key -> M unit) :
  (forall k, R2 (f k) (f k)) -> R2 (with_key x f) (with_key x f).
Proof.
  intros Hf. unfold with_key. destruct (key_of x); [|apply R2_fail].
  destruct (is_constant x); [apply R2_fail|apply Hf].
Qed.

Lemma sym_set_R2 x v : R2 (sym_set x v) (sym_set x v).
Proof.
  apply with_key_R2. intros k. split.
  - intros s r s' H _. inversion H; subst. apply gsuffix_sput.
  - intros s1 s2 r s1' HS Hw H _ _. inversion H; subst.
    destruct (b_set_ins k (sget s2 k) v (Hw k)) as [E W].
    exists (sput s2 k (b_set (sget s2 k) v)). split; [reflexivity|].
    split; [rewrite (S_sget _ _ k HS), <- E; apply S_sput; assumption|].
    split; [apply wf_sput; assumption|].
    apply dmono_sput. rewrite b_set_len. lia.
Qed.

Lemma sym_set_unchecked_R2 x v : R2 (sym_set_unchecked x v) (sym_set_unchecked x v).
Proof.
  unfold sym_set_unchecked. destruct (key_of x) as [k|]; [|apply R2_ret]. split.
  - intros s r s' H _. destruct (bitems (sget s k)); inversion H; subst;
      [apply gsuffix_refl|apply gsuffix_sput].
  - intros s1 s2 r s1' HS Hw H _ _. pose proof (top_same _ _ k HS Hw) as Ht.
    destruct (bitems (sget s1 k)) eqn:E1, (bitems (sget s2 k)) eqn:E2; try contradiction.
    + inversion H; subst. exists s2. split; [reflexivity|]. split; [assumption|]. split; [assumption|apply dmono_refl].
    + inversion H; subst. destruct (b_set_ins k (sget s2 k) v (Hw k)) as [E W].
      exists (sput s2 k (b_set (sget s2 k) v)). split; [reflexivity|].
      split; [rewrite (S_sget _ _ k HS), <- E; apply S_sput; assumption|].
      split; [apply wf_sput; assumption|]. apply dmono_sput. rewrite b_set_len. lia.
Qed.

(* a new temporary binding *)
Lemma b_scope_ins k b v : wfk k b ->
  insb k (b_set_scope b v) = b_set_scope (insb k b) v /\ wfk k (b_set_scope b v).
Proof.
  intros Hw. split.
  - unfold insb, b_set_scope; simpl. f_equal. destruct (hk k) eqn:Eh.
    + rewrite !insl_nil. reflexivity.
    + destruct Hw as [Hw _]; [apply Htrk; rewrite Eh; discriminate|]. rewrite <- Eh. apply insl_cons. lia.
  - intros Hne. destruct (Hw Hne) as [H1 H2]. unfold b_set_scope; simpl. split; [lia|assumption].
Qed.

Lemma sym_set_scope_R2 x v : R2 (sym_set_scope x v) (sym_set_scope x v).
Proof.
  apply with_key_R2. intros k. split.
  - intros s r s' H _. inversion H; subst. apply gsuffix_sput.
  - intros s1 s2 r s1' HS Hw H _ _. inversion H; subst.
    destruct (b_scope_ins k (sget s2 k) v (Hw k)) as [E W].
    exists (sput s2 k (b_set_scope (sget s2 k) v)). split; [reflexivity|].
    split; [rewrite (S_sget _ _ k HS), <- E; apply S_sput; assumption|].
    split; [apply wf_sput; assumption|]. apply dmono_sput. unfold b_set_scope; simpl. lia.
Qed.

(* the global slot: defun *)
Lemma S_note s1 s2 k : SR s1 s2 -> SR (note_global k s1) (note_global k s2).
Proof.
  intros [(E1 & E2 & E3 & E4 & E5 & E6 & E7 & E8 & E9 & E10) Hs]. split.
  - unfold same_rest; simpl. rewrite E10. repeat split; assumption.
  - intros k'. apply Hs.
Qed.

Lemma sym_set_global_R2 x v : R2 (sym_set_global x v) (sym_set_global x v).
Proof.
  apply with_key_R2. intros k. split.
  - intros s r s' H _. inversion H; subst. exists [k]. reflexivity.
  - intros s1 s2 r s1' HS Hw H _ Hq. inversion H; subst.
    (* a tracked symbol whose floor is the bottom: the run is not quiet *)
    assert (Hnz : trk k -> hf k <> 0).
    { intros Ht Ef. assert (Hz : hz k) by (split; assumption).
      specialize (Hq k Hz). change (glog (note_global k (sput s1 k (b_set_global (sget s1 k) v)))) with (k :: glog s1) in Hq.
      rewrite cnt_cons_same in Hq. lia. }
    exists (note_global k (sput s2 k (b_set_global (sget s2 k) v))). split; [reflexivity|].
    assert (Ei : insb k (b_set_global (sget s2 k) v) = b_set_global (insb k (sget s2 k)) v).
    { destruct (hk k) eqn:Eh; [rewrite !insb_plain by assumption; reflexivity|].
      assert (Ht : trk k) by (apply Htrk; rewrite Eh; discriminate).
      destruct (Hw k Ht) as [H1 _]. specialize (Hnz Ht).
      unfold insb, b_set_global; simpl. f_equal. symmetry. rewrite Eh.
      apply insl_replace_last; lia. }
    split; [apply S_note; rewrite (S_sget _ _ k HS), <- Ei; apply S_sput; assumption|].
    split.
    + intros k'. change (sget (note_global k (sput s2 k (b_set_global (sget s2 k) v))) k')
        with (sget (sput s2 k (b_set_global (sget s2 k) v)) k').
      apply wf_sput; [assumption|]. intros Ht. destruct (Hw k Ht) as [H1 _]. specialize (Hnz Ht).
      unfold b_set_global; simpl. rewrite length_replace_last. split; [lia|intros HH; exfalso; lia].
    + intros k'. change (depth (note_global k (sput s2 k (b_set_global (sget s2 k) v))) k')
        with (depth (sput s2 k (b_set_global (sget s2 k) v)) k').
      apply dmono_sput. unfold b_set_global; simpl. rewrite length_replace_last. lia.
Qed.

(* operations on the other components: the same update in both worlds *)
Lemma R2_update {A} (fa : st -> res A) (u : st -> st) :
  (forall s, store (u s) = store s /\ glog (u s) = glog s) ->
  (forall s1 s2, same_rest s1 s2 -> fa s1 = fa s2 /\ same_rest (u s1) (u s2)) ->
  R2 (fun s => (fa s, u s)) (fun s => (fa s, u s)).
Proof.
  intros Hu Hr. split.
  - intros s r s' H _. inversion H; subst. exists []. simpl. apply (proj2 (Hu s)).
  - intros s1 s2 r s1' [HR HS] Hw H _ _. inversion H; subst. exists (u s2).
    assert (Hg : forall s k, sget (u s) k = sget s k) by (intros s k; unfold sget; rewrite (proj1 (Hu s)); reflexivity).
    destruct (Hr _ _ HR) as [Ea Eu].
    split; [rewrite Ea; reflexivity|]. split; [split; [assumption|intros k; rewrite !Hg; apply HS]|].
    split; [intros k; rewrite Hg; apply Hw|intros k; unfold depth; rewrite Hg; lia].
Qed.

Ltac same_rest_tac :=
  let E1 := fresh in let E2 := fresh in let E3 := fresh in let E4 := fresh in let E5 := fresh in
  let E6 := fresh in let E7 := fresh in let E8 := fresh in let E9 := fresh in let E10 := fresh in
  intros ? ? (E1 & E2 & E3 & E4 & E5 & E6 & E7 & E8 & E9 & E10);
  unfold same_rest; simpl; rewrite ?E1, ?E2, ?E3, ?E4, ?E5, ?E6, ?E7, ?E8, ?E9, ?E10;
  repeat split; try reflexivity.

Lemma fresh_id_R2 : R2 fresh_id fresh_id.
Proof.
  apply (R2_update (fun s => Ok (next_id s))
           (fun s => {| store := store s; next_id := Pos.succ (next_id s); log := log s;
                        steps := steps s; fail_at := fail_at s; htabs := htabs s; flags := flags s;
                        files := files s; nfiles := nfiles s; mlog := mlog s; glog := glog s |})).
  - intros s. split; reflexivity.
  - same_rest_tac.
Qed.

Lemma set_flags_R2 n : R2 (set_flags n) (set_flags n).
Proof.
  unfold set_flags.
  apply (R2_update (fun _ => Ok tt)
           (fun s => {| store := store s; next_id := next_id s; log := log s; steps := steps s;
               fail_at := fail_at s; htabs := htabs s;
               flags := {| t_interned := t_interned (flags s) || text_eqb n name_t;
                           nil_interned := nil_interned (flags s) || text_eqb n name_nil |};
               files := files s; nfiles := nfiles s; mlog := mlog s; glog := glog s |})).
  - intros s. split; reflexivity.
  - same_rest_tac.
Qed.

Lemma ht_store_R2 h l : R2 (ht_store h l) (ht_store h l).
Proof.
  unfold ht_store.
  apply (R2_update (fun _ => Ok tt)
           (fun s => {| store := store s; next_id := next_id s; log := log s; steps := steps s;
               fail_at := fail_at s; htabs := PositiveMap.add h l (htabs s);
               flags := flags s; files := files s; nfiles := nfiles s; mlog := mlog s; glog := glog s |})).
  - intros s. split; reflexivity.
  - same_rest_tac.
Qed.

Lemma ht_get_tab_R2 tb : R2 (ht_get_tab tb) (ht_get_tab tb).
Proof.
  unfold ht_get_tab. destruct tb; try apply R2_fail. destruct h; [|apply R2_fail].
  apply R2_read.
  - intros s. destruct (PositiveMap.find p (htabs s)); eexists; reflexivity.
  - intros s1 s2 [(E1 & E2 & E3 & E4 & E5 & _) _] _. rewrite E5.
    destruct (PositiveMap.find p (htabs s2)); reflexivity.
Qed.

Lemma find_file_R2 n : R2 (find_file n) (find_file n).
Proof.
  split.
  - intros s r s' H _. unfold find_file in H. destruct (find _ (files s)); inversion H; subst;
      [exists []; reflexivity|apply gsuffix_refl].
  - intros s1 s2 r s1' [HR HS] Hw H _ _. unfold find_file in *.
    pose proof HR as (E1 & E2 & E3 & E4 & E5 & E6 & E7 & E8 & E9 & E10).
    destruct (find (fun p => text_eqb (fst p) n) (files s1)) as [p|] eqn:Ef.
    + assert (Ef2 : find (fun p => text_eqb (fst p) n) (files s2) = Some p) by (rewrite <- E7; exact Ef).
      rewrite Ef2. inversion H; subst. eexists. split; [reflexivity|]. split; [split|].
      * unfold same_rest; simpl. rewrite E1, E2, E3, E4, E5, E6, E7, E8, E9, E10. repeat split; reflexivity.
      * intros k. apply HS.
      * split; [intros k; apply Hw|intros k; unfold depth, sget; simpl; lia].
    + assert (Ef2 : find (fun p => text_eqb (fst p) n) (files s2) = None) by (rewrite <- E7; exact Ef).
      rewrite Ef2. inversion H; subst. exists s2. split; [reflexivity|].
      split; [split; assumption|]. split; [assumption|apply dmono_refl].
Qed.

Lemma R2_ext {A} (m1 m2 m1' m2' : M A) :
  (forall s, m1 s = m1' s) -> (forall s, m2 s = m2' s) -> R2 m1' m2' -> R2 m1 m2.
Proof.
  intros E1 E2 [Gm Hm]. split.
  - intros s r s' H Hr. rewrite E1 in H. eapply Gm; eassumption.
  - intros s1 s2 r s1' HS Hw H Hr Hq. rewrite E1 in H.
    destruct (Hm _ _ _ _ HS Hw H Hr Hq) as (s2' & E & K). exists s2'. rewrite E2. auto.
Qed.

Lemma do_tick_R2 F id v : R2 (do_tick F id v) (do_tick F id v).
Proof.
  set (fa := fun s : st => match fail_at s with
                           | Some k => if N.eqb k (N.succ (steps s)) then Err EHost else Ok v
                           | None => Ok v end).
  set (u := fun s : st => {| store := store s; next_id := next_id s;
                 log := (match id with Int z => z | _ => 0%Z end, print F v) :: log s;
                 steps := N.succ (steps s); fail_at := fail_at s; htabs := htabs s; flags := flags s;
                 files := files s; nfiles := nfiles s; mlog := mlog s; glog := glog s |}).
  assert (E : forall s, do_tick F id v s = (fa s, u s)).
  { intros s. unfold do_tick, fa, u. destruct (fail_at s) as [k|]; [|reflexivity].
    destruct (N.eqb k (N.succ (steps s))); reflexivity. }
  apply (R2_ext _ _ (fun s => (fa s, u s)) (fun s => (fa s, u s)) E E).
  apply R2_update.
  - intros s. split; reflexivity.
  - unfold fa, u. same_rest_tac.
Qed.

Lemma note_defmacro_R2 x : R2 (note_defmacro x) (note_defmacro x).
Proof.
  unfold note_defmacro.
  apply (R2_update (fun _ => Ok tt)
           (fun s => {| store := store s; next_id := next_id s; log := log s;
               steps := steps s; fail_at := fail_at s; htabs := htabs s;
               flags := flags s; files := files s; nfiles := nfiles s;
               mlog := match key_of x with Some k => k :: mlog s | None => mlog s end;
               glog := glog s |})).
  - intros s. split; reflexivity.
  - same_rest_tac.
Qed.

(* ---- temporary bindings: pushed and popped in both worlds -------------------- *)
Definition LB (pend : list key) (s0 s : st) : Prop :=
  forall k, depth s0 k + cnt pend k <= depth s k.

Lemma LB_dmono pend s0 s s' : LB pend s0 s -> dmono s s' -> LB pend s0 s'.
Proof. intros H D k. specialize (H k). specialize (D k). lia. Qed.

Lemma G_unbind_all : forall syms, G (unbind_all syms).
Proof.
  induction syms as [|x syms IH]; intros s r s' H Hr; simpl in H.
  - inversion H; subst. apply gsuffix_refl.
  - unfold bind, sym_unset in H. destruct (key_of x) as [k|]; [|inversion H; subst; apply gsuffix_refl].
    destruct (b_unset (sget s k)); [|inversion H; subst; apply gsuffix_refl].
    eapply gsuffix_trans; [apply (gsuffix_sput s k b)|]. eapply IH; eassumption.
Qed.

Lemma pop_both s1 s2 x k : SR s1 s2 -> wf s2 -> key_of x = Some k ->
  (trk k -> hf k + 2 <= depth s2 k) -> 1 <= depth s2 k ->
  exists b2, sym_unset x s1 = (Ok tt, sput s1 k (insb k b2)) /\
             sym_unset x s2 = (Ok tt, sput s2 k b2) /\ wfk k b2 /\
             List.length (bitems b2) + 1 = depth s2 k.
Proof.
  intros HS Hw Ek Hh Hd. unfold sym_unset. rewrite Ek. unfold b_unset.
  rewrite (S_sget _ _ k HS), (insb_top k _ (Hw k)). unfold depth in *.
  destruct (bitems (sget s2 k)) as [|x0 r] eqn:Eb; [simpl in Hd; lia|].
  exists {| has_global := has_global (sget s2 k); bitems := r |}.
  split; [reflexivity|]. split; [reflexivity|]. split; [|simpl; lia].
  intros Hne. specialize (Hh Hne). simpl in Hh. destruct (Hw k Hne) as [_ H2]. simpl. split; [lia|assumption].
Qed.

Lemma unbind_all_both : forall syms rest s0 s1 s2,
  Forall has_key syms -> SR s1 s2 -> wf s2 -> wf s0 -> LB (keys syms ++ rest) s0 s2 ->
  exists s1' s2', unbind_all syms s1 = (Ok tt, s1') /\ unbind_all syms s2 = (Ok tt, s2') /\
                  SR s1' s2' /\ wf s2' /\ LB rest s0 s2'.
Proof.
  induction syms as [|x syms IH]; intros rest s0 s1 s2 Hk HS Hw Hw0 HL.
  - exists s1, s2. simpl in *. auto.
  - inversion Hk as [|? ? Hx Hk']; subst. unfold has_key in Hx.
    destruct (key_of x) as [k|] eqn:Ek; [|congruence].
    assert (Ekeys : keys (x :: syms) = k :: keys syms) by (unfold keys; simpl; rewrite Ek; reflexivity).
    rewrite Ekeys in HL. pose proof (HL k) as HLk. change ((k :: keys syms) ++ rest) with (k :: (keys syms ++ rest)) in HLk. rewrite cnt_cons_same in HLk.
    destruct (pop_both s1 s2 x k HS Hw Ek) as (b2 & E1 & E2 & Wb & Lb).
    { intros Hne. destruct (Hw0 k Hne) as [H1 _]. unfold depth in *. lia. }
    { lia. }
    simpl. unfold bind. rewrite E1, E2.
    apply IH; try assumption.
    + apply S_sput. assumption.
    + apply wf_sput; assumption.
    + intros k'. specialize (HL k'). change ((k :: keys syms) ++ rest) with (k :: (keys syms ++ rest)) in HL.
      destruct (Pos.eq_dec k k') as [<-|N].
      * rewrite depth_sput_same. rewrite cnt_cons_same in HL. lia.
      * rewrite depth_sput_other by assumption. rewrite cnt_cons_other in HL by assumption. lia.
Qed.

Lemma G_bind_all : forall ps vs done, G (bind_all ps vs done).
Proof.
  induction ps as [|p ps IH]; intros vs done s r s' H Hr; destruct vs as [|v vs]; simpl in H;
    try (inversion H; subst; apply gsuffix_refl).
  unfold catch in H. destruct (sym_set_scope p v s) as [r1 s1] eqn:E.
  destruct (sym_set_scope_spec _ _ _ _ _ E) as [(-> & k & Ek & ->)|(e & -> & ->)].
  - eapply gsuffix_trans; [apply gsuffix_sput|]. eapply IH; eassumption.
  - unfold bind in H. destruct (unbind_all done s) as [r2 s2] eqn:Eu.
    destruct r2; inversion H; subst; try congruence;
      (eapply G_unbind_all; [eassumption|discriminate]).
Qed.

Lemma sym_set_scope_both s1 s2 p v r s1' : SR s1 s2 -> wf s2 ->
  sym_set_scope p v s1 = (r, s1') ->
  (r = Ok tt /\ exists k, key_of p = Some k /\
     s1' = sput s1 k (b_set_scope (sget s1 k) v) /\
     sym_set_scope p v s2 = (Ok tt, sput s2 k (b_set_scope (sget s2 k) v)) /\
     SR s1' (sput s2 k (b_set_scope (sget s2 k) v)) /\ wf (sput s2 k (b_set_scope (sget s2 k) v))) \/
  (exists e, r = Err e /\ s1' = s1 /\ sym_set_scope p v s2 = (Err e, s2)).
Proof.
  intros HS Hw H. unfold sym_set_scope, with_key in *.
  destruct (key_of p) as [k|]; [|inversion H; subst; right; eauto].
  destruct (is_constant p); [inversion H; subst; right; eauto|].
  inversion H; subst. left. split; [reflexivity|]. exists k. split; [reflexivity|]. split; [reflexivity|].
  split; [reflexivity|]. destruct (b_scope_ins k (sget s2 k) v (Hw k)) as [E W].
  split; [rewrite (S_sget _ _ k HS), <- E; apply S_sput; assumption|apply wf_sput; assumption].
Qed.

Lemma LB_push pend s0 s k b x : key_of x = Some k ->
  List.length (bitems b) = 1 + depth s k -> LB (keys pend) s0 s -> LB (keys (pend ++ [x])) s0 (sput s k b).
Proof.
  intros Ek Hl HL k'. specialize (HL k'). rewrite keys_app, cnt_app.
  assert (E : keys [x] = [k]) by (unfold keys; simpl; rewrite Ek; reflexivity). rewrite E.
  destruct (Pos.eq_dec k k') as [<-|N].
  - rewrite depth_sput_same, cnt_cons_same. change (cnt [] k) with 0. lia.
  - rewrite depth_sput_other, cnt_cons_other by assumption. change (cnt [] k') with 0. lia.
Qed.

Lemma bind_all_both : forall ps vs done s0 s1 s2 r s1',
  List.length vs = List.length ps -> Forall has_key done ->
  SR s1 s2 -> wf s2 -> wf s0 -> LB (keys done) s0 s2 ->
  bind_all ps vs done s1 = (r, s1') ->
  exists s2', bind_all ps vs done s2 = (r, s2') /\ SR s1' s2' /\ wf s2' /\
    match r with
    | Ok _ => Forall has_key (done ++ ps) /\ LB (keys (done ++ ps)) s0 s2'
    | _ => LB [] s0 s2'
    end.
Proof.
  induction ps as [|p ps IH]; intros vs done s0 s1 s2 r s1' Hl Hk HS Hw Hw0 HL H.
  - destruct vs; [|discriminate]. simpl in H. inversion H; subst. exists s2.
    rewrite app_nil_r. simpl. auto.
  - destruct vs as [|v vs]; [discriminate|]. simpl in H |- *. unfold catch in *.
    destruct (sym_set_scope p v s1) as [r1 sa] eqn:E.
    destruct (sym_set_scope_both _ _ _ _ _ _ HS Hw E) as [(-> & k & Ek & -> & E2 & HS2 & Hw2)|(e & -> & -> & E2)].
    + rewrite E2.
      replace (done ++ p :: ps) with ((done ++ [p]) ++ ps) by (rewrite <- app_assoc; reflexivity).
      eapply (IH vs (done ++ [p])); try eassumption; [simpl in Hl; lia| |].
      * apply Forall_app; split; [assumption|]. constructor; [unfold has_key; congruence|constructor].
      * apply LB_push; [assumption|unfold b_set_scope; simpl; reflexivity|assumption].
    + rewrite E2.
      assert (HL' : LB (keys done ++ []) s0 s2) by (rewrite app_nil_r; assumption).
      destruct (unbind_all_both done [] s0 s1 s2 Hk HS Hw Hw0 HL') as (sa1 & sa2 & U1 & U2 & HS2 & Hw2 & HL2).
      unfold bind in *. rewrite U1 in H. rewrite U2. inversion H; subst. exists sa2. auto.
Qed.

(* ---- the evaluator in both worlds --------------------------------------------- *)
Section Rel2.
Variable F : fops.
Variables rec1 rec2 : task -> M sx.
Variables load1 load2 : text -> M sx.
Hypothesis Hrec : forall t, R2 (rec1 t) (rec2 t).
Hypothesis Hload : forall t, R2 (load1 t) (load2 t).

Ltac r2_special := fail.
Ltac r2 :=
  repeat first
    [ r2_special
    | match goal with
      | |- R2 (ret _) _ => apply R2_ret
      | |- R2 (fail _) _ => apply R2_fail
      | |- R2 (panic _) _ => apply R2_panic
      | |- R2 (lift _) _ => apply R2_lift
      | |- R2 (bind _ _) _ => apply R2_bind; [ | intros ? ]
      | |- R2 (match ?x with _ => _ end) (match ?x with _ => _ end) =>
          tryif has_fix then fail else destruct x
      | |- R2 (if ?x then _ else _) (if ?x then _ else _) => destruct x
      end
    | solve [auto with r2] ].

Lemma ev_R2 x : R2 (ev rec1 x) (ev rec2 x). Proof. apply Hrec. Qed.
Lemma call_R2 e f a : R2 (call rec1 e f a) (call rec2 e f a). Proof. apply Hrec. Qed.
Lemma expand_R2 x : R2 (expand rec1 x) (expand rec2 x). Proof. apply Hrec. Qed.
Lemma rec_R2 t : R2 (rec1 t) (rec2 t). Proof. apply Hrec. Qed.
Hint Resolve ev_R2 call_R2 expand_R2 rec_R2 : r2.
Hint Extern 1 (R2 (load1 _) _) => apply Hload : r2.
Hint Extern 1 (R2 (sym_get _) _) => apply sym_get_R2 : r2.
Hint Extern 1 (R2 (sym_set _ _) _) => apply sym_set_R2 : r2.
Hint Extern 1 (R2 (sym_set_global _ _) _) => apply sym_set_global_R2 : r2.
Hint Extern 1 (R2 (sym_set_scope _ _) _) => apply sym_set_scope_R2 : r2.
Hint Extern 1 (R2 (sym_set_unchecked _ _) _) => apply sym_set_unchecked_R2 : r2.
Hint Extern 1 (R2 (sym_boundp _) _) => apply sym_boundp_R2 : r2.
Hint Extern 1 (R2 (lex_bound _) _) => apply lex_bound_R2 : r2.
Hint Extern 1 (R2 fresh_id _) => apply fresh_id_R2 : r2.
Hint Extern 1 (R2 (set_flags _) _) => apply set_flags_R2 : r2.
Hint Extern 1 (R2 (ht_store _ _) _) => apply ht_store_R2 : r2.
Hint Extern 1 (R2 (ht_get_tab _) _) => apply ht_get_tab_R2 : r2.
Hint Extern 1 (R2 (find_file _) _) => apply find_file_R2 : r2.
Hint Extern 1 (R2 (do_tick _ _ _) _) => apply do_tick_R2 : r2.
Hint Extern 1 (R2 (note_defmacro _) _) => apply note_defmacro_R2 : r2.

Lemma eval_progn_l_R2 : forall l last, R2 (eval_progn_l rec1 l last) (eval_progn_l rec2 l last).
Proof. induction l as [|x l IH]; intros; simpl; r2. Qed.
Hint Resolve eval_progn_l_R2 : r2.
Lemma eval_progn_R2 b : R2 (eval_progn rec1 b) (eval_progn rec2 b).
Proof. unfold eval_progn. r2. Qed.
Hint Resolve eval_progn_R2 : r2.
Lemma eval_each_R2 : forall l, R2 (eval_each rec1 l) (eval_each rec2 l).
Proof. induction l as [|x l IH]; simpl; r2. Qed.
Hint Resolve eval_each_R2 : r2.
Lemma arg_req_R2 e a : R2 (arg_req rec1 e a) (arg_req rec2 e a).
Proof. unfold arg_req. r2. Qed.
Lemma arg_opt_R2 e a : R2 (arg_opt rec1 e a) (arg_opt rec2 e a).
Proof. unfold arg_opt. r2. Qed.
Lemma arg_rest_R2 e a : R2 (arg_rest rec1 e a) (arg_rest rec2 e a).
Proof. unfold arg_rest. r2. Qed.
Hint Resolve arg_req_R2 arg_opt_R2 arg_rest_R2 : r2.
Lemma zip_args_R2 e : forall ps args, R2 (zip_args rec1 e ps args) (zip_args rec2 e ps args).
Proof. induction ps as [|p ps IH]; intros args; simpl; r2. Qed.
Hint Resolve zip_args_R2 : r2.

(* G (the global-slot log only grows) composes *)
Lemma G_lift {A} (x : res A) : G (lift x).
Proof. intros s r s' H _. inversion H; subst. apply gsuffix_refl. Qed.
Lemma G_bind {A B} (m : M A) (f : A -> M B) : G m -> (forall a, G (f a)) -> G (bind m f).
Proof.
  intros Gm Gf s r s' H Hr. unfold bind in H. destruct (m s) as [r1 sm] eqn:E1.
  destruct r1 as [a|e|n|]; try (inversion H; subst; apply (Gm _ _ _ E1); discriminate).
  - eapply gsuffix_trans; [apply (Gm _ _ _ E1); discriminate|apply (Gf a _ _ _ H Hr)].
  - inversion H; subst. congruence.
Qed.
Lemma G_catch {A B} (m : M A) (k : res A -> M B) : G m -> (forall r, G (k r)) -> G (catch m k).
Proof.
  intros Gm Gk s r s' H Hr. unfold catch in H. destruct (m s) as [r1 sm] eqn:E1.
  assert (Hr1 : r1 <> Fuel) by (intros ->; inversion H; subst; congruence).
  assert (H' : k r1 sm = (r, s')) by (destruct r1; auto; congruence).
  eapply gsuffix_trans; [apply (Gm _ _ _ E1 Hr1)|apply (Gk r1 _ _ _ H' Hr)].
Qed.

Definition pointwise {A} (m1 m2 : M A) (sm sm2 : st) : Prop :=
  forall r s1', SR sm sm2 -> wf sm2 -> m1 sm = (r, s1') -> r <> Fuel -> quiet sm s1' ->
    exists s2', m2 sm2 = (r, s2') /\ SR s1' s2' /\ wf s2' /\ dmono sm2 s2'.

Lemma R2_bind_pt {A B} (m1 m2 : M A) (f1 f2 : A -> M B) :
  R2 m1 m2 -> (forall a, G (f1 a)) ->
  (forall a s sm, m1 s = (Ok a, sm) -> forall sm2, pointwise (f1 a) (f2 a) sm sm2) ->
  R2 (bind m1 f1) (bind m2 f2).
Proof.
  intros [Gm Hm] Gf Hf. split; [apply G_bind; assumption|].
  intros s1 s2 r s1' HS Hw H Hr Hq. unfold bind in H.
  destruct (m1 s1) as [r1 sm] eqn:E1.
  destruct r1 as [a|e|n|].
  - assert (G1 : gsuffix s1 sm) by (apply (Gm _ _ _ E1); discriminate).
    assert (G2 : gsuffix sm s1') by (apply (Gf a _ _ _ H Hr)).
    destruct (quiet_split _ _ _ G1 G2 Hq) as [Q1 Q2].
    destruct (Hm _ _ _ _ HS Hw E1 ltac:(discriminate) Q1) as (sm2 & E2 & HS2 & Hw2 & D2).
    destruct (Hf a s1 sm E1 sm2 r s1' HS2 Hw2 H Hr Q2) as (s2' & E3 & HS3 & Hw3 & D3).
    exists s2'. unfold bind. rewrite E2.
    split; [assumption|split; [assumption|split; [assumption|eapply dmono_trans; eassumption]]].
  - inversion H; subst. destruct (Hm _ _ _ _ HS Hw E1 ltac:(discriminate) Hq) as (sm2 & E2 & K).
    exists sm2. unfold bind. rewrite E2. auto.
  - inversion H; subst. destruct (Hm _ _ _ _ HS Hw E1 ltac:(discriminate) Hq) as (sm2 & E2 & K).
    exists sm2. unfold bind. rewrite E2. auto.
  - inversion H; subst. congruence.
Qed.

(* bind the parameters, run the body, unbind: in both worlds *)
Definition bracket (rec : task -> M sx) (syms vs : list sx) (body : sx) : M sx :=
  bind (bind_all syms vs [])
       (fun _ => catch (eval_progn rec body) (fun r => bind (unbind_all syms) (fun _ => lift r))).

Lemma bracket_G syms vs body : G (bracket rec1 syms vs body).
Proof.
  unfold bracket. apply G_bind; [apply G_bind_all|]. intros _.
  apply G_catch; [apply (proj1 (eval_progn_R2 body))|]. intros r.
  apply G_bind; [apply G_unbind_all|intros; apply G_lift].
Qed.

Lemma bracket_pt syms vs body sm sm2 : List.length vs = List.length syms ->
  pointwise (bracket rec1 syms vs body) (bracket rec2 syms vs body) sm sm2.
Proof.
  intros Hl r s1' HS Hw H Hr Hq. unfold bracket in *. unfold bind at 1 in H. unfold bind at 1.
  destruct (bind_all syms vs [] sm) as [rb sb] eqn:Eb.
  assert (HL0 : LB (keys []) sm2 sm2) by (intros k; change (cnt (keys []) k) with 0; lia).
  destruct (bind_all_both syms vs [] sm2 sm sm2 rb sb Hl (Forall_nil _) HS Hw Hw HL0 Eb)
    as (sb2 & Eb2 & HSb & Hwb & Post).
  rewrite Eb2.
  assert (Gb : gsuffix sm sb).
  { destruct rb; try (eapply G_bind_all; [eassumption|discriminate]).
    inversion H; subst. congruence. }
  destruct rb as [u|e|n|].
  - (* bound: run the body, then unbind *)
    destruct Post as [Hk HL]. simpl in Hk, HL.
    unfold catch in *. destruct (eval_progn rec1 body sb) as [r1 sc] eqn:Ec.
    assert (Hr1 : r1 <> Fuel) by (intros ->; inversion H; subst; congruence).
    assert (Gc : gsuffix sb sc) by (apply (proj1 (eval_progn_R2 body) _ _ _ Ec Hr1)).
    assert (H' : bind (unbind_all syms) (fun _ => lift r1) sc = (r, s1'))
      by (destruct r1; auto; congruence).
    assert (Gu : gsuffix sc s1').
    { unfold bind in H'. destruct (unbind_all syms sc) as [ru su] eqn:Eu.
      destruct ru; inversion H'; subst; try congruence; eapply G_unbind_all; try eassumption; discriminate. }
    destruct (quiet_split _ _ _ Gb (gsuffix_trans _ _ _ Gc Gu) Hq) as [Q1 Q23].
    destruct (quiet_split _ _ _ Gc Gu Q23) as [Q2 Q3].
    destruct (proj2 (eval_progn_R2 body) _ _ _ _ HSb Hwb Ec Hr1 Q2) as (sc2 & Ec2 & HSc & Hwc & Dc).
    rewrite Ec2.
    assert (HLc : LB (keys syms ++ []) sm2 sc2) by (rewrite app_nil_r; eapply LB_dmono; eassumption).
    destruct (unbind_all_both syms [] sm2 sc sc2 Hk HSc Hwc Hw HLc) as (su1 & su2 & U1 & U2 & HSu & Hwu & HLu).
    unfold bind in H'. rewrite U1 in H'. inversion H'; subst.
    exists su2. split; [destruct r; try congruence; unfold bind; rewrite U2; reflexivity|].
    split; [assumption|]. split; [assumption|].
    intros k. specialize (HLu k). change (cnt [] k) with 0 in HLu. lia.
  - inversion H; subst. exists sb2. split; [reflexivity|]. split; [assumption|]. split; [assumption|].
    intros k. specialize (Post k). change (cnt [] k) with 0 in Post. lia.
  - inversion H; subst. exists sb2. split; [reflexivity|]. split; [assumption|]. split; [assumption|].
    intros k. specialize (Post k). change (cnt [] k) with 0 in Post. lia.
  - inversion H; subst. congruence.
Qed.

Lemma eval_function_R2 e ps body args :
  R2 (eval_function rec1 e ps body args) (eval_function rec2 e ps body args).
Proof.
  unfold eval_function. apply R2_bind; [r2|]. intros pl.
  apply R2_bind_pt; [r2| |].
  - intros [vs rest]. destruct rest; [apply bracket_G|apply (proj1 (R2_fail EType))].
  - intros [vs rest] s sm Hz sm2. destruct rest.
    + apply bracket_pt. rewrite map_length. eapply zip_args_len; eassumption.
    + intros r s1' HS Hw H _ _. inversion H; subst. exists sm2.
      split; [reflexivity|]. split; [assumption|]. split; [assumption|apply dmono_refl].
Qed.
Hint Resolve eval_function_R2 : r2.


(* dolist / dotimes: bind one variable, run, unbind *)
Lemma loop_bracket2 var v (body1 body2 : M sx) : R2 body1 body2 ->
  R2 (bind (sym_set_scope var v)
           (fun _ => catch body1 (fun r => bind (sym_unset var) (fun _ => lift r))))
     (bind (sym_set_scope var v)
           (fun _ => catch body2 (fun r => bind (sym_unset var) (fun _ => lift r)))).
Proof.
  intros [Gb Hb]. split.
  - apply G_bind; [apply (proj1 (sym_set_scope_R2 var v))|]. intros _.
    apply G_catch; [assumption|]. intros r. apply G_bind; [|intros; apply G_lift].
    intros s r0 s' H _. unfold sym_unset in H. destruct (key_of var); [|inversion H; subst; apply gsuffix_refl].
    destruct (b_unset (sget s k)); inversion H; subst; [apply gsuffix_sput|apply gsuffix_refl].
  - intros s1 s2 r s1' HS Hw H Hr Hq. unfold bind at 1 in H. unfold bind at 1.
    destruct (sym_set_scope var v s1) as [r1 sa] eqn:E.
    destruct (sym_set_scope_both _ _ _ _ _ _ HS Hw E) as [(-> & k & Ek & -> & E2 & HS2 & Hw2)|(e & -> & -> & E2)].
    + rewrite E2. set (sa1 := sput s1 k (b_set_scope (sget s1 k) v)) in *.
      set (sa2 := sput s2 k (b_set_scope (sget s2 k) v)) in *.
      unfold catch in *. destruct (body1 sa1) as [rb sb] eqn:Eb.
      assert (Hrb : rb <> Fuel) by (intros ->; inversion H; subst; congruence).
      assert (H' : bind (sym_unset var) (fun _ => lift rb) sb = (r, s1')) by (destruct rb; auto; congruence).
      assert (G1 : gsuffix s1 sa1) by apply gsuffix_sput.
      assert (G2 : gsuffix sa1 sb) by (apply (Gb _ _ _ Eb Hrb)).
      assert (G3 : gsuffix sb s1').
      { unfold bind, sym_unset in H'. rewrite Ek in H'. destruct (b_unset (sget sb k)).
        - destruct rb; inversion H'; subst; try congruence; apply gsuffix_sput.
        - inversion H'; subst. apply gsuffix_refl. }
      destruct (quiet_split _ _ _ G1 (gsuffix_trans _ _ _ G2 G3) Hq) as [Q1 Q23].
      destruct (quiet_split _ _ _ G2 G3 Q23) as [Q2 Q3].
      destruct (Hb _ _ _ _ HS2 Hw2 Eb Hrb Q2) as (sb2 & Eb2 & HSb & Hwb & Db).
      rewrite Eb2.
      assert (Hd : depth s2 k + 1 <= depth sb2 k).
      { specialize (Db k). unfold sa2 in Db. rewrite depth_sput_same in Db.
        unfold b_set_scope in Db; simpl in Db. unfold depth in *. lia. }
      destruct (pop_both sb sb2 var k HSb Hwb Ek) as (b2 & U1 & U2 & Wb & Lb).
      { intros Hne. destruct (Hw k Hne) as [H1 _]. unfold depth in *. lia. }
      { lia. }
      unfold bind in H'. rewrite U1 in H'. inversion H'; subst.
      exists (sput sb2 k b2).
      split; [destruct r; try congruence; unfold bind; rewrite U2; reflexivity|].
      split; [apply S_sput; assumption|]. split; [apply wf_sput; assumption|].
      intros k'. destruct (Pos.eq_dec k k') as [<-|N].
      * rewrite depth_sput_same. lia.
      * rewrite depth_sput_other by assumption. specialize (Db k'). unfold sa2 in Db.
        rewrite depth_sput_other in Db by assumption. exact Db.
    + rewrite E2. inversion H; subst. exists s2.
      split; [reflexivity|]. split; [assumption|]. split; [assumption|apply dmono_refl].
Qed.


(* let / let*: initialisers evaluated and bound in turn *)
Lemma G_let_bind : forall vars bound, G (let_bind rec1 vars bound).
Proof.
  induction vars as [|v vars IH]; intros bound; cbn [let_bind]; [apply (proj1 (R2_ret bound))|].
  assert (GF : forall e, G (bind (unbind_all bound) (fun _ => @fail (list sx) e)))
    by (intros e; apply G_bind; [apply G_unbind_all|intros; apply (proj1 (R2_fail e))]).
  assert (GH : forall name (m : M unit), G m ->
            G (catch m (fun o => match o with
                                 | Ok _ => let_bind rec1 vars (bound ++ [name])
                                 | Err e => bind (unbind_all bound) (fun _ => fail e)
                                 | Panic n => panic n | Fuel => lift Fuel end))).
  { intros name m Gm. apply G_catch; [assumption|]. intros o. destruct o as [u|e|n0|]; auto.
    - apply (proj1 (R2_panic n0)). - apply G_lift. }
  destruct (symbolp v); [apply GH; apply (proj1 (sym_set_scope_R2 v Nil))|].
  destruct v; auto. destruct v2; auto.
  - destruct (null v1); [auto|]. destruct (negb (null Nil)); [auto|].
    apply GH. apply G_bind; [apply (proj1 (ev_R2 Nil))|intros; apply (proj1 (sym_set_scope_R2 _ _))].
  - destruct (null v1); [auto|]. destruct (negb (null v2_2)); [auto|].
    apply GH. apply G_bind; [apply (proj1 (ev_R2 _))|intros; apply (proj1 (sym_set_scope_R2 _ _))].
Qed.

Definition let_post2 (s0 : st) (r : res (list sx)) (s2' : st) : Prop :=
  match r with
  | Ok b' => Forall has_key b' /\ LB (keys b') s0 s2'
  | _ => LB [] s0 s2'
  end.

Lemma fail_with_both {A} bound e s0 s1 s2 : Forall has_key bound -> SR s1 s2 -> wf s2 -> wf s0 ->
  LB (keys bound) s0 s2 ->
  exists s1' s2', bind (unbind_all bound) (fun _ => @fail A e) s1 = (Err e, s1') /\
                  bind (unbind_all bound) (fun _ => @fail A e) s2 = (Err e, s2') /\
                  SR s1' s2' /\ wf s2' /\ LB [] s0 s2'.
Proof.
  intros Hk HS Hw Hw0 HL.
  assert (HL' : LB (keys bound ++ []) s0 s2) by (rewrite app_nil_r; assumption).
  destruct (unbind_all_both bound [] s0 s1 s2 Hk HS Hw Hw0 HL') as (sa1 & sa2 & U1 & U2 & HS2 & Hw2 & HL2).
  exists sa1, sa2. unfold bind. rewrite U1, U2. auto.
Qed.

(* one step of the let loop: a computation that ends by binding [name] *)
Definition step_ok (bound : list sx) (s0 : st) (name : sx) (m1 m2 : M unit) : Prop :=
  G m1 /\
  forall s1 s2 rm sb1, SR s1 s2 -> wf s2 -> LB (keys bound) s0 s2 ->
    m1 s1 = (rm, sb1) -> rm <> Fuel -> quiet s1 sb1 ->
    exists sb2, m2 s2 = (rm, sb2) /\ SR sb1 sb2 /\ wf sb2 /\
      match rm with
      | Ok _ => has_key name /\ LB (keys (bound ++ [name])) s0 sb2
      | _ => LB (keys bound) s0 sb2
      end.

Lemma bind_name_ok bound s0 name val : step_ok bound s0 name (sym_set_scope name val) (sym_set_scope name val).
Proof.
  split; [apply (proj1 (sym_set_scope_R2 name val))|].
  intros s1 s2 rm sb1 HS Hw HL E _ _.
  destruct (sym_set_scope_both _ _ _ _ _ _ HS Hw E) as [(-> & k & Ek & -> & E2 & HS2 & Hw2)|(e & -> & -> & E2)].
  - eexists. split; [exact E2|]. split; [assumption|]. split; [assumption|].
    split; [unfold has_key; congruence|].
    apply LB_push; [assumption|unfold b_set_scope; simpl; reflexivity|assumption].
  - exists s2. auto.
Qed.

Lemma eval_bind_name_ok bound s0 name value :
  step_ok bound s0 name (bind (ev rec1 value) (fun val => sym_set_scope name val))
                        (bind (ev rec2 value) (fun val => sym_set_scope name val)).
Proof.
  split; [apply G_bind; [apply (proj1 (ev_R2 value))|intros; apply (proj1 (sym_set_scope_R2 _ _))]|].
  intros s1 s2 rm sb1 HS Hw HL E Hrm Hq. unfold bind in E |- *.
  destruct (ev rec1 value s1) as [rv sv] eqn:Ev.
  assert (Hrv : rv <> Fuel) by (intros ->; inversion E; subst; congruence).
  assert (Gv : gsuffix s1 sv) by (apply (proj1 (ev_R2 value) _ _ _ Ev Hrv)).
  destruct rv as [val|e|n|]; try congruence.
  - assert (Gs : gsuffix sv sb1) by (apply (proj1 (sym_set_scope_R2 name val) _ _ _ E Hrm)).
    destruct (quiet_split _ _ _ Gv Gs Hq) as [Q1 Q2].
    destruct (proj2 (ev_R2 value) _ _ _ _ HS Hw Ev Hrv Q1) as (sv2 & Ev2 & HSv & Hwv & Dv).
    rewrite Ev2.
    apply (proj2 (bind_name_ok bound s0 name val) sv sv2 rm sb1 HSv Hwv (LB_dmono _ _ _ _ HL Dv) E Hrm Q2).
  - inversion E; subst.
    destruct (proj2 (ev_R2 value) _ _ _ _ HS Hw Ev Hrv Hq) as (sv2 & Ev2 & HSv & Hwv & Dv).
    rewrite Ev2. exists sv2. split; [reflexivity|]. split; [assumption|]. split; [assumption|].
    eapply LB_dmono; eassumption.
  - inversion E; subst.
    destruct (proj2 (ev_R2 value) _ _ _ _ HS Hw Ev Hrv Hq) as (sv2 & Ev2 & HSv & Hwv & Dv).
    rewrite Ev2. exists sv2. split; [reflexivity|]. split; [assumption|]. split; [assumption|].
    eapply LB_dmono; eassumption.
Qed.

Lemma let_bind_both : forall vars bound s0 s1 s2 r s1',
  Forall has_key bound -> SR s1 s2 -> wf s2 -> wf s0 -> LB (keys bound) s0 s2 ->
  let_bind rec1 vars bound s1 = (r, s1') -> r <> Fuel -> quiet s1 s1' ->
  exists s2', let_bind rec2 vars bound s2 = (r, s2') /\ SR s1' s2' /\ wf s2' /\ let_post2 s0 r s2'.
Proof.
  induction vars as [|v vars IH]; intros bound s0 s1 s2 r s1' Hk HS Hw Hw0 HL H Hr Hq.
  - simpl in *. inversion H; subst. exists s2. simpl. auto.
  - cbn [let_bind] in *.
    assert (FW : forall e, bind (unbind_all bound) (fun _ => fail e) s1 = (r, s1') ->
              exists s2', bind (unbind_all bound) (fun _ => @fail (list sx) e) s2 = (r, s2') /\
                          SR s1' s2' /\ wf s2' /\ let_post2 s0 r s2').
    { intros e He. destruct (@fail_with_both (list sx) bound e s0 s1 s2 Hk HS Hw Hw0 HL)
        as (sa1 & sa2 & E1 & E2 & HS2 & Hw2 & HL2).
      rewrite E1 in He. inversion He; subst. exists sa2. simpl. auto. }
    assert (STEP : forall name (m1 m2 : M unit), step_ok bound s0 name m1 m2 ->
       catch m1 (fun o => match o with
                          | Ok _ => let_bind rec1 vars (bound ++ [name])
                          | Err e => bind (unbind_all bound) (fun _ => fail e)
                          | Panic n => panic n | Fuel => lift Fuel end) s1 = (r, s1') ->
       exists s2', catch m2 (fun o => match o with
                          | Ok _ => let_bind rec2 vars (bound ++ [name])
                          | Err e => bind (unbind_all bound) (fun _ => fail e)
                          | Panic n => panic n | Fuel => lift Fuel end) s2 = (r, s2') /\
                   SR s1' s2' /\ wf s2' /\ let_post2 s0 r s2').
    { intros name m1 m2 [Gm Hm] Hc. unfold catch in Hc |- *.
      destruct (m1 s1) as [rm sb1] eqn:Em.
      assert (Hrm : rm <> Fuel) by (intros ->; inversion Hc; subst; congruence).
      assert (G1 : gsuffix s1 sb1) by (apply (Gm _ _ _ Em Hrm)).
      assert (Hc' : match rm with
                    | Ok _ => let_bind rec1 vars (bound ++ [name])
                    | Err e => bind (unbind_all bound) (fun _ => fail e)
                    | Panic n => panic n | Fuel => lift Fuel end sb1 = (r, s1'))
        by (destruct rm; auto; congruence).
      assert (G2 : gsuffix sb1 s1').
      { destruct rm as [u|e|n|]; try congruence.
        - eapply G_let_bind; eassumption.
        - eapply (G_bind (unbind_all bound) (fun _ => @fail (list sx) e)); try eassumption;
            [apply G_unbind_all|intros; apply (proj1 (R2_fail e))].
        - inversion Hc'; subst. apply gsuffix_refl. }
      destruct (quiet_split _ _ _ G1 G2 Hq) as [Q1 Q2].
      destruct (Hm s1 s2 rm sb1 HS Hw HL Em Hrm Q1) as (sb2 & Em2 & HSb & Hwb & Post).
      rewrite Em2.
      destruct rm as [u|e|n|]; try congruence.
      - destruct Post as [Hn HL'].
        assert (Hk' : Forall has_key (bound ++ [name]))
          by (apply Forall_app; split; [assumption|constructor; [assumption|constructor]]).
        destruct (IH (bound ++ [name]) s0 sb1 sb2 r s1' Hk' HSb Hwb Hw0 HL' Hc' Hr Q2) as (s2' & E & K).
        exists s2'. auto.
      - destruct (@fail_with_both (list sx) bound e s0 sb1 sb2 Hk HSb Hwb Hw0 Post)
          as (sa1 & sa2 & E1 & E2 & HS2 & Hw2 & HL2).
        rewrite E1 in Hc'. inversion Hc'; subst. exists sa2. simpl. auto.
      - inversion Hc'; subst. exists sb2. split; [reflexivity|]. split; [assumption|]. split; [assumption|].
        simpl. intros k. specialize (Post k). change (cnt [] k) with 0. lia. }
    destruct (symbolp v); [apply (STEP v _ _ (bind_name_ok bound s0 v Nil) H)|].
    destruct v; try (apply FW; assumption).
    destruct v2; try (apply FW; assumption).
    + destruct (null v1); [apply FW; assumption|]. cbn [null negb] in *.
      apply (STEP v1 _ _ (eval_bind_name_ok bound s0 v1 Nil) H).
    + destruct (null v1); [apply FW; assumption|].
      destruct (negb (null v2_2)); [apply FW; assumption|].
      apply (STEP v1 _ _ (eval_bind_name_ok bound s0 v1 v2_1) H).
Qed.

Lemma do_let_R2 args : R2 (do_let rec1 args) (do_let rec2 args).
Proof.
  unfold do_let. apply R2_bind; [r2|]. intros [varlist rest].
  destruct (negb (listp rest)); [r2|]. split.
  - apply G_bind; [apply G_let_bind|]. intros bound. apply G_catch; [apply (proj1 (eval_progn_R2 rest))|].
    intros r. apply G_bind; [apply G_unbind_all|intros; apply G_lift].
  - intros s1 s2 r s1' HS Hw H Hr Hq. unfold bind at 1 in H. unfold bind at 1.
    destruct (let_bind rec1 (items varlist) [] s1) as [rb sb] eqn:Eb.
    assert (Hrb : rb <> Fuel) by (intros ->; inversion H; subst; congruence).
    assert (Gb : gsuffix s1 sb) by (eapply G_let_bind; eassumption).
    assert (HL0 : LB (keys []) s2 s2) by (intros k; change (cnt (keys []) k) with 0; lia).
    destruct rb as [bound|e|n|]; try congruence.
    + unfold catch in H. destruct (eval_progn rec1 rest sb) as [r1 sc] eqn:Ec.
      assert (Hr1 : r1 <> Fuel) by (intros ->; inversion H; subst; congruence).
      assert (Gc : gsuffix sb sc) by (apply (proj1 (eval_progn_R2 rest) _ _ _ Ec Hr1)).
      assert (H' : bind (unbind_all bound) (fun _ => lift r1) sc = (r, s1')) by (destruct r1; auto; congruence).
      assert (Gu : gsuffix sc s1').
      { unfold bind in H'. destruct (unbind_all bound sc) as [ru su] eqn:Eu.
        destruct ru; inversion H'; subst; try congruence; eapply G_unbind_all; try eassumption; discriminate. }
      destruct (quiet_split _ _ _ Gb (gsuffix_trans _ _ _ Gc Gu) Hq) as [Q1 Q23].
      destruct (quiet_split _ _ _ Gc Gu Q23) as [Q2 Q3].
      destruct (let_bind_both (items varlist) [] s2 s1 s2 _ _ (Forall_nil _) HS Hw Hw HL0 Eb Hrb Q1)
        as (sb2 & Eb2 & HSb & Hwb & [Hk HL]).
      rewrite Eb2.
      destruct (proj2 (eval_progn_R2 rest) _ _ _ _ HSb Hwb Ec Hr1 Q2) as (sc2 & Ec2 & HSc & Hwc & Dc).
      unfold catch. rewrite Ec2.
      assert (HLc : LB (keys bound ++ []) s2 sc2) by (rewrite app_nil_r; eapply LB_dmono; eassumption).
      destruct (unbind_all_both bound [] s2 sc sc2 Hk HSc Hwc Hw HLc) as (su1 & su2 & U1 & U2 & HSu & Hwu & HLu).
      unfold bind in H'. rewrite U1 in H'. inversion H'; subst.
      exists su2. split; [destruct r; try congruence; unfold bind; rewrite U2; reflexivity|].
      split; [assumption|]. split; [assumption|].
      intros k. specialize (HLu k). change (cnt [] k) with 0 in HLu. lia.
    + inversion H; subst.
      destruct (let_bind_both (items varlist) [] s2 s1 s2 _ _ (Forall_nil _) HS Hw Hw HL0 Eb Hrb Hq)
        as (sb2 & Eb2 & HSb & Hwb & HL).
      rewrite Eb2. exists sb2. split; [reflexivity|]. split; [assumption|]. split; [assumption|].
      simpl in HL. intros k. specialize (HL k). change (cnt [] k) with 0 in HL. lia.
    + inversion H; subst.
      destruct (let_bind_both (items varlist) [] s2 s1 s2 _ _ (Forall_nil _) HS Hw Hw HL0 Eb Hrb Hq)
        as (sb2 & Eb2 & HSb & Hwb & HL).
      rewrite Eb2. exists sb2. split; [reflexivity|]. split; [assumption|]. split; [assumption|].
      simpl in HL. intros k. specialize (HL k). change (cnt [] k) with 0 in HL. lia.
Qed.
Hint Resolve do_let_R2 : r2.


Lemma bq_spine_R2 n :
  (forall x, sx_size x <= n -> R2 (eval_bq rec1 x) (eval_bq rec2 x)) ->
  forall l acc, sx_size l <= Datatypes.S n ->
  R2 (TL.Proofs.Backquote.bq_spine rec1 l acc) (TL.Proofs.Backquote.bq_spine rec2 l acc).
Proof.
  intros IH. induction l; intros acc Hl; simpl in Hl; cbn [TL.Proofs.Backquote.bq_spine]; try solve [r2].
  apply R2_bind.
  - destruct l1; simpl in Hl; r2; apply IH; simpl; lia.
  - intros acc1. destruct l2; try solve [r2]. apply IHl2. simpl in *. lia.
Qed.

Lemma eval_bq_R2 : forall n x, sx_size x <= n -> R2 (eval_bq rec1 x) (eval_bq rec2 x).
Proof.
  induction n as [|n IH]; intros x Hx; [destruct x; simpl in Hx; lia|].
  destruct x; simpl in Hx; try solve [cbn [eval_bq]; r2].
  - change (eval_bq rec1 (Cons x1 x2)) with (TL.Proofs.Backquote.bq_spine rec1 (Cons x1 x2) Nil).
    change (eval_bq rec2 (Cons x1 x2)) with (TL.Proofs.Backquote.bq_spine rec2 (Cons x1 x2) Nil).
    apply (bq_spine_R2 n IH). simpl. lia.
  - cbn [eval_bq]. apply R2_bind; [apply IH; lia|intros; r2].
Qed.
Hint Extern 2 (R2 (eval_bq _ _) _) => eapply eval_bq_R2; apply Nat.le_refl : r2.

Lemma capture_symbol_R2 excl caps x : R2 (capture_symbol excl caps x) (capture_symbol excl caps x).
Proof. unfold capture_symbol. r2. Qed.
Hint Extern 1 (R2 (capture_symbol _ _ _) _) => apply capture_symbol_R2 : r2.

Lemma cap_spine_R2 excl n :
  (forall x caps, sx_size x <= n -> R2 (capture excl caps x) (capture excl caps x)) ->
  forall l caps acc, sx_size l <= Datatypes.S n ->
  R2 (TL.Proofs.Capture.cap_spine excl l caps acc) (TL.Proofs.Capture.cap_spine excl l caps acc).
Proof.
  intros IH. induction l; intros caps acc Hl; simpl in Hl; cbn [TL.Proofs.Capture.cap_spine]; try solve [r2].
  apply R2_bind.
  - destruct l1; simpl in Hl; r2; apply IH; simpl; lia.
  - intros [a' caps1]. destruct l2; try solve [r2];
      try solve [apply R2_bind; [r2; apply IH; simpl in *; lia|intros; r2]].
    apply IHl2. simpl in *. lia.
Qed.

Lemma capture_R2 excl : forall n x caps, sx_size x <= n -> R2 (capture excl caps x) (capture excl caps x).
Proof.
  induction n as [|n IH]; intros x caps Hx; [destruct x; simpl in Hx; lia|].
  destruct x; simpl in Hx; try solve [cbn [capture]; r2];
    try solve [cbn [capture]; apply R2_bind; [apply IH; lia|intros; r2]].
  rewrite TL.Proofs.Capture.capture_cons. apply (cap_spine_R2 excl n IH). simpl. lia.
Qed.
Hint Extern 2 (R2 (capture _ _ _) _) => eapply capture_R2; apply Nat.le_refl : r2.

Lemma build_binding_R2 b prev : R2 (build_binding b prev) (build_binding b prev).
Proof. unfold build_binding. r2. Qed.
Hint Extern 1 (R2 (build_binding _ _) _) => apply build_binding_R2 : r2.
Lemma build_bindings_R2 : forall bs prev acc, R2 (build_bindings bs prev acc) (build_bindings bs prev acc).
Proof. induction bs as [|b bs IH]; intros; simpl; r2. Qed.
Hint Extern 1 (R2 (build_bindings _ _ _) _) => apply build_bindings_R2 : r2.
Lemma apply_pmac_R2 m args : R2 (apply_pmac rec1 m args) (apply_pmac rec2 m args).
Proof. destruct m; cbn [apply_pmac]; r2. Qed.
Hint Resolve apply_pmac_R2 : r2.

Lemma merge_fuel_R2 pred : forall fuel l r acc,
  R2 (merge_fuel rec1 fuel pred l r acc) (merge_fuel rec2 fuel pred l r acc).
Proof. induction fuel as [|fuel IH]; intros; simpl; r2. Qed.
Hint Resolve merge_fuel_R2 : r2.
Lemma msort_R2 pred : forall fuel l, R2 (msort rec1 fuel pred l) (msort rec2 fuel pred l).
Proof. induction fuel as [|fuel IH]; intros; simpl; r2. Qed.
Hint Resolve msort_R2 : r2.
Lemma assoc_find_R2 (t1 t2 : sx -> M bool) :
  (forall k, R2 (t1 k) (t2 k)) -> forall al, R2 (assoc_find t1 al) (assoc_find t2 al).
Proof. intros Ht. induction al; simpl; try solve [r2]. Qed.
Lemma assoc_R2 k al tf : R2 (assoc F rec1 k al tf) (assoc F rec2 k al tf).
Proof. unfold assoc. r2; apply assoc_find_R2; intros; r2. Qed.
Hint Resolve assoc_R2 : r2.
Lemma reduce_rest_R2 op : forall rest acc, R2 (reduce_rest rec1 op acc rest) (reduce_rest rec2 op acc rest).
Proof. induction rest; intros acc; simpl; r2. Qed.
Hint Resolve reduce_rest_R2 : r2.
Lemma reduce_with_R2 op args : R2 (reduce_with rec1 op args) (reduce_with rec2 op args).
Proof. unfold reduce_with. r2. Qed.
Hint Resolve reduce_with_R2 : r2.
Lemma compare_chain_R2 c : forall l prev holds,
  R2 (compare_chain F rec1 c l prev holds) (compare_chain F rec2 c l prev holds).
Proof. induction l as [|x l IH]; intros; simpl; r2. Qed.
Hint Resolve compare_chain_R2 : r2.
Lemma predicate_R2 args (p : sx -> M bool) : (forall v, R2 (p v) (p v)) ->
  R2 (predicate rec1 args p) (predicate rec2 args p).
Proof. intros Hp. unfold predicate. r2. Qed.
Hint Extern 1 (R2 (predicate _ _ _) _) => apply predicate_R2; intros; r2 : r2.
Lemma string_cmp_R2 args p : R2 (string_cmp rec1 args p) (string_cmp rec2 args p).
Proof. unfold string_cmp. r2. Qed.
Hint Resolve string_cmp_R2 : r2.
Lemma and_l_R2 : forall l last, R2 (and_l rec1 l last) (and_l rec2 l last).
Proof. induction l as [|x l IH]; intros; simpl; r2. Qed.
Lemma or_l_R2 : forall l, R2 (or_l rec1 l) (or_l rec2 l).
Proof. induction l as [|x l IH]; intros; simpl; r2. Qed.
Lemma cond_l_R2 : forall l, R2 (cond_l rec1 l) (cond_l rec2 l).
Proof. induction l as [|x l IH]; intros; simpl; r2. Qed.
Lemma map_l_R2 fn : forall l, R2 (map_l rec1 fn l) (map_l rec2 fn l).
Proof. induction l as [|x l IH]; intros; simpl; r2. Qed.
Lemma filter_l_R2 fn : forall l, R2 (filter_l rec1 fn l) (filter_l rec2 fn l).
Proof. induction l as [|x l IH]; intros; simpl; r2. Qed.
Lemma reduce_l_R2 fn : forall l acc, R2 (reduce_l rec1 fn l acc) (reduce_l rec2 fn l acc).
Proof. induction l as [|x l IH]; intros; simpl; r2. Qed.
Lemma find_l_R2 fn : forall l, R2 (find_l rec1 fn l) (find_l rec2 fn l).
Proof. induction l as [|x l IH]; intros; simpl; r2. Qed.
Hint Resolve and_l_R2 or_l_R2 cond_l_R2 map_l_R2 filter_l_R2 reduce_l_R2 find_l_R2 : r2.
Lemma dolist_loop_R2 var body : forall n lst,
  R2 (dolist_loop rec1 n var lst body) (dolist_loop rec2 n var lst body).
Proof. induction n as [|n IH]; intros lst; simpl; r2. Qed.
Hint Resolve dolist_loop_R2 : r2.

Ltac r2_special ::=
  match goal with
  | |- R2 (bind (sym_set_scope ?var ?v) (fun _ => catch _ _)) _ => apply loop_bracket2
  end.

Lemma apply_prim_R2 p args :
  R2 (apply_prim F rec1 load1 p args) (apply_prim F rec2 load2 p args).
Proof.
  destruct p; cbn [apply_prim].
  all: try solve [r2].
  (* / *)
  destruct (items args) as [|a rest]; [r2|].
  apply R2_bind; [r2|intros first]. apply R2_bind; [r2|intros ds].
  match goal with |- R2 (let '(a, b) := ?x in _) _ => destruct x as [acc ds'] end.
  destruct (existsb _ ds'); [r2|].
  revert acc. induction ds' as [|d ds' IHd]; intros acc; cbn; [r2|].
  apply R2_bind; [r2|]. intros acc'. apply IHd.
Qed.
Hint Resolve apply_prim_R2 : r2.

Lemma expand_spine_R2 : forall d a acc,
  R2 (TL.Proofs.Cont.expand_spine rec1 a d acc) (TL.Proofs.Cont.expand_spine rec2 a d acc).
Proof.
  induction d; intros a acc; cbn [TL.Proofs.Cont.expand_spine];
    (apply R2_bind; [r2|intros a']); solve [r2].
Qed.

Lemma step_R2 t : R2 (step F rec1 load1 t) (step F rec2 load2 t).
Proof.
  destruct t; cbn [step]; try solve [r2]; try solve [destruct x; r2]; try solve [destruct fn; r2].
  - (* TExpand *)
    destruct x; try solve [r2].
    apply R2_bind.
    { apply R2_catch; [r2|]. intros r0 _. destruct r0; r2. }
    intros value. apply R2_bind; [r2|]. intros x.
    destruct x; try solve [r2]. apply expand_spine_R2.
Qed.

Lemma readtime_R2 : forall n x, ax_size x <= n -> R2 (readtime rec1 x) (readtime rec2 x).
Proof.
  induction n as [|n IH]; intros x Hx; [destruct x; simpl in Hx; lia|].
  destruct x; cbn [readtime]; try solve [r2];
    try solve [simpl in Hx; apply R2_bind; [apply IH; lia|intros; r2]].
  change (ax_size (AList xs tl sp)) with
    (Datatypes.S (axs_size xs + match tl with Some t => ax_size t | None => 0 end)) in Hx.
  apply R2_bind.
  - assert (Hg : axs_size xs <= n) by lia. clear Hx. revert Hg.
    induction xs as [|a xs IHxs]; intros Hg; [r2|].
    change (axs_size (a :: xs)) with (ax_size a + axs_size xs) in Hg.
    apply R2_bind; [apply IH; lia|]. intros v.
    apply R2_bind; [apply IHxs; lia|]. intros vs. r2.
  - intros elems. apply R2_bind.
    + destruct tl; [|r2]. apply R2_bind; [apply IH; lia|intros; r2].
    + intros tlv. r2.
Qed.

Lemma readtime_all_R2 : forall l, R2 (readtime_all rec1 l) (readtime_all rec2 l).
Proof.
  induction l as [|a l IH]; simpl; [r2|].
  apply R2_bind; [eapply readtime_R2; apply Nat.le_refl|]. intros. r2.
Qed.

Lemma parse_body_R2 t : R2 (parse_body F rec1 t) (parse_body F rec2 t).
Proof.
  assert (HB : forall forms, R2 (bind (readtime_all rec1 forms)
                                      (fun forms' => rec1 (TExpand (of_list forms' Nil))))
                                (bind (readtime_all rec2 forms)
                                      (fun forms' => rec2 (TExpand (of_list forms' Nil)))))
    by (intros forms; apply R2_bind; [apply readtime_all_R2|intros; r2]).
  split.
  - intros s r s' H Hr. unfold parse_body in H.
    destruct (read_ax F (flags s) t) as [forms|e|n|]; try (inversion H; subst; apply gsuffix_refl).
    apply (proj1 (HB forms) _ _ _ H Hr).
  - intros s1 s2 r s1' HS Hw H Hr Hq. unfold parse_body in *.
    assert (Ef : flags s1 = flags s2) by (destruct HS as [(_ & _ & _ & _ & _ & E & _) _]; exact E).
    rewrite <- Ef.
    destruct (read_ax F (flags s1) t) as [forms|e|n|].
    + apply (proj2 (HB forms) _ _ _ _ HS Hw H Hr Hq).
    + inversion H; subst. exists s2. split; [reflexivity|]. split; [assumption|]. split; [assumption|apply dmono_refl].
    + inversion H; subst. exists s2. split; [reflexivity|]. split; [assumption|]. split; [assumption|apply dmono_refl].
    + inversion H; subst. congruence.
Qed.

Lemma run_body_R2 t : R2 (run_body F rec1 t) (run_body F rec2 t).
Proof. unfold run_body. apply R2_bind; [apply parse_body_R2|]. intros. r2. Qed.

End Rel2.

(* the fuelled interpreter is insensitive to hidden entries *)
Theorem run_R2 F : forall f t, R2 (run F f t) (run F f t).
Proof.
  induction f as [|f IH]; intros t.
  - split.
    + intros s r s' H Hr. inversion H; subst. congruence.
    + intros s1 s2 r s1' _ _ H Hr. inversion H; subst. congruence.
  - change (run F (Datatypes.S f) t) with (step F (run F f) (run_body F (run F f)) t).
    apply step_R2; [exact IH|]. intros txt. apply run_body_R2. exact IH.
Qed.

End Hidden.
