(* C05: the capture walk of `lambda` over a whole body.                      *)
From TL Require Import Base.Base Model.Reader Model.Printer Model.Store Model.Eval.
From TL Require Import Proofs.Closures.
Local Open Scope nat_scope.
Local Open Scope list_scope.

(* bodies as they come from program text: every symbol is an interned symbol *)
Fixpoint only_syms (x : sx) : bool :=
  match x with
  | USym _ _ | Cell _ _ _ | Lam _ _ | Mac _ _ => false
  | Cons a d => only_syms a && only_syms d
  | Quote v | Bq v | Unq v | Splice v | Sharp v => only_syms v
  | _ => true
  end.

(* the body with the captured symbols replaced by their cells *)
Fixpoint subst (caps : cap_list) (x : sx) : sx :=
  match x with
  | Sym _ => match find_cap caps x with Some c => c | None => x end
  | Cons a d => Cons (subst caps a) (subst caps d)
  | Quote v => Quote (subst caps v) | Bq v => Bq (subst caps v)
  | Unq v => Unq (subst caps v) | Splice v => Splice (subst caps v)
  | Sharp v => Sharp (subst caps v)
  | o => o
  end.

Lemma find_cap_app c1 c2 x :
  find_cap (c1 ++ c2) x = match find_cap c1 x with Some c => Some c | None => find_cap c2 x end.
Proof.
  induction c1 as [|[from to] c1 IH]; simpl; [reflexivity|].
  destruct (sym_eq x from); [reflexivity|apply IH].
Qed.

Lemma subst_of_list caps : forall x,
  subst caps x = match x with
                 | Cons _ _ => of_list (map (subst caps) (items x)) (subst caps (tail_of x))
                 | _ => subst caps x
                 end.
Proof.
  induction x; try reflexivity. simpl. f_equal.
  destruct x2; try reflexivity. rewrite IHx2. reflexivity.
Qed.

Section Capture.
Variable s : st.                 (* the state in which the lambda is created *)
Variable excl : list sx.         (* its parameters *)

(* a variable is captured iff it is locally bound at creation and not a parameter *)
Definition capturable (n : text) : bool :=
  b_lex_bound (sget s (key_of_name n)) && negb (in_excl excl (Sym n)).

Definition name_agree (st : st) : Prop :=
  forall n, sget st (key_of_name n) = sget s (key_of_name n).

(* every entry of the capture list: an interned, capturable variable and a   *)
(* cell for it whose root is the variable's key                               *)
Definition caps_ok (caps : cap_list) : Prop :=
  Forall (fun p => exists n id, fst p = Sym n /\ snd p = Cell n id (key_of_name n) /\
                                capturable n = true) caps.

Definition inv (caps : cap_list) (st : st) : Prop := name_agree st /\ caps_ok caps.

(* every capturable variable occurring in x has its cell in caps *)
Fixpoint closed (caps : cap_list) (x : sx) : Prop :=
  match x with
  | Sym n => capturable n = true -> find_cap caps x <> None
  | Cons a d => closed caps a /\ closed caps d
  | Quote v | Bq v | Unq v | Splice v | Sharp v => closed caps v
  | _ => True
  end.

Lemma find_cap_ok caps n c : caps_ok caps -> find_cap caps (Sym n) = Some c ->
  capturable n = true /\ exists id, c = Cell n id (key_of_name n).
Proof.
  intros H. induction H as [|[from to] caps (m & id & Hf & Ht & Hc) _ IH]; simpl; [discriminate|].
  simpl in Hf, Ht. subst from to. simpl. destruct (text_eqb n m) eqn:E.
  - apply text_eqb_eq in E. subst m. intros Hs. inversion Hs; subst. split; [assumption|eauto].
  - assumption.
Qed.

(* cells found so far stay the cells when the list grows *)
Lemma subst_ext caps more : caps_ok (caps ++ more) -> forall x,
  only_syms x = true -> closed caps x -> subst (caps ++ more) x = subst caps x.
Proof.
  intros Hok. induction x; simpl; intros Ho Hc; try reflexivity; try discriminate;
    try (rewrite IHx by assumption; reflexivity).
  - (* Sym *) rewrite find_cap_app. destruct (find_cap caps (Sym n)) eqn:E; [reflexivity|].
    destruct (find_cap more (Sym n)) eqn:E2; [|reflexivity].
    exfalso. assert (find_cap (caps ++ more) (Sym n) = Some s0) by (rewrite find_cap_app, E; exact E2).
    destruct (find_cap_ok _ _ _ Hok H) as [Hcap _]. apply (Hc Hcap). reflexivity.
  - apply andb_true_iff in Ho as [H1 H2]. destruct Hc as [C1 C2].
    rewrite IHx1, IHx2 by assumption. reflexivity.
Qed.

Lemma closed_ext caps more : forall x, closed caps x -> closed (caps ++ more) x.
Proof.
  induction x; simpl; auto.
  - intros H Hc. rewrite find_cap_app. specialize (H Hc).
    destruct (find_cap caps (Sym n)); [discriminate|congruence].
  - intros [H1 H2]. split; auto.
Qed.

Lemma caps_ok_app a b : caps_ok a -> caps_ok b -> caps_ok (a ++ b).
Proof. intros. apply Forall_app. split; assumption. Qed.

(* ---- one symbol ----------------------------------------------------------- *)
Lemma capture_symbol_ok n caps st : inv caps st ->
  exists caps2 st2,
    capture_symbol excl caps (Sym n) st = (Ok (subst (caps ++ caps2) (Sym n), caps ++ caps2), st2) /\
    inv (caps ++ caps2) st2 /\ closed (caps ++ caps2) (Sym n).
Proof.
  intros [Ha Hok]. unfold capture_symbol, bind, lex_bound. cbn [key_of].
  pose proof (Ha n) as Hn.
  destruct (b_lex_bound (sget st (key_of_name n))) eqn:Elb0; cbn [negb];
    assert (Elb : b_lex_bound (sget s (key_of_name n)) = b_lex_bound (sget st (key_of_name n)))
      by (rewrite Hn; reflexivity); rewrite Elb0 in Elb.
  2:{ (* not locally bound *)
      exists [], st. rewrite app_nil_r. split; [|split; [split; assumption|]].
      - cbn [subst]. destruct (find_cap caps (Sym n)) eqn:E; [|reflexivity].
        destruct (find_cap_ok _ _ _ Hok E) as [Hc _]. unfold capturable in Hc. rewrite Elb in Hc. discriminate.
      - cbn [closed]. unfold capturable. rewrite Elb. discriminate. }
  destruct (in_excl excl (Sym n)) eqn:Eex.
  { exists [], st. rewrite app_nil_r. split; [|split; [split; assumption|]].
    - cbn [subst]. destruct (find_cap caps (Sym n)) eqn:E; [|reflexivity].
      destruct (find_cap_ok _ _ _ Hok E) as [Hc _]. unfold capturable in Hc.
      rewrite Eex, andb_false_r in Hc. discriminate.
    - cbn [closed]. unfold capturable. rewrite Eex, andb_false_r. discriminate. }
  destruct (find_cap caps (Sym n)) as [c|] eqn:Ef.
  { exists [], st. rewrite app_nil_r. split; [|split; [split; assumption|]].
    - cbn [subst]. rewrite Ef. reflexivity.
    - cbn [closed]. intros _. rewrite Ef. discriminate. }
  (* a new cell *)
  assert (Hcap : capturable n = true) by (unfold capturable; rewrite Elb, Eex; reflexivity).
  assert (Hne : exists v0 r0, bitems (sget st (key_of_name n)) = v0 :: r0).
  { unfold b_lex_bound in Elb0. destruct (bitems (sget st (key_of_name n))); [|eauto].
    destruct (has_global (sget st (key_of_name n))); discriminate. }
  destruct Hne as (v0 & r0 & Eb).
  assert (Hget : exists v, sym_get (Sym n) st = (Ok v, st)).
  { unfold sym_get. cbn [key_of]. destruct (keywordp (Sym n)); [eexists; reflexivity|].
    rewrite Eb. eexists; reflexivity. }
  destruct Hget as [v Hv]. rewrite Hv. unfold fresh_id. cbn [sym_name].
  set (c := Cell n (next_id st) (cell_root (Sym n))).
  unfold sym_set, with_key. cbn [key_of is_constant]. 
  exists [(Sym n, c)]. eexists. split; [|split].
  - cbn [subst]. rewrite find_cap_app, Ef. cbn [find_cap sym_eq]. rewrite text_eqb_refl. reflexivity.
  - split.
    + intros m. rewrite sget_sput_other by (apply not_eq_sym; apply name_key_not_cell_key).
      unfold sget. cbn [store]. apply Ha.
    + apply caps_ok_app; [assumption|]. constructor; [|constructor].
      exists n, (next_id st). repeat split; auto.
  - cbn [closed]. intros _. rewrite find_cap_app, Ef. cbn [find_cap sym_eq]. rewrite text_eqb_refl. discriminate.
Qed.


Definition cap_spine :=
  fix spine (l : sx) (caps : cap_list) (acc : list sx) {struct l} : M (sx * cap_list) :=
    match l with
    | Cons a d =>
        '(a', caps1) <- match a with
                        | Cons _ _ => capture excl caps a
                        | _ => if symbolp a then capture_symbol excl caps a
                               else capture excl caps a
                        end ;;
        match d with
        | Nil => ret (of_list (acc ++ [a']) Nil, caps1)
        | Cons _ _ => spine d caps1 (acc ++ [a'])
        | o => '(o', caps2) <- (if symbolp o then capture_symbol excl caps1 o
                                else capture excl caps1 o) ;;
               ret (of_list (acc ++ [a']) o', caps2)
        end
    | _ => ret (of_list acc Nil, caps)
    end.

Lemma capture_cons a d caps : capture excl caps (Cons a d) = cap_spine (Cons a d) caps [].
Proof. reflexivity. Qed.

Definition cap_post (caps : cap_list) (x : sx) (r : res (sx * cap_list) * st) : Prop :=
  exists caps2 st2, r = (Ok (subst (caps ++ caps2) x, caps ++ caps2), st2) /\
                    inv (caps ++ caps2) st2 /\ closed (caps ++ caps2) x.

Lemma cap_post_sym n caps st0 : inv caps st0 ->
  cap_post caps (Sym n) (capture_symbol excl caps (Sym n) st0).
Proof. intros H. destruct (capture_symbol_ok n caps st0 H) as (c2 & s2 & E & I & C). exists c2, s2. auto. Qed.

Lemma app_assoc_caps (a b c : cap_list) : (a ++ b) ++ c = a ++ (b ++ c).
Proof. symmetry. apply app_assoc. Qed.

Lemma tail_finish caps1 c1 acc l1 o (m : M (sx * cap_list)) s1' :
  only_syms l1 = true -> closed (caps1 ++ c1) l1 ->
  cap_post (caps1 ++ c1) o (m s1') ->
  exists caps2 st2,
    bind m (fun p => let '(o', caps2) := p in ret (of_list (acc ++ [subst (caps1 ++ c1) l1]) o', caps2)) s1'
    = (Ok (of_list (acc ++ [subst (caps1 ++ caps2) l1]) (subst (caps1 ++ caps2) o), caps1 ++ caps2), st2) /\
    inv (caps1 ++ caps2) st2 /\ closed (caps1 ++ caps2) l1 /\ closed (caps1 ++ caps2) o.
Proof.
  intros Ho1 C1 (c2 & s2' & E2 & I2 & C2). unfold bind. rewrite E2.
  exists (c1 ++ c2), s2'. rewrite !app_assoc. split; [|split; [assumption|split; [apply closed_ext; assumption|assumption]]].
  unfold ret. rewrite (subst_ext (caps1 ++ c1) c2 (proj2 I2) l1 Ho1 C1). reflexivity.
Qed.

Lemma capture_ok : forall n x, sx_size x <= n -> only_syms x = true ->
  forall caps st0, inv caps st0 -> cap_post caps x (capture excl caps x st0).
Proof.
  induction n as [|n IH]; intros x Hx Ho caps st0 Hi; [destruct x; simpl in Hx; lia|].
  assert (Hatom : forall o, subst caps o = o -> closed caps o ->
                  cap_post caps o (ret (o, caps) st0)).
  { intros o Hs Hc. exists [], st0. rewrite app_nil_r, Hs. auto. }
  assert (Hwrap : forall (mk : sx -> sx) v,
            sx_size v <= n -> only_syms v = true ->
            (forall c, subst c (mk v) = mk (subst c v)) -> (forall c, closed c (mk v) = closed c v) ->
            cap_post caps (mk v)
              (bind (capture excl caps v) (fun p => let '(v', c) := p in ret (mk v', c)) st0)).
  { intros mk v Hv Hov Hs Hc. destruct (IH v Hv Hov caps st0 Hi) as (c2 & s2 & E & I & C).
    unfold bind. rewrite E. exists c2, s2. rewrite Hs, Hc. auto. }
  destruct x; simpl in Hx, Ho; try discriminate Ho;
    try (cbn [capture symbolp]; apply Hatom; [reflexivity|exact I]).
  - (* Sym *) cbn [capture symbolp]. apply cap_post_sym. assumption.
  - (* Cons *)
    rewrite capture_cons.
    assert (Hsp : forall l, sx_size l <= S n -> only_syms l = true ->
              forall a0 d0, l = Cons a0 d0 ->
              forall caps1 acc st1, inv caps1 st1 ->
              exists caps2 st2,
                cap_spine l caps1 acc st1 =
                  (Ok (of_list (acc ++ map (subst (caps1 ++ caps2)) (items l))
                               (subst (caps1 ++ caps2) (tail_of l)), caps1 ++ caps2), st2) /\
                inv (caps1 ++ caps2) st2 /\ closed (caps1 ++ caps2) l).
    { induction l; intros Hl Hol a0 d0 El caps1 acc st1 Hi1; try discriminate El.
      clear IHl1. simpl in Hl, Hol. apply andb_true_iff in Hol as [Ho1 Ho2].
      cbn [cap_spine]. unfold bind at 1.
      (* the element *)
      assert (He : cap_post caps1 l1
                (match l1 with
                 | Cons _ _ => capture excl caps1 l1
                 | _ => if symbolp l1 then capture_symbol excl caps1 l1 else capture excl caps1 l1
                 end st1)).
      { destruct l1; simpl in Ho1; try discriminate Ho1; cbn [symbolp];
          try (apply IH; [simpl in *; lia|assumption|assumption]).
        apply cap_post_sym. assumption. }
      destruct He as (c1 & s1' & E1 & I1 & C1). rewrite E1.
      destruct l2 as [| | | | |tn| | |ta td| | | | | | | | | | |]; simpl in Ho2; try discriminate Ho2.
      all: try (* every tail that is neither nil nor a cons *)
        (match goal with
         | |- context[if symbolp ?o then capture_symbol excl ?cc ?o else capture excl ?cc ?o] =>
             assert (Hp : cap_post cc o ((if symbolp o then capture_symbol excl cc o
                                          else capture excl cc o) s1'));
             [cbn [symbolp]; first [apply cap_post_sym; assumption
                                   | apply IH; [simpl in *; lia|assumption|assumption]]|];
             destruct (tail_finish caps1 c1 acc l1 o _ s1' Ho1 C1 Hp) as (cF & sF & EF & IF & CF1 & CF2);
             exists cF, sF; split; [exact EF|split; [assumption|split; assumption]]
         end).
      + (* Nil tail *)
        exists c1, s1'. split; [|split; [assumption|split; [assumption|exact I]]].
        cbn [items tail_of map subst]. reflexivity.
      + (* Cons tail *)
        destruct (IHl2 ltac:(simpl in *; lia) Ho2 ta td eq_refl (caps1 ++ c1) (acc ++ [subst (caps1 ++ c1) l1]) s1' I1)
          as (c2 & s2' & E2 & I2 & C2).
        fold cap_spine. rewrite E2. exists (c1 ++ c2), s2'. rewrite !app_assoc.
        split; [|split; [assumption|split; [apply closed_ext; assumption|assumption]]].
        cbn [items map tail_of].
        rewrite (subst_ext (caps1 ++ c1) c2 (proj2 I2) l1 Ho1 C1).
        rewrite <- app_assoc. reflexivity. }
    apply andb_true_iff in Ho as [Ho1 Ho2].
    destruct (Hsp (Cons x1 x2) ltac:(simpl; lia) ltac:(simpl; rewrite Ho1, Ho2; reflexivity)
                  x1 x2 eq_refl caps [] st0 Hi) as (c2 & s2 & E & I2 & C).
    exists c2, s2. rewrite E. split; [|split; assumption].
    rewrite (subst_of_list (caps ++ c2) (Cons x1 x2)). reflexivity.
  - apply (Hwrap Quote); [lia|assumption|reflexivity|reflexivity].
  - apply (Hwrap Bq); [lia|assumption|reflexivity|reflexivity].
  - apply (Hwrap Unq); [lia|assumption|reflexivity|reflexivity].
  - apply (Hwrap Splice); [lia|assumption|reflexivity|reflexivity].
  - apply (Hwrap Sharp); [lia|assumption|reflexivity|reflexivity].
Qed.

End Capture.

(* the whole body of a lambda created in state s with parameters excl *)
Theorem capture_whole_body s excl body :
  only_syms body = true ->
  exists caps s2,
    capture excl [] body s = (Ok (subst caps body, caps), s2) /\
    name_agree s s2 /\ caps_ok s excl caps /\ closed s excl caps body.
Proof.
  intros Ho.
  destruct (capture_ok s excl (sx_size body) body (Nat.le_refl _) Ho [] s) as (c2 & s2 & E & [Ha Hok] & C).
  - split; [intros n; reflexivity|constructor].
  - exists c2, s2. simpl in *. auto.
Qed.

(* a variable that is not capturable (not locally bound at creation, or a   *)
(* parameter) is left as it is, wherever it occurs                            *)
Theorem not_capturable_untouched s excl caps n :
  caps_ok s excl caps -> capturable s excl n = false -> subst caps (Sym n) = Sym n.
Proof.
  intros Hok Hc. cbn [subst]. destruct (find_cap caps (Sym n)) eqn:E; [|reflexivity].
  destruct (find_cap_ok s excl _ _ _ Hok E) as [H _]. congruence.
Qed.

(* a capturable variable is replaced, at every occurrence, by one and the   *)
(* same cell, whose root is the variable                                      *)
Theorem capturable_replaced_by_its_cell s excl caps n :
  caps_ok s excl caps -> closed s excl caps (Sym n) -> capturable s excl n = true ->
  exists id, subst caps (Sym n) = Cell n id (key_of_name n).
Proof.
  intros Hok Hc Hcap. cbn [subst closed] in *. specialize (Hc Hcap).
  destruct (find_cap caps (Sym n)) eqn:E; [|congruence].
  destruct (find_cap_ok s excl _ _ _ Hok E) as [_ [id ->]]. eauto.
Qed.
