(* C12: the list functions of Model/Eval.v against the Coq standard library. *)
From TL Require Import Base.Base Model.Reader Model.Printer Model.Store Model.Eval Model.Init.
Local Open Scope Z_scope.

(* a proper list value is [of_list xs Nil]; a dotted one [of_list xs t] *)
Definition atom_tail (t : sx) : Prop := forall a d, t <> Cons a d.

Lemma items_proper xs : items (of_list xs Nil) = xs.
Proof. apply items_of_list. intros a d H; discriminate. Qed.

Lemma tail_of_list xs t : atom_tail t -> tail_of (of_list xs t) = t.
Proof.
  intros Ht. induction xs as [|x xs IH]; simpl; [|exact IH].
  destruct t; try reflexivity. exfalso. eapply Ht. reflexivity.
Qed.

(* ---- car / cdr and their compositions ------------------------------- *)
Theorem car_cons a b : cxr [true] (Cons a b) = Ok a.  Proof. reflexivity. Qed.
Theorem cdr_cons a b : cxr [false] (Cons a b) = Ok b. Proof. reflexivity. Qed.
Theorem car_nil : cxr [true] Nil = Ok Nil.  Proof. reflexivity. Qed.
Theorem cdr_nil : cxr [false] Nil = Ok Nil. Proof. reflexivity. Qed.

(* a path applies its last letter first: (cadr x) = (car (cdr x)) *)
Theorem cxr_compose p q x :
  cxr (p ++ q) x = match cxr q x with Ok v => cxr p v | e => e end.
Proof.
  induction p as [|b p IH]; simpl.
  - destruct (cxr q x); reflexivity.
  - rewrite IH. destruct (cxr q x); reflexivity.
Qed.

(* the registered names c[ad]{1,4}r spell their own path *)
Definition letter (b : bool) : ascii := if b then "a"%char else "d"%char.
Definition cxr_name (p : list bool) : string :=
  String "c" (fold_right (fun b s => String (letter b) s) "r"%string p).
Theorem cxr_table_names :
  forallb (fun e => String.eqb (fst e) (cxr_name (snd e))) cxr_table = true.
Proof. vm_compute. reflexivity. Qed.
Theorem cxr_table_complete : List.length cxr_table = 30%nat /\ NoDup (map snd cxr_table).
Proof.
  split; [reflexivity|].
  unfold cxr_table; simpl.
  repeat (constructor; [simpl; intuition discriminate|]). constructor.
Qed.

(* ---- nthcdr / nth / length / last ----------------------------------- *)
Lemma nthcdr_nat_skipn : forall n xs t, atom_tail t -> (n <= List.length xs)%nat ->
  nthcdr_nat n (of_list xs t) = Ok (of_list (skipn n xs) t).
Proof.
  induction n as [|n IH]; intros xs t Ht Hn; [reflexivity|].
  destruct xs as [|x xs]; simpl in *; [lia|]. apply IH; [assumption|lia].
Qed.

Lemma nthcdr_nat_past : forall n xs, (List.length xs <= n)%nat ->
  nthcdr_nat n (of_list xs Nil) = Ok Nil.
Proof.
  induction n as [|n IH]; intros xs Hn.
  - destruct xs; simpl in *; [reflexivity|lia].
  - destruct xs as [|x xs]; simpl in *; [reflexivity|]. apply IH. lia.
Qed.

Theorem nthcdr_spec n xs : 0 <= n ->
  nthcdr n (of_list xs Nil) = Ok (of_list (skipn (Z.to_nat n) xs) Nil).
Proof.
  intros Hn. unfold nthcdr. destruct (n <=? 0) eqn:E.
  - apply Z.leb_le in E. assert (n = 0) by lia. subst. reflexivity.
  - apply Z.leb_gt in E. rewrite items_proper.
    destruct (Z_le_gt_dec n (Z.of_nat (List.length xs))) as [Hle|Hgt].
    + rewrite Z.min_l by lia. apply nthcdr_nat_skipn; [intros a d H; discriminate|lia].
    + rewrite Z.min_r by lia. rewrite Nat2Z.id.
      rewrite nthcdr_nat_past by lia. rewrite skipn_all2 by lia. reflexivity.
Qed.

Theorem nthcdr_negative n l : n <= 0 -> nthcdr n l = Ok l.
Proof. intros H. unfold nthcdr. apply Z.leb_le in H. rewrite H. reflexivity. Qed.

(* dotted list: defined up to and including the tail position *)
Theorem nthcdr_dotted n xs t : atom_tail t -> 0 <= n <= Z.of_nat (List.length xs) ->
  nthcdr n (of_list xs t) = Ok (of_list (skipn (Z.to_nat n) xs) t).
Proof.
  intros Ht Hn. unfold nthcdr. destruct (n <=? 0) eqn:E.
  - apply Z.leb_le in E. assert (n = 0) by lia. subst. reflexivity.
  - rewrite items_of_list by assumption. rewrite Z.min_l by lia.
    apply nthcdr_nat_skipn; [assumption|lia].
Qed.

Theorem nth_is_car_nthcdr n l :
  nth n l = match nthcdr n l with Ok x => cxr [true] x | e => e end.
Proof. unfold nth. destruct (nthcdr n l); reflexivity. Qed.

Lemma car_of_list xs : car_of (of_list xs Nil) = Ok (List.hd Nil xs).
Proof. destruct xs; reflexivity. Qed.

Theorem nth_spec n xs : 0 <= n -> nth n (of_list xs Nil) = Ok (List.nth (Z.to_nat n) xs Nil).
Proof.
  intros Hn. unfold nth. rewrite nthcdr_spec by assumption. rewrite car_of_list.
  f_equal. generalize (Z.to_nat n). clear. intros k. revert xs.
  induction k as [|k IH]; intros [|x xs]; simpl; auto. 
Qed.

Theorem length_spec xs : length_z (of_list xs Nil) = Z.of_nat (List.length xs).
Proof. unfold length_z. rewrite items_proper. reflexivity. Qed.

Theorem last_spec xs x : last (of_list (xs ++ [x]) Nil) None = Ok (Cons x Nil).
Proof.
  unfold last. destruct (of_list (xs ++ [x]) Nil) eqn:E;
    try (destruct xs; discriminate E).
  rewrite <- E. rewrite length_spec, app_length. change (List.length [x]) with 1%nat.
  rewrite nthcdr_spec by lia.
  replace (Z.to_nat (Z.of_nat (List.length xs + 1) - 1)) with (List.length xs) by lia.
  rewrite skipn_app, skipn_all, Nat.sub_diag. reflexivity.
Qed.

Theorem last_n_spec xs n : 0 <= n -> xs <> [] ->
  last (of_list xs Nil) (Some n) =
  Ok (of_list (skipn (List.length xs - Z.to_nat n) xs) Nil).
Proof.
  intros Hn Hx. unfold last. destruct xs as [|x xs]; [congruence|]. cbn [of_list].
  change (Cons x (of_list xs Nil)) with (of_list (x :: xs) Nil).
  rewrite length_spec. destruct (n <? 0) eqn:E0; [apply Z.ltb_lt in E0; lia|].
  destruct (n <? Z.of_nat (List.length (x :: xs))) eqn:E1.
  - apply Z.ltb_lt in E1. rewrite nthcdr_spec by lia. do 3 f_equal. lia.
  - apply Z.ltb_ge in E1. replace (List.length (x :: xs) - Z.to_nat n)%nat with 0%nat by lia.
    reflexivity.
Qed.

(* ---- append ---------------------------------------------------------- *)
Theorem append2_app xs ys : append2 (of_list xs Nil) (of_list ys Nil) = Ok (of_list (xs ++ ys) Nil).
Proof.
  destruct xs as [|x xs]; simpl.
  - destruct ys; reflexivity.
  - rewrite tail_of_list by (intros a d H; discriminate).
    rewrite items_proper. clear. f_equal. f_equal.
    induction xs as [|y xs IH]; simpl; [reflexivity|]. rewrite IH. reflexivity.
Qed.

Theorem append_dotted xs ys t : xs <> [] ->
  append2 (of_list xs Nil) (of_list ys t) = Ok (of_list (xs ++ ys) t).
Proof.
  intros Hx. destruct xs as [|x xs]; [congruence|]. simpl.
  rewrite tail_of_list by (intros a d H; discriminate).
  rewrite items_proper. clear. f_equal. f_equal.
  induction xs as [|y xs IH]; simpl; [reflexivity|]. rewrite IH. reflexivity.
Qed.

Theorem length_append xs ys r :
  append2 (of_list xs Nil) (of_list ys Nil) = Ok r ->
  length_z r = length_z (of_list xs Nil) + length_z (of_list ys Nil).
Proof.
  rewrite append2_app. intros H. inversion H; subst.
  rewrite !length_spec, app_length. lia.
Qed.

Theorem append_all_concat : forall ls acc,
  append_all (of_list acc Nil) (map (fun l => of_list l Nil) ls)
  = Ok (of_list (acc ++ List.concat ls) Nil).
Proof.
  induction ls as [|l ls IH]; intros acc; simpl.
  - rewrite app_nil_r. reflexivity.
  - rewrite append2_app. rewrite IH. rewrite app_assoc. reflexivity.
Qed.

(* ---- mapping, filtering, reducing, finding --------------------------- *)
(* a function value [f] that behaves as the pure function [g] when called *)
Section HigherOrder.
Variable rec : task -> M sx.

Definition pure1 (f : sx) (g : sx -> sx) : Prop :=
  forall x s, rec (TCall false f (Cons x Nil)) s = (Ok (g x), s).
Definition pure2 (f : sx) (g : sx -> sx -> sx) : Prop :=
  forall a x s, rec (TCall false f (Cons a (Cons x Nil))) s = (Ok (g a x), s).

Theorem map_l_map f g : pure1 f g -> forall l s, map_l rec f l s = (Ok (map g l), s).
Proof.
  intros Hf. induction l as [|x l IH]; intros s; [reflexivity|].
  simpl. unfold bind, call. rewrite Hf, IH. reflexivity.
Qed.

Theorem filter_l_filter f g : pure1 f g -> forall l s,
  filter_l rec f l s = (Ok (filter (fun x => truthy (g x)) l), s).
Proof.
  intros Hf. induction l as [|x l IH]; intros s; [reflexivity|].
  simpl. unfold bind, call. rewrite Hf, IH. unfold ret. destruct (truthy (g x)); reflexivity.
Qed.

Theorem reduce_l_fold f g : pure2 f g -> forall l acc s,
  reduce_l rec f l acc s = (Ok (fold_left g l acc), s).
Proof.
  intros Hf. induction l as [|x l IH]; intros acc s; [reflexivity|].
  simpl. unfold bind, call. rewrite Hf, IH. reflexivity.
Qed.

Theorem find_l_find f g : pure1 f g -> forall l s,
  find_l rec f l s = (Ok (List.find (fun x => truthy (g x)) l), s).
Proof.
  intros Hf. induction l as [|x l IH]; intros s; [reflexivity|].
  simpl. unfold bind, call. rewrite Hf. destruct (truthy (g x)); [reflexivity|apply IH].
Qed.

(* every element is visited once, in list order: with an effectful callee *)
(* the calls happen in the order of the list                               *)
Theorem map_l_order f x l :
  map_l rec f (x :: l) =
  bind (call rec false f (Cons x Nil)) (fun v => bind (map_l rec f l) (fun vs => ret (v :: vs))).
Proof. reflexivity. Qed.
End HigherOrder.

(* ---- assoc / alist-get / plist-get ----------------------------------- *)
Definition is_pair_with (p : sx -> bool) (e : sx) : bool :=
  match e with Cons k _ => p k | _ => false end.

Theorem assoc_first_match p : forall es s,
  assoc_find (fun k => ret (p k)) (of_list es Nil) s =
  (Ok (match List.find (is_pair_with p) es with Some e => e | None => Nil end), s).
Proof.
  induction es as [|e es IH]; intros s; [reflexivity|].
  simpl. destruct e; simpl; try apply IH.
  unfold bind, ret. destruct (p e1); [reflexivity|apply IH].
Qed.

Theorem plist_get_first : forall k v rest, plist_get (Cons k (Cons v rest)) k =
  match eq_model k k with Some true => Ok v | Some false => plist_get rest k | None => Err ENotImpl end.
Proof. intros. simpl. destruct (eq_model k k) as [[|]|]; reflexivity. Qed.

(* alist-get, as the built-in computes it (no test function): the value of the   *)
(* first pair whose key is equal to the key, also when that value is nil; the   *)
(* default only when there is no such pair                                      *)
Definition alist_get_spec (F : fops) (key : sx) (es : list sx) (dflt : sx) : sx :=
  match List.find (is_pair_with (fun k => equal F k key)) es with
  | Some (Cons _ v) => v
  | _ => dflt
  end.

Theorem alist_get_first_match F rec key es dflt s :
  bind (assoc F rec key (of_list es Nil) None)
       (fun x => if truthy x then lift (cdr_of x) else ret dflt) s
  = (Ok (alist_get_spec F key es dflt), s).
Proof.
  unfold assoc, bind. assert (Hl : listp (of_list es Nil) = true) by (destruct es; reflexivity).
  rewrite Hl. cbn [negb].
  rewrite (assoc_first_match (fun k => equal F k key) es s). unfold alist_get_spec.
  destruct (List.find (is_pair_with (fun k => equal F k key)) es) as [e|] eqn:Ef; [|reflexivity].
  apply find_some in Ef as [_ Hp]. destruct e; try discriminate Hp. reflexivity.
Qed.

(* plist-get: the value after the first key at an even position that is eq to *)
(* the property; nil when there is none or when the list ends after that key   *)
Definition keq (prop k : sx) : bool := match eq_model k prop with Some b => b | None => false end.

Fixpoint plist_spec (prop : sx) (fuel : nat) (l : list sx) : sx :=
  match fuel with
  | O => Nil
  | S f => match l with
           | k :: v :: r => if keq prop k then v else plist_spec prop f r
           | _ => Nil
           end
  end.

Fixpoint even_keys (P : sx -> Prop) (fuel : nat) (l : list sx) : Prop :=
  match fuel with
  | O => True
  | S f => match l with
           | k :: r => P k /\ match r with _ :: r' => even_keys P f r' | [] => True end
           | [] => True
           end
  end.

Theorem plist_get_spec prop : forall fuel l, (List.length l <= fuel)%nat ->
  even_keys (fun k => eq_model k prop <> None) fuel l ->
  plist_get (of_list l Nil) prop = Ok (plist_spec prop fuel l).
Proof.
  induction fuel as [|fuel IH]; intros l Hl Hk.
  - destruct l; [reflexivity|simpl in Hl; lia].
  - destruct l as [|k [|v r]]; [reflexivity| |].
    + simpl in Hk. destruct Hk as [Hk _]. simpl. destruct (eq_model k prop) as [[|]|]; try reflexivity; congruence.
    + simpl in Hk. destruct Hk as [Hk Hr]. cbn [of_list plist_get plist_spec]. unfold keq.
      destruct (eq_model k prop) as [[|]|]; [reflexivity| |congruence].
      destruct r as [|k2 r2].
      * destruct fuel; reflexivity.
      * change (of_list (k2 :: r2) Nil) with (Cons k2 (of_list r2 Nil)).
        cbn iota. rewrite <- (IH (k2 :: r2)); [reflexivity|simpl in *; lia|].
        destruct fuel; [simpl in Hl; lia|exact Hr].
Qed.
