(* C04: the trampolined loop computes what ordinary recursion computes.      *)
(*                                                                           *)
(* [nested] is ordinary recursion on the bounce marker: the frame of every   *)
(* pending caller stays on the binding stacks while the callee runs.         *)
(* [tramp] is the loop of the implementation (src/eval.rs, eval_lambda):     *)
(* each frame is popped before the next one is pushed.  The two agree on     *)
(* every body, for every depth, by the hidden-frame simulation of Hidden.v.  *)
From TL Require Import Base.Base Model.Reader Model.Printer Model.Store Model.Eval.
From TL Require Import Proofs.ReaderTotal Proofs.EvalRel Proofs.Hidden.
Local Open Scope nat_scope.
Local Open Scope list_scope.

(* ---- one state is another with entries [H] on top of its stacks ------------ *)
Definition Top (H : key -> list sx) (s1 s2 : st) : Prop :=
  same_rest s1 s2 /\
  forall k, has_global (sget s1 k) = has_global (sget s2 k) /\
            bitems (sget s1 k) = H k ++ bitems (sget s2 k).

(* equal up to the representation of the store *)
Definition equiv (s1 s2 : st) : Prop := Top (fun _ => []) s1 s2.

Lemma same_rest_refl s : same_rest s s.
Proof. unfold same_rest. repeat split; reflexivity. Qed.
Lemma same_rest_sym a b : same_rest a b -> same_rest b a.
Proof.
  intros (E1 & E2 & E3 & E4 & E5 & E6 & E7 & E8 & E9 & E10). unfold same_rest.
  repeat split; symmetry; assumption.
Qed.
Lemma same_rest_trans a b c : same_rest a b -> same_rest b c -> same_rest a c.
Proof.
  intros (E1 & E2 & E3 & E4 & E5 & E6 & E7 & E8 & E9 & E10)
         (F1 & F2 & F3 & F4 & F5 & F6 & F7 & F8 & F9 & F10). unfold same_rest.
  repeat split; etransitivity; eassumption.
Qed.
Lemma same_rest_sput s k b : same_rest (sput s k b) s.
Proof. unfold same_rest. repeat split; reflexivity. Qed.

Lemma Top_refl s : Top (fun _ => []) s s.
Proof. split; [apply same_rest_refl|]. intros k. split; reflexivity. Qed.

Lemma binding_eta (b : binding) hg l : has_global b = hg -> bitems b = l ->
  b = {| has_global := hg; bitems := l |}.
Proof. destruct b; simpl; intros; subst; reflexivity. Qed.

Lemma insl_mid H P l : insl H (List.length l) (P ++ l) = P ++ H ++ l.
Proof.
  unfold insl. rewrite app_length.
  replace (List.length P + List.length l - List.length l) with (List.length P) by lia.
  rewrite firstn_app_exact, skipn_app_exact. reflexivity.
Qed.

Lemma insl_split H fl c l : List.length l = fl + c ->
  insl H fl l = firstn c l ++ H ++ skipn c l.
Proof. intros E. unfold insl. replace (List.length l - fl) with c by lia. reflexivity. Qed.

(* ---- what binding and unbinding a parameter list do to one state ------------- *)
Definition bindable (x : sx) : Prop := exists k, key_of x = Some k /\ is_constant x = false.

Fixpoint pushed (syms vs : list sx) (k : key) : list sx :=
  match syms, vs with
  | x :: syms', v :: vs' =>
      pushed syms' vs' k ++
      match key_of x with
      | Some k' => if Pos.eq_dec k' k then [v] else []
      | None => []
      end
  | _, _ => []
  end.

Lemma pushed_length : forall syms vs k, List.length vs = List.length syms ->
  List.length (pushed syms vs k) = cnt (keys syms) k.
Proof.
  induction syms as [|x syms IH]; intros vs k Hl; destruct vs as [|v vs]; try discriminate; [reflexivity|].
  simpl in Hl. cbn [pushed]. rewrite app_length, IH by lia.
  change (keys (x :: syms)) with ((match key_of x with Some k => [k] | None => [] end) ++ keys syms).
  rewrite cnt_app. destruct (key_of x) as [k'|]; [|simpl; unfold cnt; simpl; lia].
  destruct (Pos.eq_dec k' k) as [->|N].
  - rewrite cnt_cons_same. simpl. unfold cnt; simpl. lia.
  - rewrite cnt_cons_other by assumption. simpl. unfold cnt; simpl. lia.
Qed.

Lemma bind_all_top : forall syms vs done s, Forall bindable syms ->
  List.length vs = List.length syms ->
  exists s', bind_all syms vs done s = (Ok tt, s') /\ Top (pushed syms vs) s' s.
Proof.
  induction syms as [|x syms IH]; intros vs done s Hb Hl; destruct vs as [|v vs]; try discriminate.
  - exists s. split; [reflexivity|]. apply Top_refl.
  - inversion Hb as [|? ? (k & Ek & Ec) Hb']; subst. simpl in Hl.
    cbn [bind_all]. unfold catch, sym_set_scope, with_key. rewrite Ek, Ec.
    destruct (IH vs (done ++ [x]) (sput s k (b_set_scope (sget s k) v)) Hb' ltac:(lia)) as (s' & E & [HR HT]).
    exists s'. split; [exact E|]. split.
    + eapply same_rest_trans; [eassumption|apply same_rest_sput].
    + intros k0. destruct (HT k0) as [H1 H2]. cbn [pushed]. rewrite Ek.
      destruct (Pos.eq_dec k k0) as [<-|N].
      * rewrite sget_sput_same in H1, H2. simpl in H1, H2. split; [assumption|].
        rewrite H2, <- app_assoc. reflexivity.
      * rewrite sget_sput_other in H1, H2 by assumption. split; [assumption|].
        rewrite H2, app_nil_r. reflexivity.
Qed.

Lemma unbind_all_top : forall syms s, Forall has_key syms ->
  (forall k, cnt (keys syms) k <= depth s k) ->
  exists s', unbind_all syms s = (Ok tt, s') /\ same_rest s' s /\
    forall k, has_global (sget s' k) = has_global (sget s k) /\
              bitems (sget s' k) = skipn (cnt (keys syms) k) (bitems (sget s k)).
Proof.
  induction syms as [|x syms IH]; intros s Hk Hd.
  - exists s. split; [reflexivity|]. split; [apply same_rest_refl|]. intros k. split; reflexivity.
  - inversion Hk as [|? ? Hx Hk']; subst. unfold has_key in Hx.
    destruct (key_of x) as [kx|] eqn:Ex; [|congruence].
    assert (Ekeys : keys (x :: syms) = kx :: keys syms) by (unfold keys; simpl; rewrite Ex; reflexivity).
    pose proof (Hd kx) as Hdx. rewrite Ekeys, cnt_cons_same in Hdx. unfold depth in Hdx.
    destruct (bitems (sget s kx)) as [|y r] eqn:Eb; [simpl in Hdx; lia|].
    set (sa := sput s kx {| has_global := has_global (sget s kx); bitems := r |}).
    assert (Eu : sym_unset x s = (Ok tt, sa)) by (unfold sym_unset, b_unset; rewrite Ex, Eb; reflexivity).
    destruct (IH sa Hk') as (s' & E & HR & HT).
    { intros k. specialize (Hd k). rewrite Ekeys in Hd. unfold sa. destruct (Pos.eq_dec kx k) as [<-|N].
      - rewrite depth_sput_same. simpl. simpl in Hdx. lia.
      - rewrite depth_sput_other by assumption. rewrite cnt_cons_other in Hd by assumption. exact Hd. }
    exists s'. cbn [unbind_all]. unfold bind. rewrite Eu. split; [exact E|].
    split; [eapply same_rest_trans; [eassumption|apply same_rest_sput]|].
    intros k. destruct (HT k) as [H1 H2]. rewrite Ekeys. unfold sa in H1, H2.
    destruct (Pos.eq_dec kx k) as [<-|N].
    + rewrite sget_sput_same in H1, H2. simpl in H1, H2. rewrite cnt_cons_same, Eb. simpl. auto.
    + rewrite sget_sput_other in H1, H2 by assumption. rewrite cnt_cons_other by assumption. auto.
Qed.

(* zip_args on already evaluated arguments does not touch the state *)
Lemma zip_false_pure rec : forall ps args, exists r, forall s, zip_args rec false ps args s = (r, s).
Proof.
  induction ps as [|p ps IH]; intros args; cbn [zip_args].
  - eexists; intros s; reflexivity.
  - assert (K : forall a args', exists r, forall s,
               bind (ret a) (fun v => bind (zip_args rec false ps args')
                  (fun '(vs, rest) => ret (v :: vs, rest))) s = (r, s)).
    { intros a args'. destruct (IH args') as [r Hr]. unfold bind, ret.
      destruct r as [[vs rest]|e|n|]; eexists; intros s; rewrite Hr; reflexivity. }
    destruct (p_opt p).
    + destruct args as [|a args'].
      * destruct (IH []) as [r Hr]. unfold bind, ret.
        destruct r as [[vs rest]|e|n|]; eexists; intros s; rewrite Hr; reflexivity.
      * apply K.
    + destruct (p_rest p).
      * destruct (IH []) as [r Hr]. unfold bind, ret.
        destruct r as [[vs rest]|e|n|]; eexists; intros s; rewrite Hr; reflexivity.
      * destruct args as [|a args']; [eexists; intros s; reflexivity|apply K].
Qed.

Lemma unbind_all_logs : forall syms s r s', unbind_all syms s = (r, s') -> same_rest s' s.
Proof.
  induction syms as [|x syms IH]; intros s r s' H; simpl in H.
  - inversion H; subst. apply same_rest_refl.
  - unfold bind, sym_unset in H. destruct (key_of x) as [k|]; [|inversion H; subst; apply same_rest_refl].
    destruct (b_unset (sget s k)); [|inversion H; subst; apply same_rest_refl].
    eapply same_rest_trans; [eapply IH; eassumption|apply same_rest_sput].
Qed.

Lemma gsuffix_cnt a b k : gsuffix a b -> cnt (glog a) k <= cnt (glog b) k.
Proof. intros [n E]. rewrite E, cnt_app. lia. Qed.

Lemma cnt_pos_In l k : 1 <= cnt l k -> In k l.
Proof. unfold cnt. intros H. apply (count_occ_In Pos.eq_dec). lia. Qed.
Lemma In_cnt_pos l k : In k l -> 1 <= cnt l k.
Proof. unfold cnt. intros H. apply (count_occ_In Pos.eq_dec) in H. lia. Qed.

Definition Hnone : forall k : key, (fun _ : key => @nil sx) k <> [] -> (fun _ : key => False) k :=
  fun k H => H eq_refl.

(* ---- the two ways of running a self tail call ----------------------------------- *)
Section Tramp.
Variable F : fops.
Variable f : nat.
Variables (ps body : sx) (pl : list param).
Hypothesis Hpl : parse_params ps = Ok pl.
Hypothesis Hbind : Forall bindable (map p_sym pl).

Notation rec := (run F f).
Notation syms := (map p_sym pl).

(* the loop of the implementation: pop the frame, then start the next call *)
Fixpoint tramp (k : nat) (r0 : sx) : M sx :=
  match k with
  | O => lift Fuel
  | Datatypes.S k' =>
      if is_bounced r0 then
        a <- lift (cdr_of r0) ;;
        r' <- eval_function rec false ps body a ;;
        tramp k' r'
      else ret r0
  end.

(* ordinary recursion: the next call runs while the caller's frame is still bound *)
Fixpoint nested (k : nat) (r0 : sx) : M sx :=
  match k with
  | O => lift Fuel
  | Datatypes.S k' =>
      if is_bounced r0 then
        a <- lift (cdr_of r0) ;;
        pl' <- lift (parse_params ps) ;;
        '(vs, rest) <- zip_args rec false pl' (items a) ;;
        match rest with
        | _ :: _ => fail EType
        | [] =>
            _ <- bind_all (map p_sym pl') vs [] ;;
            catch (r <- eval_progn rec body ;; nested k' r)
                  (fun r => _ <- unbind_all (map p_sym pl') ;; lift r)
        end
      else ret r0
  end.

Definition frame (m : M sx) (vs : list sx) : M sx :=
  bind (bind_all syms vs [])
       (fun _ => catch m (fun r => bind (unbind_all syms) (fun _ => lift r))).

Definition after_zip (z : res (list sx * list sx)) (s : st) (k : list sx -> M sx) : res sx * st :=
  match z with
  | Ok (vs, []) => k vs s
  | Ok (_, _ :: _) => (Err EType, s)
  | Err e => (Err e, s)
  | Panic n => (Panic n, s)
  | Fuel => (Fuel, s)
  end.

Lemma ef_unfold a z s : (forall s, zip_args rec false pl (items a) s = (z, s)) ->
  eval_function rec false ps body a s = after_zip z s (frame (eval_progn rec body)).
Proof.
  intros Hz. unfold eval_function, bind at 1, lift. rewrite Hpl. unfold bind at 1. rewrite Hz.
  destruct z as [[vs rest]|e|n|]; try reflexivity. destruct rest; reflexivity.
Qed.

Lemma nested_unfold k a z s : (forall s, zip_args rec false pl (items a) s = (z, s)) ->
  nested (Datatypes.S k) (Cons Bounce a) s =
  after_zip z s (frame (bind (eval_progn rec body) (nested k))).
Proof.
  intros Hz. cbn [nested is_bounced cdr_of]. unfold bind at 1, lift. unfold bind at 1. rewrite Hpl.
  unfold bind at 1. rewrite Hz.
  destruct z as [[vs rest]|e|n|]; try reflexivity. destruct rest; reflexivity.
Qed.

Lemma tramp_unfold k a s :
  tramp (Datatypes.S k) (Cons Bounce a) s =
  bind (eval_function rec false ps body a) (tramp k) s.
Proof. reflexivity. Qed.

Lemma bounced_shape r0 : is_bounced r0 = true -> exists a, r0 = Cons Bounce a.
Proof.
  destruct r0; try discriminate. destruct r0_1; try discriminate. intros _. eexists; reflexivity.
Qed.

Lemma Hkeys : Forall has_key syms.
Proof. apply parse_params_keys with (ps := ps). exact Hpl. Qed.

(* the balance and growth facts of ordinary recursion *)
Lemma nested_R0 : forall k r0, R0 (nested k r0) (nested k r0).
Proof.
  induction k as [|k IH]; intros r0.
  - intros s r s' H Hr. inversion H; subst. congruence.
  - destruct (is_bounced r0) eqn:Eb; [|cbn [nested]; rewrite Eb; apply R0_ret].
    destruct (bounced_shape _ Eb) as [a ->].
    destruct (zip_false_pure rec pl (items a)) as [z Hz].
    intros s r s' H Hr. rewrite (nested_unfold k a z s Hz) in *.
    destruct z as [[vs rest]|e|n|]; simpl in *.
    + destruct rest; [|inversion H; subst; split; [reflexivity|split; [apply Inv_refl|reflexivity]]].
      split; [assumption|].
      unfold frame, bind at 1 in H.
      destruct (bind_all syms vs [] s) as [r3 s3] eqn:Eba.
      pose proof (zip_args_len _ _ _ _ _ _ _ _ (Hz s)) as Hl.
      destruct (bind_all_spec syms vs [] s s r3 s3) as [(-> & Hk & HB)|(e0 & -> & I)];
        [rewrite map_length; assumption|constructor|apply Inv_refl|assumption| |].
      * simpl in Hk, HB.
        eapply (bracket_R0 _ (bind (eval_progn rec body) (nested k))); try eassumption.
        apply R0_bind; [apply eval_progn_R; intros t; apply run_self|exact IH].
      * inversion H; subst. split; [assumption|reflexivity].
    + inversion H; subst. split; [reflexivity|split; [apply Inv_refl|reflexivity]].
    + pose proof (zip_args_R rec rec (fun t => run_self F f t) false pl (items a) s _ _ (Hz s)) as Hn.
      destruct Hn as (_ & _ & Hn); [discriminate|]. discriminate.
    + inversion H; subst. congruence.
Qed.

Lemma nested_G : forall k r0, G (nested k r0).
Proof.
  induction k as [|k IH]; intros r0; cbn [nested].
  - apply G_lift.
  - destruct (is_bounced r0); [|apply (G_lift (Ok r0))].
    apply G_bind; [apply G_lift|]. intros a.
    apply G_bind; [apply G_lift|]. intros pl'.
    apply G_bind.
    { apply (proj1 (zip_args_R2 (fun _ => []) (fun _ => 0) (fun _ => False)
                      rec rec (run_R2 _ _ _ Hnone F f) false pl' (items a))). }
    intros [vs rest]. destruct rest; [|apply (G_lift (Err EType))].
    apply G_bind; [apply G_bind_all|]. intros _.
    apply G_catch.
    + apply G_bind; [|exact IH].
      apply (proj1 (eval_progn_R2 (fun _ => []) (fun _ => 0) (fun _ => False)
                      rec rec (run_R2 _ _ _ Hnone F f) body)).
    + intros r. apply G_bind; [apply G_unbind_all|intros; apply G_lift].
Qed.


(* ---- the simulation ----------------------------------------------------------------- *)
Definition pk : list key := keys syms.
(* no parameter symbol is given a global value or a macro definition by the run *)
Definition quietP (s s' : st) : Prop :=
  forall key, In key pk -> cnt (glog s') key = cnt (glog s) key /\ mc s' key = mc s key.
(* a parameter symbol that is unbound outside the call has no global marker *)
Definition cleanP (s : st) : Prop :=
  forall key, In key pk -> depth s key = 0 -> has_global (sget s key) = false.
Definition trkP (key : key) : Prop := In key pk.

Lemma same_rest_glog a b : same_rest a b -> glog a = glog b.
Proof. intros (_ & _ & _ & _ & _ & _ & _ & _ & _ & E). exact E. Qed.
Lemma same_rest_mlog a b : same_rest a b -> mlog a = mlog b.
Proof. intros (_ & _ & _ & _ & _ & _ & _ & _ & E & _). exact E. Qed.

Lemma skipn_len_app {A} (a b : list A) c : List.length a = c -> skipn c (a ++ b) = b.
Proof. intros <-. apply skipn_app_exact. Qed.

Lemma sim : forall k r0 H s1 s2 r s1',
  Top H s1 s2 -> (forall key, H key <> [] -> In key pk) -> cleanP s2 ->
  nested k r0 s1 = (r, s1') -> r <> Fuel -> quietP s1 s1' ->
  exists s2', tramp k r0 s2 = (r, s2') /\ Top H s1' s2'.
Proof.
  induction k as [|k IH]; intros r0 H s1 s2 r s1' HT HH HC HN Hr HQ.
  - inversion HN; subst; congruence.
  - destruct (is_bounced r0) eqn:Eb.
    2:{ cbn [nested tramp] in *. rewrite Eb in *. inversion HN; subst. exists s2. split; [reflexivity|assumption]. }
    destruct (bounced_shape _ Eb) as [a ->].
    destruct (zip_false_pure rec pl (items a)) as [z Hz].
    rewrite (nested_unfold k a z s1 Hz) in HN.
    rewrite tramp_unfold. unfold bind at 1. rewrite (ef_unfold a z s2 Hz).
    destruct z as [[vs rest]|e|n|]; simpl in HN |- *.
    2,3: inversion HN; subst; exists s2; split; [reflexivity|assumption].
    2: inversion HN; subst; congruence.
    destruct rest; [|inversion HN; subst; exists s2; split; [reflexivity|assumption]].
    pose proof (zip_args_len _ _ _ _ _ _ _ _ (Hz s1)) as Hl.
    assert (Hl' : List.length vs = List.length syms) by (rewrite map_length; exact Hl).
    unfold frame in *. unfold bind at 1 in HN. unfold bind at 1.
    destruct (bind_all_top syms vs [] s1 Hbind Hl') as (sa1 & Eb1 & T1).
    destruct (bind_all_top syms vs [] s2 Hbind Hl') as (sa2 & Eb2 & T2).
    rewrite Eb1 in HN. rewrite Eb2.
    unfold catch in HN. destruct (bind (eval_progn rec body) (nested k) sa1) as [rc sc1] eqn:Ec.
    assert (Hrc : rc <> Fuel) by (intros ->; inversion HN; subst; congruence).
    assert (HN' : bind (unbind_all syms) (fun _ => lift rc) sc1 = (r, s1')) by (destruct rc; auto; congruence).
    clear HN.
    unfold bind at 1 in Ec. destruct (eval_progn rec body sa1) as [r1 sb1] eqn:Ebody.
    assert (Hr1 : r1 <> Fuel) by (intros ->; inversion Ec; subst; congruence).
    (* growth of the two ghost logs over the segments of the run *)
    assert (Gb : gsuffix sa1 sb1).
    { apply (proj1 (eval_progn_R2 (fun _ => []) (fun _ => 0) (fun _ => False)
                      rec rec (run_R2 _ _ _ Hnone F f) body) _ _ _ Ebody Hr1). }
    destruct (eval_progn_R rec rec (fun t => run_self F f t) body sa1 r1 sb1 Ebody Hr1) as (_ & Ib & _).
    assert (GIn : gsuffix sb1 sc1 /\ forall key, mc sb1 key <= mc sc1 key).
    { destruct r1 as [v|e|n|]; try (inversion Ec; subst; split; [apply gsuffix_refl|intros; lia]).
      split; [apply (nested_G k v _ _ _ Ec Hrc)|].
      destruct (nested_R0 k v _ _ _ Ec Hrc) as (_ & In_ & _). intros key. specialize (In_ key). lia. }
    destruct GIn as [Gn In_].
    assert (Su : same_rest s1' sc1).
    { unfold bind in HN'. destruct (unbind_all syms sc1) as [ru su] eqn:Eu.
      pose proof (unbind_all_logs _ _ _ _ Eu) as L.
      destruct ru; inversion HN'; subst; assumption. }
    pose proof (proj1 T1) as S1.
    assert (QQ : forall key, In key pk ->
               (cnt (glog sb1) key = cnt (glog sa1) key /\ mc sb1 key = mc sa1 key) /\
               (cnt (glog sc1) key = cnt (glog sb1) key /\ mc sc1 key = mc sb1 key)).
    { intros key Hk. destruct (HQ key Hk) as [Q1 Q2].
      pose proof (gsuffix_cnt _ _ key Gb) as C1. pose proof (gsuffix_cnt _ _ key Gn) as C2.
      pose proof (Ib key) as (_ & _ & M1). pose proof (In_ key) as M2.
      unfold mc in *. rewrite (same_rest_glog _ _ Su) in Q1. rewrite (same_rest_mlog _ _ Su) in Q2.
      rewrite <- (same_rest_glog _ _ S1) in Q1. rewrite <- (same_rest_mlog _ _ S1) in Q2. lia. }
    set (hf := fun key => depth s2 key).
    (* after binding the parameters the pending callers' entries are buried *)
    assert (HSa : SR H hf sa1 sa2).
    { split.
      - eapply same_rest_trans; [exact S1|]. eapply same_rest_trans; [exact (proj1 HT)|].
        apply same_rest_sym. exact (proj1 T2).
      - intros key. destruct T1 as [_ T1]. destruct T2 as [_ T2]. destruct HT as [_ HT].
        destruct (T1 key) as [A1 A2]. destruct (T2 key) as [B1 B2]. destruct (HT key) as [C1 C2].
        unfold insb. apply binding_eta; [congruence|].
        rewrite A2, C2, B2. unfold hf, depth. rewrite insl_mid. reflexivity. }
    assert (Dsa : forall key, depth sa2 key = cnt pk key + depth s2 key).
    { intros key. destruct T2 as [_ T2]. destruct (T2 key) as [_ B2]. unfold depth. rewrite B2, app_length.
      rewrite pushed_length by assumption. reflexivity. }
    assert (Hwa : wf hf trkP sa2).
    { intros key Ht. pose proof (In_cnt_pos _ _ Ht) as Hc. pose proof (Dsa key) as D. unfold depth in D.
      split; [unfold hf, depth; fold pk in Hc; lia|].
      intros E0. destruct T2 as [_ T2]. destruct (T2 key) as [B1 _]. rewrite B1. apply HC; assumption. }
    assert (Q : quiet hf trkP sa1 sb1).
    { intros key [Ht _]. apply (QQ key Ht). }
    destruct (proj2 (eval_progn_R2 H hf trkP rec rec (run_R2 H hf trkP HH F f) body)
                sa1 sa2 r1 sb1 HSa Hwa Ebody Hr1 Q) as (sb2 & Ebody2 & HSb & Hwb & Db).
    destruct (eval_progn_R rec rec (fun t => run_self F f t) body sa2 r1 sb2 Ebody2 Hr1) as (_ & Ib2 & _).
    destruct HSb as [RSb HSb].
    assert (Dsb : forall key, In key pk -> depth sb2 key = depth sa2 key).
    { intros key Hk. pose proof (Ib2 key) as (I1 & I2 & _). change (cnt [] key) with 0 in *.
      destruct (QQ key Hk) as [[_ M] _]. unfold mc in *.
      rewrite (same_rest_mlog _ _ RSb) in M.
      rewrite (same_rest_mlog _ _ (proj1 HSa)) in M.
      pose proof (In_cnt_pos _ _ Hk) as Hc. pose proof (Dsa key) as D. lia. }
    (* the loop pops its frame *)
    destruct (unbind_all_top syms sb2 Hkeys) as (sc2 & Eu2 & Ru2 & Tu2).
    { intros key. specialize (Db key). pose proof (Dsa key) as D. fold pk. lia. }
    assert (EF : catch (eval_progn rec body) (fun r => bind (unbind_all syms) (fun _ => lift r)) sa2 = (r1, sc2)).
    { unfold catch. rewrite Ebody2. unfold bind. destruct r1; try congruence; rewrite Eu2; reflexivity. }
    rewrite EF.
    set (H' := fun key => firstn (cnt pk key) (bitems (sget sb2 key)) ++ H key).
    assert (Lq : forall key, List.length (firstn (cnt pk key) (bitems (sget sb2 key))) = cnt pk key).
    { intros key. apply firstn_length_le. specialize (Db key). pose proof (Dsa key) as D. unfold depth in *. lia. }
    assert (TQ : Top H' sb1 sc2).
    { split; [eapply same_rest_trans; [exact RSb|apply same_rest_sym; exact Ru2]|].
      intros key. destruct (Tu2 key) as [U1 U2]. rewrite (HSb key). unfold insb; simpl.
      split; [congruence|]. rewrite U2. fold pk. unfold H'.
      destruct (H key) as [|h0 ht] eqn:EH.
      - rewrite insl_nil, app_nil_r, firstn_skipn. reflexivity.
      - assert (Hk : In key pk) by (apply HH; rewrite EH; discriminate).
        rewrite (insl_split _ (hf key) (cnt pk key)).
        + rewrite <- app_assoc. reflexivity.
        + pose proof (Dsb key Hk) as D1. pose proof (Dsa key) as D2. unfold hf, depth in *. lia. }
    assert (HH' : forall key, H' key <> [] -> In key pk).
    { intros key Hne. destruct (Nat.eq_dec (cnt pk key) 0) as [E0|N0].
      - apply HH. unfold H' in Hne. rewrite E0 in Hne. exact Hne.
      - apply cnt_pos_In. lia. }
    assert (HC' : cleanP sc2).
    { intros key Hk Hd0. destruct (Tu2 key) as [U1 U2]. rewrite U1.
      apply (proj2 (Hwb key Hk)). unfold hf.
      pose proof (Dsb key Hk) as D1. pose proof (Dsa key) as D2.
      unfold depth in Hd0. rewrite U2, skipn_length in Hd0. fold pk in Hd0. unfold depth in *. lia. }
    (* the pending caller pops its frame once the callee has returned *)
    assert (Tail : forall s2'', Top H' sc1 s2'' -> exists su, unbind_all syms sc1 = (Ok tt, su) /\ Top H su s2'').
    { intros s2'' [RT TT]. destruct (unbind_all_top syms sc1 Hkeys) as (su & Eu1 & Ru1 & Tu1).
      - intros key. destruct (TT key) as [_ B]. unfold depth. rewrite B. unfold H'. rewrite !app_length, Lq. fold pk. lia.
      - exists su. split; [exact Eu1|]. split; [eapply same_rest_trans; eassumption|].
        intros key. destruct (Tu1 key) as [U1 U2]. destruct (TT key) as [B1 B2].
        split; [congruence|]. rewrite U2, B2. unfold H'. rewrite <- app_assoc. fold pk.
        apply skipn_len_app. apply Lq. }
    destruct r1 as [v|e|n|].
    + destruct (IH v H' sb1 sc2 rc sc1 TQ HH' HC' Ec Hrc) as (s2'' & Et & TT).
      { intros key Hk. apply (QQ key Hk). }
      destruct (Tail s2'' TT) as (su & Eu1 & TS).
      unfold bind in HN'. rewrite Eu1 in HN'. inversion HN'; subst.
      exists s2''. split; [exact Et|exact TS].
    + inversion Ec; subst. destruct (Tail sc2 TQ) as (su & Eu1 & TS).
      unfold bind in HN'. rewrite Eu1 in HN'. inversion HN'; subst.
      exists sc2. split; [reflexivity|exact TS].
    + inversion Ec; subst. destruct (Tail sc2 TQ) as (su & Eu1 & TS).
      unfold bind in HN'. rewrite Eu1 in HN'. inversion HN'; subst.
      exists sc2. split; [reflexivity|exact TS].
    + congruence.
Qed.


(* the unrolled loop is the interpreter's TTramp task, given enough fuel *)
Lemma run_RT_le g g' : g <= g' -> forall t, RT t (run F g t) (run F g' t).
Proof.
  intros Hle t s r s' H Hr Hp. split; [eapply run_mono; eassumption|].
  eapply run_inv; eassumption.
Qed.

Lemma tramp_run : forall k r0 s r s',
  tramp k r0 s = (r, s') -> r <> Fuel -> run F (f + k) (TTramp ps body r0) s = (r, s').
Proof.
  induction k as [|k IH]; intros r0 s r s' H Hr.
  - inversion H; subst; congruence.
  - rewrite Nat.add_succ_r.
    change (run F (Datatypes.S (f + k)) (TTramp ps body r0))
      with (step F (run F (f + k)) (run_body F (run F (f + k))) (TTramp ps body r0)).
    cbn [step]. cbn [tramp] in H. destruct (is_bounced r0) eqn:Eb; [|exact H].
    destruct (bounced_shape _ Eb) as [a ->]. cbn [cdr_of] in *.
    unfold bind at 1, lift in H. unfold bind at 1, lift.
    unfold bind at 1 in H. unfold bind at 1.
    destruct (eval_function rec false ps body a s) as [r1 sm] eqn:Ef.
    assert (Hr1 : r1 <> Fuel) by (intros ->; inversion H; subst; congruence).
    destruct (eval_function_R rec (run F (f + k)) (run_RT_le f (f + k) ltac:(lia)) false ps body a s r1 sm Ef Hr1)
      as (Ef' & _ & _).
    rewrite Ef'. destruct r1 as [v|e|n|]; try exact H.
    apply IH; assumption.
Qed.

(* C04: ordinary recursion and the trampolined loop give the same outcome and   *)
(* leave the same bindings, for every body and every number of bounces.         *)
Theorem nested_is_tramp k r0 s r s1' :
  nested k r0 s = (r, s1') -> r <> Fuel -> quietP s s1' -> cleanP s ->
  exists s2', run F (f + k) (TTramp ps body r0) s = (r, s2') /\ equiv s1' s2'.
Proof.
  intros HN Hr HQ HC.
  destruct (sim k r0 (fun _ => []) s s r s1' (Top_refl s) ltac:(intros key Hk; congruence) HC HN Hr HQ)
    as (s2' & Et & TT).
  exists s2'. split; [apply tramp_run; assumption|exact TT].
Qed.

End Tramp.

(* states that are equal up to the representation of the store cannot be told apart *)
Theorem equiv_indistinguishable F g t s1 s2 r s1' :
  equiv s1 s2 -> run F g t s1 = (r, s1') -> r <> Fuel ->
  exists s2', run F g t s2 = (r, s2') /\ equiv s1' s2'.
Proof.
  intros [RS HS] H Hr.
  assert (SR0 : forall a b, SR (fun _ => []) (fun _ => 0) a b <-> equiv a b).
  { intros a b. split.
    - intros [R0 S0]. split; [exact R0|]. intros k. rewrite (S0 k). unfold insb; simpl.
      rewrite insl_nil. split; reflexivity.
    - intros [R0 S0]. split; [exact R0|]. intros k. destruct (S0 k) as [A1 A2]. simpl in A2.
      unfold insb. rewrite insl_nil. apply binding_eta; assumption. }
  destruct (proj2 (run_R2 (fun _ => []) (fun _ => 0) (fun _ => False) Hnone F g t) s1 s2 r s1')
    as (s2' & E & HS' & _ & _); try assumption.
  - apply SR0. split; assumption.
  - intros k Hk. destruct Hk.
  - intros k [Hk _]. destruct Hk.
  - exists s2'. split; [exact E|]. apply SR0. exact HS'.
Qed.
