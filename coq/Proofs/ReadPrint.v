(* C09: the parser inverts the token-level printer; string and integer tokens *)
(* are read back from their printed characters.                                *)
From TL Require Import Base.Base Model.Reader Model.Printer Model.Store Model.Eval.
From TL Require Import Proofs.ReaderTotal Proofs.Decimal.
Local Open Scope nat_scope.
Local Open Scope list_scope.

(* ---- the tokens of a data value ------------------------------------------ *)
Fixpoint toks (v : sx) : list tok :=
  match v with
  | Nil => [TIdent name_nil] | T => [TIdent name_t]
  | Int z => [TInt z] | Flt b => [TFlt b] | Str s => [TStr s] | Sym n => [TIdent n]
  | Cons a d =>
      TOpen :: toks a ++
      (fix tl (d : sx) : list tok :=
         match d with
         | Nil => [TClose]
         | Cons a' d' => toks a' ++ tl d'
         | o => TDot :: toks o ++ [TClose]
         end) d
  | Quote v => TQuote :: toks v | Bq v => TBacktick :: toks v
  | Unq v => TComma :: toks v | Splice v => TSplice :: toks v
  | _ => [TErr]
  end.

Definition ttail : sx -> list tok :=
  fix tl (d : sx) : list tok :=
    match d with
    | Nil => [TClose]
    | Cons a' d' => toks a' ++ tl d'
    | o => TDot :: toks o ++ [TClose]
    end.

Lemma toks_cons a d : toks (Cons a d) = TOpen :: ttail (Cons a d).
Proof. reflexivity. Qed.

(* the data values of the property: nil, t, integers, floats, strings, symbols *)
(* (other than the names t and nil), proper and dotted lists, quote marks       *)
Fixpoint rdata (v : sx) : Prop :=
  match v with
  | Nil | T | Int _ | Flt _ | Str _ => True
  | Sym n => n <> name_t /\ n <> name_nil
  | Cons a d => rdata a /\ rdata d
  | Quote x | Bq x | Unq x | Splice x => rdata x
  | _ => False
  end.

Section Parse.
Variable fl : rflags.
Hypothesis t_free : t_interned fl = false.
Hypothesis nil_free : nil_interned fl = false.

Lemma ident_nil sp : ident_value fl name_nil sp = ANil sp.
Proof. unfold ident_value. rewrite nil_free. reflexivity. Qed.
Lemma ident_t sp : ident_value fl name_t sp = AT sp.
Proof. unfold ident_value. rewrite t_free. reflexivity. Qed.
Lemma ident_sym n sp : n <> name_t -> n <> name_nil -> ident_value fl n sp = ASym n sp.
Proof.
  intros H1 H2. unfold ident_value.
  destruct (text_eqb n name_t) eqn:E1; [apply text_eqb_eq in E1; contradiction|].
  destruct (text_eqb n name_nil) eqn:E2; [apply text_eqb_eq in E2; contradiction|].
  reflexivity.
Qed.

Lemma strip_list_none xs sp : strip (AList xs None sp) = of_list (map strip xs) Nil.
Proof. simpl. induction xs as [|x xs IH]; simpl; [reflexivity|]. rewrite IH. reflexivity. Qed.
Lemma strip_list_some xs t sp : xs <> [] ->
  strip (AList xs (Some t) sp) = of_list (map strip xs) (strip t).
Proof.
  intros Hx. destruct xs as [|x0 xs]; [congruence|]. clear Hx. simpl. f_equal.
  induction xs as [|x xs IH]; simpl; [reflexivity|]. rewrite IH. reflexivity.
Qed.

Lemma of_list_snoc xs a d : of_list (xs ++ [a]) d = of_list xs (Cons a d).
Proof. induction xs as [|x xs IH]; simpl; [reflexivity|]. rewrite IH. reflexivity. Qed.

(* the first token of a data value is neither `)` nor `.` *)
Lemma toks_head v : rdata v -> exists t r, toks v = t :: r /\ t <> TClose /\ t <> TDot.
Proof.
  destruct v; simpl; intros H; try contradiction;
    (do 2 eexists; split; [reflexivity|split; congruence]).
Qed.

Lemma toks_nonempty v : toks v <> [].
Proof. destruct v; simpl; intro E; discriminate E. Qed.

Lemma ttail_nonempty d : ttail d <> [].
Proof.
  destruct d; simpl; try (intro E; discriminate E).
  intro E. apply app_eq_nil in E as [E _]. exact (toks_nonempty _ E).
Qed.

Lemma map_fst_cons {A B} (l : list (A * B)) x r :
  map fst l = x :: r -> exists sp l', l = (x, sp) :: l' /\ map fst l' = r.
Proof. destruct l as [|[a b] l]; simpl; intros H; inversion H; subst. eauto. Qed.

Lemma map_fst_nil {A B} (l : list (A * B)) : map fst l = [] -> l = [].
Proof. destruct l; simpl; [reflexivity|discriminate]. Qed.

(* values that are not lists: no recursion into parse_list *)
Definition A_stmt (v : sx) : Prop :=
  rdata v -> forall fuel ts rest, map fst ts = toks v -> List.length ts < fuel ->
  exists a, parse_value fl fuel (ts ++ rest) = Ok (Some (a, rest)) /\ strip a = v.
Definition B_stmt (d : sx) : Prop :=
  rdata d -> forall fuel ts rest start acc, map fst ts = ttail d -> List.length ts < fuel ->
  (acc <> [] \/ d = Nil \/ exists a' d', d = Cons a' d') ->
  exists a, parse_list fl fuel (ts ++ rest) start acc = Ok (a, rest) /\
            strip a = of_list (map strip (rev acc)) d.

Lemma A_atom v : consp v = false ->
  (forall x, sx_size x < sx_size v -> A_stmt x) -> A_stmt v.
Proof.
  intros Hc IH Hd fuel ts rest Hts Hf.
  destruct fuel as [|f]; [lia|].
  destruct v; simpl in Hd; try contradiction; try discriminate Hc; simpl in Hts.
  - (* Nil *) apply map_fst_cons in Hts as (sp & l' & -> & Hl). apply map_fst_nil in Hl. subst.
    simpl app. rewrite parse_value_S. rewrite ident_nil. eexists; split; reflexivity.
  - apply map_fst_cons in Hts as (sp & l' & -> & Hl). apply map_fst_nil in Hl. subst.
    simpl app. rewrite parse_value_S. rewrite ident_t. eexists; split; reflexivity.
  - apply map_fst_cons in Hts as (sp & l' & -> & Hl). apply map_fst_nil in Hl. subst.
    simpl app. rewrite parse_value_S. eexists; split; reflexivity.
  - apply map_fst_cons in Hts as (sp & l' & -> & Hl). apply map_fst_nil in Hl. subst.
    simpl app. rewrite parse_value_S. eexists; split; reflexivity.
  - apply map_fst_cons in Hts as (sp & l' & -> & Hl). apply map_fst_nil in Hl. subst.
    simpl app. rewrite parse_value_S. eexists; split; reflexivity.
  - destruct Hd as [H1 H2].
    apply map_fst_cons in Hts as (sp & l' & -> & Hl). apply map_fst_nil in Hl. subst.
    simpl app. rewrite parse_value_S. rewrite ident_sym by assumption. eexists; split; reflexivity.
  - (* Quote *) apply map_fst_cons in Hts as (sp & l' & -> & Hl).
    simpl app. rewrite parse_value_S. simpl in Hf.
    destruct (IH v ltac:(simpl; lia) Hd f l' rest Hl ltac:(lia)) as (a & Ea & Sa).
    rewrite Ea. eexists; split; [reflexivity|]. simpl. rewrite Sa. reflexivity.
  - apply map_fst_cons in Hts as (sp & l' & -> & Hl).
    simpl app. rewrite parse_value_S. simpl in Hf.
    destruct (IH v ltac:(simpl; lia) Hd f l' rest Hl ltac:(lia)) as (a & Ea & Sa).
    rewrite Ea. eexists; split; [reflexivity|]. simpl. rewrite Sa. reflexivity.
  - apply map_fst_cons in Hts as (sp & l' & -> & Hl).
    simpl app. rewrite parse_value_S. simpl in Hf.
    destruct (IH v ltac:(simpl; lia) Hd f l' rest Hl ltac:(lia)) as (a & Ea & Sa).
    rewrite Ea. eexists; split; [reflexivity|]. simpl. rewrite Sa. reflexivity.
  - apply map_fst_cons in Hts as (sp & l' & -> & Hl).
    simpl app. rewrite parse_value_S. simpl in Hf.
    destruct (IH v ltac:(simpl; lia) Hd f l' rest Hl ltac:(lia)) as (a & Ea & Sa).
    rewrite Ea. eexists; split; [reflexivity|]. simpl. rewrite Sa. reflexivity.
Qed.

Lemma map_fst_app {A B} (l : list (A * B)) l1 l2 :
  map fst l = l1 ++ l2 -> exists a b, l = a ++ b /\ map fst a = l1 /\ map fst b = l2.
Proof.
  revert l. induction l1 as [|x l1 IH]; intros l H.
  - exists [], l. auto.
  - destruct l as [|[y sp] l]; [discriminate|]. simpl in H. inversion H as [[Hy Hl]].
    destruct (IH l Hl) as (a & b & -> & Ha & Hb). exists ((y, sp) :: a), b. simpl. rewrite Ha.
    simpl in Hy. subst. auto.
Qed.

Lemma ttail_atom o : consp o = false -> o <> Nil -> ttail o = TDot :: toks o ++ [TClose].
Proof. destruct o; intros H1 H2; try discriminate H1; try congruence; reflexivity. Qed.

(* the elements and the tail of a list *)
Lemma B_list : forall d, (forall x, sx_size x < sx_size d -> A_stmt x) ->
  (consp d = false -> A_stmt d) -> B_stmt d.
Proof.
  induction d; intros IHA IHo Hd fuel ts rest start acc Hts Hf Hacc;
    try (destruct fuel as [|f]; [lia|]).
  (* every non-list tail: `. o )` *)
  all: try (
    rewrite ttail_atom in Hts by (try reflexivity; discriminate);
    apply map_fst_cons in Hts as (sp & l' & -> & Hl);
    apply map_fst_app in Hl as (to & tc & -> & Hto & Htc);
    apply map_fst_cons in Htc as (esp & l2 & -> & Hl2); apply map_fst_nil in Hl2; subst l2;
    simpl app; rewrite parse_list_S; rewrite <- app_assoc; simpl app;
    match goal with |- context[parse_value fl ?ff (to ++ ?r)] =>
      destruct (IHo eq_refl Hd ff to r Hto ltac:(simpl in Hf; rewrite app_length in Hf; simpl in Hf; lia))
        as (a & Ea & Sa); rewrite Ea end;
    eexists; split; [reflexivity|];
    rewrite strip_list_some;
      [rewrite map_rev, Sa; reflexivity
      |destruct Hacc as [Hacc|[Hacc|(a' & d' & Hacc)]]; try discriminate Hacc;
       intro E; apply Hacc; destruct acc; [reflexivity|simpl in E; destruct (rev acc); discriminate]]).
  - (* Nil *)
    simpl in Hts. apply map_fst_cons in Hts as (esp & l' & -> & Hl). apply map_fst_nil in Hl. subst.
    simpl app. rewrite parse_list_S. eexists; split; [reflexivity|].
    rewrite strip_list_none, map_rev. reflexivity.
  - (* Cons a' d' *)
    destruct Hd as [Hd1 Hd2]. simpl in Hts.
    apply map_fst_app in Hts as (ta & td & -> & Hta & Htd).
    destruct (toks_head d1 Hd1) as (t0 & r0 & Et & Hn1 & Hn2).
    rewrite Et in Hta. apply map_fst_cons in Hta as (sp0 & ta' & -> & Hta').
    assert (Hlen : List.length ((t0, sp0) :: ta') < f /\ List.length td < f).
    { rewrite app_length in Hf. simpl in *.
      assert (td <> []) by (intro E; subst; simpl in Htd; symmetry in Htd; exact (ttail_nonempty _ Htd)).
      destruct td; [congruence|]. simpl in *. lia. }
    destruct Hlen as [Hla Hld].
    assert (Ea : exists a, parse_value fl f (((t0, sp0) :: ta') ++ (td ++ rest)) = Ok (Some (a, td ++ rest))
                           /\ strip a = d1).
    { apply (IHA d1 ltac:(simpl; lia) Hd1 f ((t0, sp0) :: ta') (td ++ rest)); [|assumption].
      simpl. rewrite Hta', Et. reflexivity. }
    destruct Ea as (a & Ea & Sa).
    rewrite <- app_assoc. simpl app in *. rewrite parse_list_S.
    assert (IHd : B_stmt d2).
    { apply IHd2.
      - intros x Hx. apply IHA. simpl. lia.
      - intros Hc. apply IHA. simpl. lia. }
    destruct (IHd Hd2 f td rest start (a :: acc) Htd Hld ltac:(left; discriminate)) as (al & El & Sl).
    destruct t0; try congruence; rewrite Ea, El; (eexists; split; [reflexivity|]);
      rewrite Sl; simpl rev; rewrite map_app; simpl map; rewrite Sa, of_list_snoc; reflexivity.
Qed.

(* the parser inverts the token-level printer, for every data value *)
Theorem parse_inverts_value : forall v, A_stmt v.
Proof.
  intros v. remember (sx_size v) as n eqn:En. revert v En.
  induction n as [n IH] using lt_wf_ind. intros v En.
  assert (IHA : forall x, sx_size x < sx_size v -> A_stmt x)
    by (intros x Hx; apply (IH (sx_size x)); [lia|reflexivity]).
  destruct (consp v) eqn:Ec; [|apply A_atom; assumption].
  destruct v; try discriminate Ec.
  intros Hd fuel ts rest Hts Hf. destruct fuel as [|f]; [lia|].
  rewrite toks_cons in Hts. apply map_fst_cons in Hts as (sp & ts' & -> & Hts').
  simpl app. rewrite parse_value_S.
  destruct (B_list (Cons v1 v2) IHA ltac:(discriminate) Hd f ts' rest sp [] Hts'
              ltac:(simpl in Hf; lia) ltac:(right; right; eauto)) as (al & El & Sl).
  rewrite El. eexists; split; [reflexivity|]. rewrite Sl. reflexivity.
Qed.
End Parse.

(* ---- strings: the reader undoes the escaping of the printer --------------- *)
Lemma read_string_escape : forall s line pos sl sc acc rest,
  exists l p,
    read_string (escape_string s ++ c_dq :: rest) line pos sl sc acc
    = Ok (Some (TStr (rev acc ++ s), Build_span sl sc l p, rest, l, p)).
Proof.
  induction s as [|c s IH]; intros line pos sl sc acc rest.
  - simpl. destruct (advance c_dq line pos) as [l1 p1] eqn:Ea.
    rewrite app_nil_r. eauto.
  - simpl escape_string. destruct (N.eqb c c_dq || N.eqb c c_bslash) eqn:Ee.
    + (* escaped: backslash then the character *)
      simpl app. cbn [read_string].
      destruct (advance c_bslash line pos) as [l1 p1]. rewrite N.eqb_refl.
      destruct (advance c l1 p1) as [l2 p2].
      apply orb_true_iff in Ee as [Ee|Ee]; apply N.eqb_eq in Ee; subst c.
      * change (N.eqb c_dq c_n) with false. change (N.eqb c_dq c_t) with false.
        change (N.eqb c_dq c_bslash) with false. cbv iota. rewrite N.eqb_refl.
        destruct (IH l2 p2 sl sc (c_dq :: acc) rest) as (l & p & E). rewrite E.
        simpl. rewrite <- app_assoc. eauto.
      * change (N.eqb c_bslash c_n) with false. change (N.eqb c_bslash c_t) with false.
        cbv iota. rewrite N.eqb_refl.
        destruct (IH l2 p2 sl sc (c_bslash :: acc) rest) as (l & p & E). rewrite E.
        simpl. rewrite <- app_assoc. eauto.
    + apply orb_false_iff in Ee as [E1 E2].
      simpl app. cbn [read_string]. destruct (advance c line pos) as [l1 p1].
      rewrite E2, E1.
      destruct (IH l1 p1 sl sc (c :: acc) rest) as (l & p & E). rewrite E.
      simpl. rewrite <- app_assoc. eauto.
Qed.
