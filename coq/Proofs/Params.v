(* C02: parameter lists and the distribution of argument values, in closed form. *)
From TL Require Import Base.Base Model.Reader Model.Printer Model.Store Model.Eval.
From TL Require Import Proofs.Calls Proofs.Lists.
Local Open Scope nat_scope.
Local Open Scope list_scope.

Definition mkp (opt : bool) (x : sx) : param := {| p_sym := x; p_opt := opt; p_rest := false |}.
Definition mkreq := mkp false.
Definition mkopt := mkp true.
Definition mkrest (x : sx) : param := {| p_sym := x; p_opt := false; p_rest := true |}.

(* a parameter name: a symbol other than the two markers *)
Definition plain (x : sx) : Prop :=
  exists n, sym_name x = Some n /\ text_eqb n n_optional = false /\ text_eqb n n_rest = false.

Lemma loop_plain L : forall tl opt acc, Forall plain L ->
  parse_params_loop (L ++ tl) opt false acc = parse_params_loop tl opt false (rev (map (mkp opt) L) ++ acc).
Proof.
  induction L as [|x L IH]; intros tl opt acc H; [reflexivity|].
  inversion H as [|? ? (n & Hn & H1 & H2) HL]; subst.
  cbn [app parse_params_loop]. rewrite Hn, H1, H2. rewrite IH by assumption.
  cbn [map rev]. rewrite <- app_assoc. reflexivity.
Qed.

(* the parameter list (R.. [&optional O..] [&rest r]) *)
Definition ptext (R : list sx) (optmark : bool) (O : list sx) (rest : option sx) : list sx :=
  R ++ (if optmark then [Sym n_optional] else []) ++ O ++
  match rest with Some r => [Sym n_rest; r] | None => [] end.
Definition pshape (R O : list sx) (rest : option sx) : list param :=
  map mkreq R ++ map mkopt O ++ match rest with Some r => [mkrest r] | None => [] end.

Lemma n_optional_not_rest : text_eqb n_optional n_rest = false.
Proof. vm_compute. reflexivity. Qed.

Theorem parse_params_shape R optmark O rest :
  Forall plain R -> Forall plain O -> (optmark = false -> O = []) ->
  match rest with Some r => plain r | None => True end ->
  parse_params (of_list (ptext R optmark O rest) Nil) = Ok (pshape R O rest).
Proof.
  intros HR HO Hm Hr. unfold parse_params.
  assert (Hl : listp (of_list (ptext R optmark O rest) Nil) = true) by (destruct (ptext R optmark O rest); reflexivity).
  rewrite Hl, items_proper. unfold ptext, pshape.
  rewrite loop_plain by assumption. rewrite app_nil_r.
  assert (Hrest : forall opt acc,
            parse_params_loop (match rest with Some r => [Sym n_rest; r] | None => [] end) opt false acc =
            Ok (rev acc ++ match rest with Some r => [mkrest r] | None => [] end)).
  { intros opt acc. destruct rest as [r|]; cbn [parse_params_loop sym_name].

      assert (E1 : text_eqb n_rest n_optional = false) by (vm_compute; reflexivity).
      assert (E2 : text_eqb n_rest n_rest = true) by (vm_compute; reflexivity).
      rewrite E1, E2. destruct Hr as (n & Hn & H1 & H2). rewrite Hn, H1, H2. cbn [rev]. reflexivity.
    - rewrite app_nil_r. reflexivity. }
  destruct optmark.
  - cbn [app parse_params_loop sym_name].
    assert (E : text_eqb n_optional n_optional = true) by (vm_compute; reflexivity). rewrite E.
    rewrite loop_plain by assumption. rewrite Hrest.
    rewrite rev_app_distr, !rev_involutive. rewrite <- app_assoc. reflexivity.
  - rewrite (Hm eq_refl). cbn [app map]. rewrite Hrest. rewrite rev_involutive. reflexivity.
Qed.

(* ---- the distribution ------------------------------------------------------- *)
Lemma zip_pure_req R : forall ps vs,
  zip_pure (map mkreq R ++ ps) vs =
  if List.length vs <? List.length R then Err EType
  else match zip_pure ps (skipn (List.length R) vs) with
       | Ok l => Ok (firstn (List.length R) vs ++ l)
       | e => e
       end.
Proof.
  induction R as [|x R IH]; intros ps vs.
  - cbn [map app List.length skipn firstn]. destruct (zip_pure ps vs); reflexivity.
  - cbn [map app zip_pure mkreq mkp p_opt p_rest List.length]. destruct vs as [|v vs].
    + reflexivity.
    + rewrite IH. cbn [List.length skipn firstn].
      change (S (List.length vs) <? S (List.length R)) with (List.length vs <? List.length R).
      destruct (List.length vs <? List.length R); [reflexivity|].
      destruct (zip_pure ps (skipn (List.length R) vs)); reflexivity.
Qed.

Lemma zip_pure_opt O : forall ps vs,
  zip_pure (map mkopt O ++ ps) vs =
  match zip_pure ps (skipn (List.length O) vs) with
  | Ok l => Ok (firstn (List.length O) vs ++ repeat Nil (List.length O - List.length vs) ++ l)
  | e => e
  end.
Proof.
  induction O as [|x O IH]; intros ps vs.
  - cbn [map app List.length skipn firstn repeat Nat.sub]. destruct (zip_pure ps vs); reflexivity.
  - cbn [map app zip_pure mkopt mkp p_opt List.length]. destruct vs as [|v vs].
    + rewrite IH. cbn [List.length skipn firstn Nat.sub repeat]. rewrite skipn_nil, firstn_nil.
      rewrite Nat.sub_0_r. destruct (zip_pure ps []); reflexivity.
    + rewrite IH. cbn [List.length skipn firstn Nat.sub]. destruct (zip_pure ps (skipn (List.length O) vs)); reflexivity.
Qed.

(* Required parameters take the first values in order (too few: an error),      *)
(* optional ones the next values, the missing ones are nil, &rest the list of    *)
(* what is left (nil when nothing is) - whatever the symbols were bound to.       *)
Theorem zip_pure_closed_form R O rest vs :
  zip_pure (pshape R O rest) vs =
  if List.length vs <? List.length R then Err EType
  else Ok (firstn (List.length R) vs ++
           firstn (List.length O) (skipn (List.length R) vs) ++
           repeat Nil (List.length O - (List.length vs - List.length R)) ++
           match rest with
           | Some _ => [of_list (skipn (List.length O) (skipn (List.length R) vs)) Nil]
           | None => []
           end).
Proof.
  unfold pshape. rewrite zip_pure_req. destruct (List.length vs <? List.length R); [reflexivity|].
  rewrite zip_pure_opt. rewrite skipn_length.
  destruct rest as [r|]; cbn [zip_pure mkrest p_opt p_rest]; reflexivity.
Qed.
