(* The reader is total: no panic site is reachable, the fuel given by      *)
(* read_ax always suffices, and the only error is a parse error.           *)
From TL Require Import Base.Base Model.Reader.
Local Open Scope nat_scope.

Ltac brk := match goal with
            | |- context[if ?b then _ else _] => destruct b eqn:?
            end.

Lemma advance_pos c l p : (1 <= snd (advance c l p))%N.
Proof. unfold advance. destruct (N.eqb c c_nl); simpl; lia. Qed.

Lemma advance_eq c l p : exists l1 p1, advance c l p = (l1, p1) /\ (1 <= p1)%N.
Proof.
  destruct (advance c l p) as [l1 p1] eqn:E. exists l1, p1. split; auto.
  pose proof (advance_pos c l p) as H. rewrite E in H. exact H.
Qed.

Lemma usub_ok site a b : (b <= a)%N -> usub site a b = Ok (a - b)%N.
Proof. intros H. unfold usub. destruct (N.ltb a b) eqn:E; auto. apply N.ltb_lt in E. lia. Qed.

(* what a tokenizer step may return *)
Definition good_step (n : nat) (r : res (option (tok * span * text * N * N))) : Prop :=
  match r with
  | Ok None => True
  | Ok (Some (_, _, rest, _, p)) => List.length rest <= n /\ (1 <= p)%N
  | _ => False
  end.

Lemma good_step_mono n m r : n <= m -> good_step n r -> good_step m r.
Proof.
  intros H. destruct r as [[[[[[t sp] rest] l] p]|]| | |]; simpl; auto. intros [A B]; split; auto; lia.
Qed.

Lemma read_string_good cs : forall line pos sl sc acc,
  (1 <= pos)%N -> good_step (List.length cs) (read_string cs line pos sl sc acc).
Proof.
  remember (List.length cs) as n eqn:Hn. revert cs Hn.
  induction n as [n IH] using lt_wf_ind. intros cs Hn line pos sl sc acc Hp.
  destruct cs as [|c r]; simpl in *.
  - split; auto; lia.
  - destruct (advance_eq c line pos) as (l1 & p1 & E1 & Hp1). rewrite E1.
    destruct (N.eqb c c_bslash) eqn:Eb.
    + destruct r as [|e r2]; simpl; auto.
      destruct (advance_eq e l1 p1) as (l2 & p2 & E2 & Hp2). rewrite E2.
      assert (Hrec : forall a, good_step n (read_string r2 l2 p2 sl sc a)).
      { intros a. eapply good_step_mono; [|eapply (IH (List.length r2)); eauto]; subst; simpl; lia. }
      repeat brk; auto.
      rewrite usub_ok by lia. simpl. split; [subst; simpl; lia|auto].
    + destruct (N.eqb c c_dq) eqn:Eq.
      * simpl. split; [subst; simpl; lia|auto].
      * eapply good_step_mono; [|eapply (IH (List.length r)); eauto]; subst; simpl; lia.
Qed.

Lemma scan_ident_len cs : forall line pos first is_int is_float acc out i f rest l p,
  (1 <= pos)%N ->
  scan_ident cs line pos first is_int is_float acc = (out, i, f, rest, l, p) ->
  List.length rest <= List.length cs /\ (1 <= p)%N /\
  (match cs with c :: _ => ident_stop c = false -> List.length rest < List.length cs | [] => True end).
Proof.
  induction cs as [|c r IH]; intros line pos first is_int is_float acc out i f rest l p Hp H; simpl in H.
  - inversion H; subst. simpl. auto.
  - destruct (ident_stop c) eqn:Es.
    + inversion H; subst. simpl. repeat split; auto. intros; discriminate.
    + destruct (advance_eq c line pos) as (l1 & p1 & E1 & Hp1). rewrite E1 in H.
      assert (G : forall a b c0 d, scan_ident r l1 p1 a b c0 d = (out, i, f, rest, l, p) ->
                  List.length rest <= List.length r /\ (1 <= p)%N).
      { intros a b c0 d Hs. eapply IH in Hs; eauto. tauto. }
      assert (K : List.length rest <= List.length r /\ (1 <= p)%N).
      { repeat match type of H with context[if ?b then _ else _] => destruct b eqn:? end; eapply G; eauto. }
      destruct K as [K1 K2]. simpl. repeat split; auto; intros; lia.
Qed.

Lemma skip_comment_len cs : forall line pos r l p,
  skip_comment cs line pos = Some (r, l, p) -> List.length r < List.length cs /\ (1 <= p)%N.
Proof.
  induction cs as [|c cs IH]; intros line pos r l p H; simpl in H; [discriminate|].
  destruct (advance_eq c line pos) as (l1 & p1 & E1 & Hp1). rewrite E1 in H.
  destruct (N.eqb c c_nl).
  - inversion H; subst. simpl. split; auto.
  - apply IH in H. simpl. split; [lia|tauto].
Qed.

Section WithFloat.
Variable F : fops.

Lemma read_num_ident_len cs line pos t sp rest l p :
  (1 <= pos)%N ->
  read_num_ident F cs line pos = (t, sp, rest, l, p) ->
  List.length rest <= List.length cs /\ (1 <= p)%N /\
  (match cs with c :: _ => ident_stop c = false -> List.length rest < List.length cs | [] => True end).
Proof.
  intros Hp H. unfold read_num_ident in H.
  destruct (scan_ident cs line pos true true false []) as [[[[[out i] f] rest0] l0] p0] eqn:E.
  pose proof (scan_ident_len _ _ _ _ _ _ _ _ _ _ _ _ _ Hp E) as K.
  assert (rest = rest0 /\ p = p0).
  { repeat match type of H with context[if ?b then _ else _] => destruct b eqn:? end;
    try destruct (parse_i64 out); try destruct (f_of_dec F out); inversion H; auto. }
  destruct H0; subst. exact K.
Qed.

Lemma tok1_good t r l1 p1 n : (1 <= p1)%N -> List.length r <= n -> good_step n (tok1 t r l1 p1).
Proof. intros. unfold tok1. rewrite usub_ok by lia. simpl. auto. Qed.

Lemma tok2_good t r l1 p1 n : (2 <= p1)%N -> List.length r <= n -> good_step n (tok2 t r l1 p1).
Proof. intros. unfold tok2. rewrite usub_ok by lia. simpl. split; auto; lia. Qed.

(* a step consumes at least one character when it yields a token *)
Lemma next_tok_good fuel : forall cs line pos,
  List.length cs < fuel -> (1 <= pos)%N ->
  good_step (Nat.pred (List.length cs)) (next_tok F fuel cs line pos) /\
  (cs = [] -> next_tok F fuel cs line pos = Ok None).
Proof.
  induction fuel as [|fuel IH]; intros cs line pos Hf Hp; [lia|].
  destruct cs as [|c r]; [simpl; auto|].
  split; [|intros; discriminate].
  cbn [next_tok].
  destruct (advance_eq c line pos) as (l1 & p1 & E1 & Hp1). rewrite E1.
  simpl List.length in *. simpl Nat.pred.
  assert (Hrec : forall r' l' p', List.length r' <= List.length r -> (1 <= p')%N ->
                 good_step (List.length r) (next_tok F fuel r' l' p')).
  { intros r' l' p' Hl Hp'. destruct (IH r' l' p') as [G _]; [lia|auto|].
    eapply good_step_mono; [|exact G]. lia. }
  brk; [apply Hrec; auto|].
  brk; [apply tok1_good; auto|].
  brk; [apply tok1_good; auto|].
  brk; [apply tok1_good; auto|].
  brk; [apply tok1_good; auto|].
  brk; [apply tok1_good; auto|].
  brk.
  { destruct r as [|c2 r2]; simpl; auto.
    brk.
    - destruct (advance_eq c2 l1 p1) as (l2 & p2 & E2 & Hp2). rewrite E2.
      apply tok2_good; [|simpl; lia].
      unfold advance in E2. destruct (N.eqb c2 c_nl) eqn:En.
      + apply N.eqb_eq in En. apply N.eqb_eq in Heqb6. subst. discriminate.
      + inversion E2; subst. lia.
    - apply tok1_good; auto. }
  brk.
  { destruct r as [|c2 r2]; simpl; auto.
    brk.
    - destruct (advance_eq c2 l1 p1) as (l2 & p2 & E2 & Hp2). rewrite E2.
      apply tok2_good; [|simpl; lia].
      unfold advance in E2. destruct (N.eqb c2 c_nl) eqn:En.
      + apply N.eqb_eq in En. apply N.eqb_eq in Heqb7. subst. discriminate.
      + inversion E2; subst. lia.
    - apply tok1_good; auto. }
  brk.
  { pose proof (read_string_good r l1 p1 l1 p1 [] Hp1) as G. exact G. }
  brk.
  { destruct (skip_comment r l1 p1) as [[[r2 l2] p2]|] eqn:Es; simpl; auto.
    apply skip_comment_len in Es. destruct Es. apply Hrec; auto; lia. }
  destruct (read_num_ident F (c :: r) line pos) as [[[[t sp] rest] l] p] eqn:En.
  apply read_num_ident_len in En; auto. destruct En as (A & B & C).
  simpl. split; auto.
  assert (ident_stop c = false).
  { unfold ident_stop. 
    apply orb_false_iff in Heqb. destruct Heqb as [Heqb Ht].
    apply orb_false_iff in Heqb. destruct Heqb as [Heqb Hc].
    apply orb_false_iff in Heqb. destruct Heqb as [Hn Hs].
    rewrite Heqb1, Hs, Ht, Hn, Hc. reflexivity. }
  specialize (C H). simpl in C. lia.
Qed.

Lemma tokenize_ok fuel : forall cs line pos,
  List.length cs < fuel -> (1 <= pos)%N -> exists ts, tokenize F fuel cs line pos = Ok ts.
Proof.
  induction fuel as [|fuel IH]; intros cs line pos Hf Hp; [lia|].
  cbn [tokenize].
  destruct (next_tok_good (S (List.length cs)) cs line pos) as [G E]; [lia|auto|].
  destruct (next_tok F (S (List.length cs)) cs line pos) as [[[[[[t sp] rest] l] p]|]| | |] eqn:En;
    simpl in G; try contradiction.
  - destruct G as [G1 G2].
    destruct cs as [|c cs'].
    + specialize (E eq_refl). discriminate.
    + simpl in G1, Hf. destruct (IH rest l p) as [ts Hts]; [lia|auto|].
      rewrite Hts. eauto.
  - eauto.
Qed.

(* ------------------------------------------------------------------ *)
(* parser                                                              *)
Variable fl : rflags.

Definition pv_good (ts : toks) (r : res (option (ax * toks))) : Prop :=
  match r with
  | Ok None => ts = []
  | Ok (Some (_, rest)) => List.length rest < List.length ts
  | Err EParse => True
  | _ => False
  end.

Definition pl_good (ts : toks) (r : res (ax * toks)) : Prop :=
  match r with
  | Ok (_, rest) => List.length rest < List.length ts
  | Err EParse => True
  | _ => False
  end.


Lemma parse_value_S fuel ts :
  parse_value fl (S fuel) ts =
  match ts with
  | [] => Ok None
  | (t, sp) :: r =>
      let wrap (mk : ax -> span -> ax) :=
          match parse_value fl fuel r with
          | Ok (Some (x, r2)) => Ok (Some (mk x sp, r2))
          | Ok None => Err EParse
          | Err e => Err e | Panic s => Panic s | Fuel => Fuel
          end in
      match t with
      | TOpen =>
          match parse_list fl fuel r sp [] with
          | Ok (x, r2) => Ok (Some (x, r2))
          | Err e => Err e | Panic s => Panic s | Fuel => Fuel
          end
      | TClose => Err EParse
      | TSharpQuote | TQuote => wrap AQuote
      | TBacktick => wrap ABq
      | TDot => Err EParse
      | TComma => wrap AUnq
      | TSplice => wrap ASplice
      | TStr s => Ok (Some (AStr s sp, r))
      | TInt z => Ok (Some (AInt z sp, r))
      | TFlt b => Ok (Some (AFlt b sp, r))
      | TIdent s => Ok (Some (ident_value fl s sp, r))
      | TErr => Err EParse
      end
  end.
Proof. reflexivity. Qed.

Lemma parse_list_S fuel ts start acc :
  parse_list fl (S fuel) ts start acc =
  match ts with
  | [] => Err EParse
  | (TClose, esp) :: r =>
      Ok (AList (rev acc) None
                (Build_span (s_l start) (s_c start) (e_l esp) (e_c esp)), r)
  | (TDot, _) :: r =>
      match parse_value fl fuel r with
      | Ok (Some (x, r2)) =>
          match r2 with
          | (TClose, esp) :: r3 =>
              Ok (AList (rev acc) (Some x)
                    (Build_span (s_l start) (s_c start) (e_l esp) (e_c esp)), r3)
          | _ => Err EParse
          end
      | Ok None => Err EParse
      | Err e => Err e | Panic s => Panic s | Fuel => Fuel
      end
  | _ =>
      match parse_value fl fuel ts with
      | Ok (Some (x, r2)) => parse_list fl fuel r2 start (x :: acc)
      | Ok None => Panic 10%N
      | Err e => Err e | Panic s => Panic s | Fuel => Fuel
      end
  end.
Proof. reflexivity. Qed.

Lemma parse_good fuel :
  (forall ts, 2 * List.length ts < fuel -> pv_good ts (parse_value fl fuel ts)) /\
  (forall ts start acc, 2 * List.length ts + 1 < fuel -> pl_good ts (parse_list fl fuel ts start acc)).
Proof.
  induction fuel as [|fuel [IHv IHl]]; [split; intros; lia|].
  split.
  - intros ts Hf. rewrite parse_value_S. destruct ts as [|[t sp] r]; [reflexivity|].
    simpl List.length in *.
    assert (Hw : forall mk, pv_good ((t, sp) :: r)
              (match parse_value fl fuel r with
               | Ok (Some (x, r2)) => Ok (Some (mk x sp, r2))
               | Ok None => Err EParse
               | Err e => Err e | Panic s => Panic s | Fuel => Fuel end)).
    { intros mk. pose proof (IHv r) as G. specialize (G ltac:(lia)).
      destruct (parse_value fl fuel r) as [[[x r2]|]|e| |]; simpl in *; auto; try lia.
      all: try (destruct e; auto). }
    destruct t; try apply Hw; simpl; auto; try lia.
    pose proof (IHl r sp [] ltac:(lia)) as G.
    destruct (parse_list fl fuel r sp []) as [[x r2]|e| |]; simpl in *; auto; try lia.
    all: try (destruct e; auto).
  - intros ts start acc Hf. rewrite parse_list_S.
    destruct ts as [|[t sp] r]; [simpl; auto|].
    simpl List.length in *.
    assert (Hgen : pl_good ((t, sp) :: r)
              (match parse_value fl fuel ((t, sp) :: r) with
               | Ok (Some (x, r2)) => parse_list fl fuel r2 start (x :: acc)
               | Ok None => Panic 10%N
               | Err e => Err e | Panic s => Panic s | Fuel => Fuel end)).
    { pose proof (IHv ((t, sp) :: r)) as G. simpl List.length in G. specialize (G ltac:(lia)).
      destruct (parse_value fl fuel ((t, sp) :: r)) as [[[x r2]|]|e| |]; simpl in G; try contradiction.
      - pose proof (IHl r2 start (x :: acc) ltac:(lia)) as G2.
        destruct (parse_list fl fuel r2 start (x :: acc)) as [[y r3]|e| |]; simpl in *; auto; lia.
      - discriminate.
      - destruct e; auto; contradiction. }
    destruct t; try exact Hgen.
    + simpl. lia.
    + pose proof (IHv r ltac:(lia)) as G.
      destruct (parse_value fl fuel r) as [[[x r2]|]|e| |]; simpl in G |- *; auto.
      all: try (destruct e; auto; fail).
      destruct r2 as [|[t2 sp2] r3]; simpl; auto. destruct t2; simpl; auto. simpl in G. lia.
Qed.

Lemma parse_all_ok fuel : forall ts acc,
  List.length ts < fuel ->
  (exists forms, parse_all fl fuel ts acc = Ok forms) \/ parse_all fl fuel ts acc = Err EParse.
Proof.
  induction fuel as [|fuel IH]; intros ts acc Hf; [lia|].
  cbn [parse_all].
  destruct (parse_good (S (2 * List.length ts))) as [Gv _].
  specialize (Gv ts ltac:(lia)).
  destruct (parse_value fl (S (2 * List.length ts)) ts) as [[[x r]|]|e| |]; simpl in Gv; try contradiction.
  - apply IH. lia.
  - left; eauto.
  - destruct e; auto; contradiction.
Qed.

Theorem read_ax_total t :
  (exists forms, read_ax F fl t = Ok forms) \/ read_ax F fl t = Err EParse.
Proof.
  unfold read_ax.
  destruct (tokenize_ok (S (List.length t)) t 1%N 1%N) as [ts Hts]; [lia|lia|].
  rewrite Hts. apply parse_all_ok. lia.
Qed.

End WithFloat.
