(* C18: nesting of activations of the list operations, as functions of the     *)
(* value: the spine of a list is walked by a loop, only the ELEMENTS are        *)
(* entered by a nested activation.  [actD] mirrors the recursion structure of    *)
(* Model/Printer.v print (fmt_list), of Model/Eval.v equal (PartialEq for Cons   *)
(* as repaired) and of the spine copy: one nested activation per level of car    *)
(* nesting, none per cdr step.                                                   *)
From TL Require Import Base.Base Model.Reader Model.Printer Model.Store Model.Eval.
Local Open Scope nat_scope.
Local Open Scope list_scope.

(* activations needed to print / compare / copy a value *)
Fixpoint actD (x : sx) : nat :=
  match x with
  | Cons a d =>
      Nat.max (S (actD a))
        ((fix tl (d : sx) : nat :=
            match d with
            | Nil => 0
            | Cons a' d' => Nat.max (S (actD a')) (tl d')
            | o => S (actD o)
            end) d)
  | Quote v | Bq v | Unq v | Splice v | Sharp v => S (actD v)
  | _ => 0
  end.

Definition spineD : sx -> nat :=
  fix tl (d : sx) : nat :=
    match d with
    | Nil => 0
    | Cons a' d' => Nat.max (S (actD a')) (tl d')
    | o => S (actD o)
    end.

Lemma actD_cons a d : actD (Cons a d) = Nat.max (S (actD a)) (spineD d).
Proof. reflexivity. Qed.

Fixpoint list_max (l : list nat) : nat :=
  match l with [] => 0 | x :: r => Nat.max x (list_max r) end.

(* a proper list of any length: as deep as its deepest element, plus one *)
Theorem spineD_list : forall xs, spineD (of_list xs Nil) = list_max (map (fun x => S (actD x)) xs).
Proof. induction xs as [|x xs IH]; simpl; [reflexivity|]. rewrite <- IH. reflexivity. Qed.

Theorem actD_list : forall x xs,
  actD (of_list (x :: xs) Nil) = list_max (map (fun e => S (actD e)) (x :: xs)).
Proof. intros. cbn [of_list]. rewrite actD_cons, spineD_list. reflexivity. Qed.

(* a list of atoms needs ONE nested activation, whatever its length *)
Definition atom (x : sx) : bool :=
  match x with Cons _ _ | Quote _ | Bq _ | Unq _ | Splice _ | Sharp _ => false | _ => true end.

Lemma actD_atom x : atom x = true -> actD x = 0.
Proof. destruct x; simpl; try reflexivity; discriminate. Qed.

Theorem flat_list_depth_one : forall x xs,
  forallb atom (x :: xs) = true -> actD (of_list (x :: xs) Nil) = 1.
Proof.
  intros x xs H. rewrite actD_list.
  assert (G : forall l, forallb atom l = true -> l <> [] ->
              list_max (map (fun e => S (actD e)) l) = 1).
  { induction l as [|y ys IH]; intros Hl Hn; [congruence|].
    simpl in Hl. apply andb_true_iff in Hl as [Hy Hl].
    cbn [map list_max]. rewrite (actD_atom _ Hy).
    destruct ys as [|z zs]; [reflexivity|]. rewrite IH; [reflexivity|assumption|discriminate]. }
  apply G; [assumption|discriminate].
Qed.

(* appending never deepens: the depth of an append is the max of the parts *)
Theorem append_depth xs ys :
  spineD (of_list (xs ++ ys) Nil) = Nat.max (spineD (of_list xs Nil)) (spineD (of_list ys Nil)).
Proof.
  rewrite !spineD_list. induction xs as [|x xs IH]; cbn [app map list_max]; [reflexivity|].
  rewrite IH. lia.
Qed.

(* the counted loops: length, nthcdr, nth, last are not recursive at all in    *)
(* their model (structural on a number / the spine with an accumulator)         *)
Theorem length_is_a_count xs : length_z (of_list xs Nil) = Z.of_nat (List.length xs).
Proof. unfold length_z. rewrite items_of_list; [reflexivity|intros a d H; discriminate]. Qed.
