(* One traversal of the evaluator of Model/Eval.v that establishes, for   *)
(* every task, every state, every outcome and every fault point:          *)
(*   - fuel monotonicity (an outcome other than Fuel is kept by more fuel) *)
(*   - the binding-stack discipline (C03)                                  *)
(*   - absence of Panic outcomes (C10)                                     *)
From TL Require Import Base.Base Model.Reader Model.Printer Model.Store Model.Eval.
From TL Require Import Proofs.ReaderTotal.
Local Open Scope nat_scope.

(* ------------------------------------------------------------------ *)
(* The invariant on binding stacks                                     *)

Definition cnt (l : list key) (k : key) : nat := count_occ Pos.eq_dec l k.
Definition mc (s : st) (k : key) : nat := cnt (mlog s) k.

(* [Bal pend s0 s]: relative to [s0], state [s] has exactly the pending  *)
(* temporary bindings [pend] (a multiset of keys) in addition; the only   *)
(* other growth is one entry per executed defmacro and the creation of a  *)
(* global entry on an empty stack.                                        *)
Definition Bal (pend : list key) (s0 s : st) : Prop :=
  forall k, depth s0 k + cnt pend k <= depth s k /\
            depth s k + mc s0 k <= Nat.max (depth s0 k) 1 + cnt pend k + mc s k /\
            mc s0 k <= mc s k.

Definition Inv (s s' : st) : Prop := Bal [] s s'.

Lemma Inv_refl s : Inv s s.
Proof. intros k. unfold cnt; simpl. lia. Qed.

Lemma Bal_Inv pend s0 s s' : Bal pend s0 s -> Inv s s' -> Bal pend s0 s'.
Proof.
  intros H1 H2 k. specialize (H1 k). specialize (H2 k). unfold cnt in *; simpl in *. lia.
Qed.

Lemma Inv_Bal pend s0 s s' : Inv s0 s -> Bal pend s s' -> Bal pend s0 s'.
Proof.
  intros H1 H2 k. specialize (H1 k). specialize (H2 k). unfold cnt in *; simpl in *. lia.
Qed.

Lemma Inv_trans s1 s2 s3 : Inv s1 s2 -> Inv s2 s3 -> Inv s1 s3.
Proof. apply Bal_Inv. Qed.

Lemma cnt_cons_same k l : cnt (k :: l) k = S (cnt l k).
Proof. unfold cnt. simpl. destruct (Pos.eq_dec k k); congruence. Qed.
Lemma cnt_cons_other k k' l : k <> k' -> cnt (k :: l) k' = cnt l k'.
Proof. unfold cnt. simpl. destruct (Pos.eq_dec k k'); congruence. Qed.
Lemma cnt_app l1 l2 k : cnt (l1 ++ l2) k = cnt l1 k + cnt l2 k.
Proof. unfold cnt. apply count_occ_app. Qed.

(* states that differ only outside store and mlog *)
Lemma Inv_same s s' : store s' = store s -> mlog s' = mlog s -> Inv s s'.
Proof.
  intros Hs Hm k. unfold depth, sget, mc, cnt. rewrite Hs, Hm. simpl. lia.
Qed.

Lemma depth_sput_same s k b : depth (sput s k b) k = List.length (bitems b).
Proof. unfold depth. rewrite sget_sput_same. reflexivity. Qed.
Lemma depth_sput_other s k k' b : k <> k' -> depth (sput s k b) k' = depth s k'.
Proof. intros H. unfold depth. rewrite sget_sput_other; auto. Qed.
Lemma mc_sput s k b k' : mc (sput s k b) k' = mc s k'.
Proof. reflexivity. Qed.

Lemma length_replace_last l v : List.length (replace_last l v) = Nat.max (List.length l) 1.
Proof.
  induction l as [|x l IH]; simpl; auto.
  destruct l as [|y l]; simpl in *; auto. rewrite IH. lia.
Qed.

Lemma b_set_len b v : List.length (bitems (b_set b v)) = Nat.max (List.length (bitems b)) 1.
Proof. unfold b_set. destruct (bitems b) as [|x r]; simpl; lia. Qed.

(* assignment: the innermost entry replaced, or a global created *)
Lemma Inv_set s k v : Inv s (sput s k (b_set (sget s k) v)).
Proof.
  intros k'. rewrite mc_sput. unfold cnt at 1 2; simpl.
  destruct (Pos.eq_dec k k') as [<-|N].
  - rewrite depth_sput_same, b_set_len. fold (depth s k). lia.
  - rewrite depth_sput_other by auto. lia.
Qed.

Lemma Inv_set_global s k v : Inv s (sput s k (b_set_global (sget s k) v)).
Proof.
  intros k'. rewrite mc_sput. unfold cnt at 1 2; simpl.
  destruct (Pos.eq_dec k k') as [<-|N].
  - rewrite depth_sput_same. unfold b_set_global; simpl. rewrite length_replace_last.
    fold (depth s k). lia.
  - rewrite depth_sput_other by auto. lia.
Qed.

(* a temporary binding is pushed *)
Lemma Bal_push pend s0 s k v :
  Bal pend s0 s -> Bal (k :: pend) s0 (sput s k (b_set_scope (sget s k) v)).
Proof.
  intros H k'. specialize (H k'). rewrite mc_sput.
  destruct (Pos.eq_dec k k') as [<-|N].
  - rewrite depth_sput_same, cnt_cons_same. unfold b_set_scope; simpl.
    fold (depth s k). lia.
  - rewrite depth_sput_other, cnt_cons_other by auto. lia.
Qed.

(* a pending temporary binding is popped: the pop cannot fail *)
Lemma Bal_pop pend1 pend2 s0 s k :
  Bal (pend1 ++ k :: pend2) s0 s ->
  exists b, b_unset (sget s k) = Some b /\ Bal (pend1 ++ pend2) s0 (sput s k b).
Proof.
  intros H. pose proof (H k) as Hk. rewrite cnt_app, cnt_cons_same in Hk.
  unfold b_unset. unfold depth at 2 3 in Hk.
  destruct (bitems (sget s k)) as [|x r] eqn:E; simpl in Hk; [lia|].
  eexists; split; [reflexivity|].
  intros k'. specialize (H k'). rewrite mc_sput. rewrite cnt_app in *.
  destruct (Pos.eq_dec k k') as [<-|N].
  - rewrite depth_sput_same. simpl. rewrite cnt_cons_same in H.
    unfold depth at 2 3 in H. rewrite E in H. simpl in H. lia.
  - rewrite depth_sput_other by auto. rewrite cnt_cons_other in H by auto. lia.
Qed.

(* an executed defmacro: one permanent entry, recorded in the ghost log *)
Lemma Inv_defmacro s k v s' :
  store s' = store (sput s k (b_set_scope (sget s k) v)) -> mlog s' = k :: mlog s -> Inv s s'.
Proof.
  intros Hs Hm k'.
  assert (D : depth s' k' = depth (sput s k (b_set_scope (sget s k) v)) k')
    by (unfold depth, sget; rewrite Hs; reflexivity).
  assert (Mc : mc s' k' = cnt (k :: mlog s) k') by (unfold mc; rewrite Hm; reflexivity).
  rewrite D, Mc. change (cnt [] k') with 0. unfold mc.
  destruct (Pos.eq_dec k k') as [<-|N].
  - rewrite depth_sput_same, cnt_cons_same. simpl. fold (depth s k). lia.
  - rewrite depth_sput_other, cnt_cons_other by auto. lia.
Qed.

(* ------------------------------------------------------------------ *)
(* Outcomes that are not panics                                        *)

Definition np {A} (r : res A) : Prop := is_panic r = false.

Lemma np_Ok {A} (a : A) : np (Ok a). Proof. reflexivity. Qed.
Lemma np_Err {A} e : np (@Err A e). Proof. reflexivity. Qed.
Lemma np_Fuel {A} : np (@Fuel A). Proof. reflexivity. Qed.
#[export] Hint Resolve np_Ok np_Err np_Fuel : np.

(* ------------------------------------------------------------------ *)
(* The relation between two instances of one monadic computation        *)

Definition R0 {A} (m1 m2 : M A) : Prop :=
  forall s r s', m1 s = (r, s') -> r <> Fuel ->
                 m2 s = (r, s') /\ Inv s s' /\ np r.

Lemma R0_ret {A} (a : A) : R0 (ret a) (ret a).
Proof. intros s r s' H _. inversion H; subst. split; [reflexivity|split; [apply Inv_refl|reflexivity]]. Qed.

Lemma R0_fail {A} e : R0 (@fail A e) (fail e).
Proof. intros s r s' H _. inversion H; subst. split; [reflexivity|split; [apply Inv_refl|reflexivity]]. Qed.

Lemma R0_lift {A} (r : res A) : np r -> R0 (lift r) (lift r).
Proof. intros Hn s r' s' H _. inversion H; subst. split; [reflexivity|split; [apply Inv_refl|assumption]]. Qed.

Lemma R0_bind {A B} (m1 m2 : M A) (f1 f2 : A -> M B) :
  R0 m1 m2 -> (forall a, R0 (f1 a) (f2 a)) -> R0 (bind m1 f1) (bind m2 f2).
Proof.
  intros Hm Hf s r s' H Hr. unfold bind in *.
  destruct (m1 s) as [r1 s1] eqn:E1.
  destruct r1 as [a|e|n|].
  - destruct (Hm _ _ _ E1) as (E2 & I1 & _); [discriminate|]. rewrite E2.
    destruct (Hf a _ _ _ H Hr) as (E3 & I2 & N). split; [assumption|].
    split; [eapply Inv_trans; eassumption|assumption].
  - inversion H; subst. destruct (Hm _ _ _ E1) as (E2 & I1 & N); [discriminate|].
    rewrite E2. auto.
  - inversion H; subst. destruct (Hm _ _ _ E1) as (E2 & I1 & N); [discriminate|].
    rewrite E2. auto.
  - inversion H; subst. congruence.
Qed.

Lemma R0_catch {A B} (m1 m2 : M A) (k1 k2 : res A -> M B) :
  R0 m1 m2 -> (forall r, r <> Fuel -> np r -> R0 (k1 r) (k2 r)) ->
  R0 (catch m1 k1) (catch m2 k2).
Proof.
  intros Hm Hk s r s' H Hr. unfold catch in *.
  destruct (m1 s) as [r1 s1] eqn:E1.
  assert (r1 <> Fuel) as Hr1.
  { intros ->. inversion H; subst. congruence. }
  destruct (Hm _ _ _ E1 Hr1) as (E2 & I1 & N1). rewrite E2.
  assert (k1 r1 s1 = (r, s')) as H' by (destruct r1; auto; congruence).
  destruct (Hk r1 Hr1 N1 _ _ _ H' Hr) as (E3 & I2 & N2).
  split; [destruct r1; auto; congruence|].
  split; [eapply Inv_trans; eassumption|assumption].
Qed.

(* a computation that does not depend on the recursive instance *)
Definition R0s {A} (m : M A) : Prop := R0 m m.

Lemma R0_state {A} (m : M A) :
  (forall s r s', m s = (r, s') -> Inv s s' /\ np r) -> R0 m m.
Proof. intros H s r s' E _. split; [assumption|apply H; assumption]. Qed.

(* ------------------------------------------------------------------ *)
(* The pure helpers never produce a Panic outcome                       *)

Ltac np_step IH :=
  match goal with
  | |- np (match ?x with _ => _ end) =>
      lazymatch type of x with
      | res _ => let H := fresh "Hnp" in
                 assert (H : np x) by (first [solve [auto with np] | solve [apply IH]]);
                 destruct x; try discriminate H; clear H
      | _ => destruct x
      end
  | |- np (if ?x then _ else _) => destruct x
  end.
Ltac np_crush IH := repeat (np_step IH); auto with np.
Ltac np_auto := np_crush I.

Lemma car_of_np x : np (car_of x). Proof. destruct x; reflexivity. Qed.
Lemma cdr_of_np x : np (cdr_of x). Proof. destruct x; reflexivity. Qed.
#[export] Hint Resolve car_of_np cdr_of_np : np.

Lemma cxr_np p x : np (cxr p x).
Proof. induction p as [|b p IH]; simpl; [reflexivity|]. np_crush IH. Qed.
Lemma push2_np l x : np (push2 l x). Proof. unfold push2. np_auto. Qed.
Lemma append2_np l x : np (append2 l x). Proof. unfold append2. np_auto. Qed.
#[export] Hint Resolve cxr_np push2_np append2_np : np.

Section PureF.
Variable F : fops.

Lemma try_float_np x : np (try_float F x). Proof. destruct x; reflexivity. Qed.
Lemma as_int_np x : np (as_int x). Proof. destruct x; reflexivity. Qed.
Lemma try_int_np x : np (try_int F x). Proof. destruct x; reflexivity. Qed.
Lemma checked_np z : np (checked z). Proof. unfold checked. np_auto. Qed.
Hint Resolve try_float_np as_int_np try_int_np checked_np : np.
Lemma int_mod_np a b : np (int_mod a b). Proof. unfold int_mod. np_auto. Qed.
Hint Resolve int_mod_np : np.
Lemma int_op_np o a b : np (int_op o a b). Proof. destruct o; simpl; np_auto. Qed.
Hint Resolve int_op_np : np.
Lemma binop_np o a b : np (binop F o a b). Proof. unfold binop. np_auto. Qed.
Lemma maxmin_np m a b : np (maxmin F m a b). Proof. unfold maxmin. np_auto. Qed.
Lemma compare2_np c a b : np (compare2 F c a b). Proof. unfold compare2. np_auto. Qed.

Lemma nthcdr_nat_np n : forall l, np (nthcdr_nat n l).
Proof. induction n as [|n IH]; intros l; simpl; [reflexivity|]. destruct l; auto with np. Qed.
Hint Resolve nthcdr_nat_np : np.
Lemma nthcdr_np n l : np (nthcdr n l). Proof. unfold nthcdr. np_auto. Qed.
Hint Resolve nthcdr_np : np.
Lemma nth_np n l : np (nth n l). Proof. unfold nth. np_auto. Qed.
Lemma last_np l n : np (last l n). Proof. unfold last. np_auto. Qed.
Hint Resolve nth_np last_np : np.

Lemma plist_get_np : forall pl prop, np (plist_get pl prop).
Proof.
  fix IH 1. intros pl prop. destruct pl; try reflexivity. simpl.
  destruct (eq_model pl1 prop) as [[|]|]; try reflexivity.
  - destruct pl2; reflexivity.
  - destruct pl2; try reflexivity. apply IH.
Qed.

Lemma format_loop_np : forall inp args acc, np (format_loop F inp args acc).
Proof.
  fix IH 1. intros inp args acc. destruct inp as [|c r]; [reflexivity|]. simpl.
  destruct (negb (N.eqb c c_pct)); [apply IH|].
  destruct r as [|d r2]; [reflexivity|].
  destruct (N.eqb d c_pct); [apply IH|].
  destruct args as [|a args']; [reflexivity|].
  destruct (N.eqb d 115); [apply IH|].
  destruct (N.eqb d 83); [apply IH|].
  destruct (N.eqb d 100).
  { destruct a; simpl; try reflexivity; apply IH. }
  destruct (N.eqb d 102).
  { destruct a; simpl; try reflexivity; apply IH. }
  reflexivity.
Qed.

Lemma parse_params_loop_np : forall ps o r acc, np (parse_params_loop ps o r acc).
Proof.
  induction ps as [|p ps IH]; intros; simpl; [reflexivity|].
  destruct (sym_name p); [|reflexivity].
  destruct (text_eqb t n_optional); [apply IH|].
  destruct (text_eqb t n_rest); [apply IH|].
  destruct r; [destruct ps; reflexivity|apply IH].
Qed.
Lemma parse_params_np ps : np (parse_params ps).
Proof. unfold parse_params. destruct (listp ps); [apply parse_params_loop_np|reflexivity]. Qed.

Lemma fn_body_np r : np (fn_body r).
Proof. unfold fn_body. np_auto. Qed.
Lemma progn_on_rest_np r : np (progn_on_rest r).
Proof. unfold progn_on_rest. np_auto. Qed.
Lemma to_str_np x : np (to_str x). Proof. destruct x; reflexivity. Qed.
Lemma dolist_step_np l : np (dolist_step l). Proof. unfold dolist_step. np_auto. Qed.

Lemma ht_find_np l k : np (ht_find l k).
Proof. induction l as [|[k' v] l IH]; simpl; [reflexivity|]. np_crush IH. Qed.
Lemma ht_put_np l k v : np (ht_put l k v).
Proof. induction l as [|[k' v'] l IH]; simpl; [reflexivity|]. np_crush IH. Qed.
Lemma append_all_np : forall l acc, np (append_all acc l).
Proof. induction l as [|x l IH]; intros acc; simpl; [reflexivity|]. np_crush IH. Qed.
Lemma concat_l_np : forall l acc, np (concat_l l acc).
Proof. induction l as [|x l IH]; intros acc; simpl; [reflexivity|]. destruct x; auto with np. Qed.

Lemma thread_np first : forall fuel x forms, np (thread first fuel x forms).
Proof.
  induction fuel as [|fuel IH]; intros x forms; simpl; [reflexivity|].
  destruct forms as [|form more]; [reflexivity|].
  destruct (null form); [reflexivity|].
  destruct form; destruct more; try reflexivity; try apply IH;
    destruct first; try reflexivity; try apply IH; np_crush IH.
  pose proof (append2_np (nil_append (Cons form1 form2)) (Cons x Nil)) as Ha.
  destruct (append2 (nil_append (Cons form1 form2)) (Cons x Nil)); try discriminate Ha;
    try reflexivity. apply IH.
Qed.

End PureF.
#[export] Hint Resolve try_float_np as_int_np try_int_np checked_np int_mod_np int_op_np
  binop_np maxmin_np compare2_np nthcdr_nat_np nthcdr_np nth_np last_np plist_get_np
  format_loop_np parse_params_np fn_body_np progn_on_rest_np to_str_np dolist_step_np
  ht_find_np ht_put_np append_all_np concat_l_np thread_np : np.

Lemma mark_tail_np : forall fuel name body, np (mark_tail fuel name body).
Proof.
  induction fuel as [|fuel IH]; intros name body; [reflexivity|].
  cbn [mark_tail].
  destruct body; try reflexivity.
  destruct (last_and_init (items (Cons body1 body2))) as [[init tail]|]; [|reflexivity].
  destruct tail; try reflexivity.
  destruct (sym_name tail1) as [tn|]; [|reflexivity].
  destruct (sym_eq tail1 name); [reflexivity|].
  destruct (text_eqb tn n_progn || text_eqb tn n_let || text_eqb tn n_letstar).
  { np_crush IH. }
  destruct (text_eqb tn n_if).
  { np_crush IH. }
  destruct (text_eqb tn n_cond); [|reflexivity].
  match goal with
  | |- np (?f (items tail2) []) => assert (H : forall cs acc, np (f cs acc)); [|apply H]
  end.
  induction cs as [|c cs IHc]; intros acc; [reflexivity|].
  np_crush IH.
Qed.
#[export] Hint Resolve mark_tail_np : np.

(* ------------------------------------------------------------------ *)
(* State operations                                                     *)

Ltac inv_pair H := inversion H; subst; clear H.

Lemma sym_get_R0 x : R0s (sym_get x).
Proof.
  apply R0_state. intros s r s' H. unfold sym_get in H.
  destruct (key_of x); [|inv_pair H; split; [apply Inv_refl|reflexivity]].
  destruct (keywordp x); [inv_pair H; split; [apply Inv_refl|reflexivity]|].
  destruct (bitems (sget s k)); inv_pair H; split; try apply Inv_refl; reflexivity.
Qed.

Lemma with_key_R0 x f :
  (forall k s r s', f k s = (r, s') -> Inv s s' /\ np r) -> R0s (with_key x f).
Proof.
  intros Hf. apply R0_state. intros s r s' H. unfold with_key in H.
  destruct (key_of x); [|inv_pair H; split; [apply Inv_refl|reflexivity]].
  destruct (is_constant x); [inv_pair H; split; [apply Inv_refl|reflexivity]|].
  eapply Hf; eassumption.
Qed.

Lemma sym_set_R0 x v : R0s (sym_set x v).
Proof.
  apply with_key_R0. intros k s r s' H. inv_pair H. split; [apply Inv_set|reflexivity].
Qed.
Lemma sym_set_global_R0 x v : R0s (sym_set_global x v).
Proof.
  apply with_key_R0. intros k s r s' H. inv_pair H. split; [apply Inv_set_global|reflexivity].
Qed.

Lemma sym_boundp_R0 x : R0s (sym_boundp x).
Proof.
  apply R0_state. intros s r s' H. unfold sym_boundp in H.
  destruct (key_of x); inv_pair H; split; try apply Inv_refl; reflexivity.
Qed.
Lemma lex_bound_R0 x : R0s (lex_bound x).
Proof.
  apply R0_state. intros s r s' H. unfold lex_bound in H.
  destruct x; simpl in H; inv_pair H; split; try apply Inv_refl; reflexivity.
Qed.
Lemma fresh_id_R0 : R0s fresh_id.
Proof.
  apply R0_state. intros s r s' H. inv_pair H. split; [apply Inv_same; reflexivity|reflexivity].
Qed.
Lemma set_flags_R0 n : R0s (set_flags n).
Proof.
  apply R0_state. intros s r s' H. inv_pair H. split; [apply Inv_same; reflexivity|reflexivity].
Qed.
Lemma ht_store_R0 h l : R0s (ht_store h l).
Proof.
  apply R0_state. intros s r s' H. inv_pair H. split; [apply Inv_same; reflexivity|reflexivity].
Qed.
Lemma ht_get_tab_R0 t : R0s (ht_get_tab t).
Proof.
  apply R0_state. intros s r s' H. unfold ht_get_tab in H.
  destruct t; try (inv_pair H; split; [apply Inv_refl|reflexivity]).
  destruct h; [|inv_pair H; split; [apply Inv_refl|reflexivity]].
  destruct (PositiveMap.find p (htabs s)); inv_pair H; split; try apply Inv_refl; reflexivity.
Qed.
Lemma find_file_R0 n : R0s (find_file n).
Proof.
  apply R0_state. intros s r s' H. unfold find_file in H.
  destruct (find _ (files s)); inv_pair H; split; try apply Inv_refl; try reflexivity.
  apply Inv_same; reflexivity.
Qed.
Lemma do_tick_R0 F id v : R0s (do_tick F id v).
Proof.
  apply R0_state. intros s r s' H. unfold do_tick in H.
  destruct (fail_at s) as [k|]; [destruct (N.eqb k (N.succ (steps s)))|];
    inv_pair H; split; try (apply Inv_same; reflexivity); reflexivity.
Qed.
Lemma note_defmacro_after_scope {A} x v (a : A) :
  R0s (bind (sym_set_scope x v) (fun _ => bind (note_defmacro x) (fun _ => ret a))).
Proof.
  apply R0_state. intros s r s' H. unfold bind, sym_set_scope, with_key, note_defmacro, ret in H.
  destruct (key_of x) as [k|]; [|inv_pair H; split; [apply Inv_refl|reflexivity]].
  destruct (is_constant x); [inv_pair H; split; [apply Inv_refl|reflexivity]|].
  inv_pair H. split; [|reflexivity].
  eapply Inv_defmacro; reflexivity.
Qed.

(* keys of the symbols of a list (elements without a key contribute nothing) *)
Definition keys (l : list sx) : list key :=
  flat_map (fun x => match key_of x with Some k => [k] | None => [] end) l.
Definition has_key (x : sx) : Prop := key_of x <> None.

Lemma keys_app a b : keys (a ++ b) = keys a ++ keys b.
Proof. unfold keys. apply flat_map_app. Qed.

(* sym_set_scope: Ok pushes the key, any other outcome leaves the state *)
Lemma sym_set_scope_spec x v s r s' :
  sym_set_scope x v s = (r, s') ->
  (r = Ok tt /\ exists k, key_of x = Some k /\ s' = sput s k (b_set_scope (sget s k) v)) \/
  (exists e, r = Err e /\ s' = s).
Proof.
  unfold sym_set_scope, with_key. intros H.
  destruct (key_of x) as [k|]; [|inv_pair H; right; eauto].
  destruct (is_constant x); inv_pair H; [right; eauto|left; eauto].
Qed.

(* unbinding the pending bindings cannot fail and restores the balance *)
Lemma unbind_all_spec : forall bound rest s0 s,
  Forall has_key bound -> Bal (keys bound ++ rest) s0 s ->
  exists s', unbind_all bound s = (Ok tt, s') /\ Bal rest s0 s'.
Proof.
  induction bound as [|x bound IH]; intros rest s0 s Hk HB; simpl.
  - eexists; split; [reflexivity|assumption].
  - inversion Hk as [|? ? Hx Hk']; subst. unfold has_key in Hx.
    unfold bind, sym_unset. unfold keys in HB; simpl in HB.
    destruct (key_of x) as [k|] eqn:Ek; [|congruence]. simpl in HB.
    destruct (Bal_pop [] _ _ _ _ HB) as (b & Eb & HB'). rewrite Eb. simpl in HB'.
    apply IH; assumption.
Qed.

#[export] Hint Extern 1 (R0 (sym_get _) _) => apply sym_get_R0 : r0.
#[export] Hint Extern 1 (R0 (sym_set _ _) _) => apply sym_set_R0 : r0.
#[export] Hint Extern 1 (R0 (sym_set_global _ _) _) => apply sym_set_global_R0 : r0.
#[export] Hint Extern 1 (R0 (sym_boundp _) _) => apply sym_boundp_R0 : r0.
#[export] Hint Extern 1 (R0 (lex_bound _) _) => apply lex_bound_R0 : r0.
#[export] Hint Extern 1 (R0 fresh_id _) => apply fresh_id_R0 : r0.
#[export] Hint Extern 1 (R0 (set_flags _) _) => apply set_flags_R0 : r0.
#[export] Hint Extern 1 (R0 (ht_store _ _) _) => apply ht_store_R0 : r0.
#[export] Hint Extern 1 (R0 (ht_get_tab _) _) => apply ht_get_tab_R0 : r0.
#[export] Hint Extern 1 (R0 (find_file _) _) => apply find_file_R0 : r0.
#[export] Hint Extern 1 (R0 (do_tick _ _ _) _) => apply do_tick_R0 : r0.

(* never destruct the scrutinee of an anonymous fix: destruct would unfold it again *)
Ltac has_fix := match goal with |- context[?t] => is_fix t end.
Ltac r0_special := fail.
Ltac r0 :=
  repeat first
    [ r0_special
    | match goal with
      | |- R0 (bind (sym_set_scope _ _) (fun _ => bind (note_defmacro _) _)) _ =>
          apply note_defmacro_after_scope
      | |- R0 (ret _) _ => apply R0_ret
      | |- R0 (fail _) _ => apply R0_fail
      | |- R0 (bind _ _) _ => apply R0_bind; [ | intros ? ]
      | |- R0 (lift _) _ => apply R0_lift; solve [auto with np]
      | |- R0 (match ?x with _ => _ end) (match ?x with _ => _ end) =>
          tryif has_fix then fail else destruct x
      | |- R0 (if ?x then _ else _) (if ?x then _ else _) => destruct x
      end
    | solve [auto with r0] ].

(* bracket: pending bindings [syms] made since [s1]; run the body; unbind *)
Lemma bracket_R0 {A} (body1 body2 : M A) syms s1 s2 r s' :
  R0 body1 body2 -> Forall has_key syms -> Bal (keys syms) s1 s2 ->
  catch body1 (fun r => bind (unbind_all syms) (fun _ => lift r)) s2 = (r, s') -> r <> Fuel ->
  catch body2 (fun r => bind (unbind_all syms) (fun _ => lift r)) s2 = (r, s') /\
  Inv s1 s' /\ np r.
Proof.
  intros Hb Hk HB H Hr. unfold catch in *.
  destruct (body1 s2) as [r1 s3] eqn:E1.
  assert (r1 <> Fuel) as Hr1 by (intros ->; inv_pair H; congruence).
  destruct (Hb _ _ _ E1 Hr1) as (E2 & I & N). rewrite E2.
  assert (Bal (keys syms ++ []) s1 s3) as HB3
    by (rewrite app_nil_r; eapply Bal_Inv; eassumption).
  destruct (unbind_all_spec _ _ _ _ Hk HB3) as (s4 & Eu & HB4).
  assert (bind (unbind_all syms) (fun _ => lift r1) s3 = (r1, s4)) as Ek
    by (unfold bind; rewrite Eu; reflexivity).
  assert ((r, s') = (r1, s4)) as Eq by (destruct r1; try congruence).
  inv_pair Eq. split; [destruct r1; congruence|]. split; assumption.
Qed.

Lemma bind_all_spec : forall ps vs done s0 s r s',
  List.length vs = List.length ps -> Forall has_key done -> Bal (keys done) s0 s ->
  bind_all ps vs done s = (r, s') ->
  (r = Ok tt /\ Forall has_key (done ++ ps) /\ Bal (keys (done ++ ps)) s0 s') \/
  (exists e, r = Err e /\ Inv s0 s').
Proof.
  induction ps as [|p ps IH]; intros vs done s0 s r s' Hl Hk HB H.
  - destruct vs; [|discriminate]. simpl in H; inv_pair H. left. rewrite app_nil_r. auto.
  - destruct vs as [|v vs]; [discriminate|]. simpl in H. unfold catch in H.
    destruct (sym_set_scope p v s) as [r1 s1] eqn:E.
    destruct (sym_set_scope_spec _ _ _ _ _ E) as [(-> & k & Ek & ->)|(e & -> & ->)].
    + replace (done ++ p :: ps) with ((done ++ [p]) ++ ps) by (rewrite <- app_assoc; reflexivity).
      eapply (IH vs); [simpl in Hl; lia| | |exact H].
      * apply Forall_app; split; [assumption|]. constructor; [|constructor].
        unfold has_key; congruence.
      * rewrite keys_app. unfold keys at 2; simpl. rewrite Ek. simpl.
        intros k'. pose proof (Bal_push _ _ _ k v HB k') as HP.
        rewrite cnt_app. rewrite cnt_cons_same || idtac.
        destruct (Pos.eq_dec k k') as [<-|N].
        -- rewrite cnt_cons_same in *. unfold cnt at 2; simpl. lia.
        -- rewrite cnt_cons_other in * by auto. unfold cnt at 2; simpl. lia.
    + right. assert (Bal (keys done ++ []) s0 s) as HB' by (rewrite app_nil_r; assumption).
      destruct (unbind_all_spec _ _ _ _ Hk HB') as (s4 & Eu & HB4).
      unfold bind in H. rewrite Eu in H. inv_pair H. eauto.
Qed.

(* ------------------------------------------------------------------ *)
(* The evaluator, relative to two instances of the recursive call       *)

Definition pre (t : task) (s : st) : Prop :=
  match t with
  | TDotimes var _ _ _ => forall k, key_of var = Some k -> 1 <= depth s k
  | _ => True
  end.

Definition RT (t : task) (m1 m2 : M sx) : Prop :=
  forall s r s', m1 s = (r, s') -> r <> Fuel -> pre t s ->
                 m2 s = (r, s') /\ Inv s s' /\ np r.

Section Rel.
Variable F : fops.
Variables rec1 rec2 : task -> M sx.
Variables load1 load2 : text -> M sx.
Hypothesis Hrec : forall t, RT t (rec1 t) (rec2 t).
Hypothesis Hload : forall t, R0 (load1 t) (load2 t).

Lemma ev_R x : R0 (ev rec1 x) (ev rec2 x).
Proof. intros s r s' H Hr. apply (Hrec (TEval x)); simpl; auto. Qed.
Lemma call_R e f a : R0 (call rec1 e f a) (call rec2 e f a).
Proof. intros s r s' H Hr. apply (Hrec (TCall e f a)); simpl; auto. Qed.
Lemma expand_R x : R0 (expand rec1 x) (expand rec2 x).
Proof. intros s r s' H Hr. apply (Hrec (TExpand x)); simpl; auto. Qed.
Lemma while_R c b l : R0 (rec1 (TWhile c b l)) (rec2 (TWhile c b l)).
Proof. intros s r s' H Hr. apply (Hrec (TWhile c b l)); simpl; auto. Qed.
Lemma tramp_R p b r0 : R0 (rec1 (TTramp p b r0)) (rec2 (TTramp p b r0)).
Proof. intros s r s' H Hr. apply (Hrec (TTramp p b r0)); simpl; auto. Qed.
Hint Resolve ev_R call_R expand_R while_R tramp_R : r0.
Hint Extern 1 (R0 (load1 _) _) => apply Hload : r0.

Lemma eval_progn_l_R : forall l last, R0 (eval_progn_l rec1 l last) (eval_progn_l rec2 l last).
Proof. induction l as [|x l IH]; intros; simpl; r0. Qed.
Hint Resolve eval_progn_l_R : r0.
Lemma eval_progn_R b : R0 (eval_progn rec1 b) (eval_progn rec2 b).
Proof. unfold eval_progn. r0. Qed.
Hint Resolve eval_progn_R : r0.

Lemma eval_each_R : forall l, R0 (eval_each rec1 l) (eval_each rec2 l).
Proof. induction l as [|x l IH]; simpl; r0. Qed.
Hint Resolve eval_each_R : r0.

Lemma arg_req_R e a : R0 (arg_req rec1 e a) (arg_req rec2 e a).
Proof. unfold arg_req. r0. Qed.
Lemma arg_opt_R e a : R0 (arg_opt rec1 e a) (arg_opt rec2 e a).
Proof. unfold arg_opt. r0. Qed.
Lemma arg_rest_R e a : R0 (arg_rest rec1 e a) (arg_rest rec2 e a).
Proof. unfold arg_rest. r0. Qed.
Hint Resolve arg_req_R arg_opt_R arg_rest_R : r0.

Lemma zip_args_R e : forall ps args, R0 (zip_args rec1 e ps args) (zip_args rec2 e ps args).
Proof. induction ps as [|p ps IH]; intros args; simpl; r0. Qed.
Hint Resolve zip_args_R : r0.

Lemma zip_args_len e rec : forall ps args s vs rest s',
  zip_args rec e ps args s = (Ok (vs, rest), s') -> List.length vs = List.length ps.
Proof.
  induction ps as [|p ps IH]; intros args s vs rest s' H; simpl in H.
  - inv_pair H. reflexivity.
  - unfold bind in H.
    repeat match type of H with
           | context[match ?x with _ => _ end] => destruct x eqn:?; try discriminate
           | context[if ?x then _ else _] => destruct x eqn:?
           end;
      try (inv_pair H; simpl; f_equal; eapply IH; eassumption).
Qed.

(* pointwise form, for the few places that need facts about the state *)
Definition RS {A} (s : st) (m1 m2 : M A) : Prop :=
  forall r s', m1 s = (r, s') -> r <> Fuel -> m2 s = (r, s') /\ Inv s s' /\ np r.

Lemma R0_RS {A} (m1 m2 : M A) : R0 m1 m2 -> forall s, RS s m1 m2.
Proof. intros H s r s'. apply H. Qed.
Lemma RS_R0 {A} (m1 m2 : M A) : (forall s, RS s m1 m2) -> R0 m1 m2.
Proof. intros H s r s'. apply H. Qed.

Lemma RS_bind {A B} s (m1 m2 : M A) (f1 f2 : A -> M B) :
  RS s m1 m2 ->
  (forall a s1, m1 s = (Ok a, s1) -> Inv s s1 -> RS s1 (f1 a) (f2 a)) ->
  RS s (bind m1 f1) (bind m2 f2).
Proof.
  intros Hm Hf r s' H Hr. unfold bind in *.
  destruct (m1 s) as [r1 s1] eqn:E1.
  destruct r1 as [a|e|n|].
  - destruct (Hm _ _ E1) as (E2 & I1 & _); [discriminate|]. rewrite E2.
    destruct (Hf a s1 eq_refl I1 _ _ H Hr) as (E3 & I2 & N). split; [assumption|].
    split; [eapply Inv_trans; eassumption|assumption].
  - inv_pair H. destruct (Hm _ _ E1) as (E2 & I1 & N); [discriminate|]. rewrite E2. auto.
  - inv_pair H. destruct (Hm _ _ E1) as (E2 & I1 & N); [discriminate|]. rewrite E2. auto.
  - inv_pair H. congruence.
Qed.

Lemma parse_params_loop_keys : forall ps o r acc l,
  parse_params_loop ps o r acc = Ok l -> Forall has_key (map p_sym acc) ->
  Forall has_key (map p_sym l).
Proof.
  induction ps as [|p ps IH]; intros o r acc l H Ha; simpl in H.
  - inv_pair H. rewrite map_rev. apply Forall_rev. assumption.
  - destruct (sym_name p) as [n|] eqn:En; [|discriminate].
    assert (has_key p) as Hp by (unfold has_key; destruct p; simpl in *; congruence).
    destruct (text_eqb n n_optional); [eapply IH; eassumption|].
    destruct (text_eqb n n_rest); [eapply IH; eassumption|].
    destruct r.
    + destruct ps; [|discriminate]. inv_pair H. rewrite map_app, map_rev. apply Forall_app. split.
      * apply Forall_rev. assumption.
      * simpl. constructor; [assumption|constructor].
    + eapply IH; [eassumption|]. simpl. constructor; assumption.
Qed.

Lemma parse_params_keys ps l : parse_params ps = Ok l -> Forall has_key (map p_sym l).
Proof.
  unfold parse_params. destruct (listp ps); [|discriminate]. intros H.
  eapply parse_params_loop_keys; [eassumption|constructor].
Qed.

Lemma eval_function_R e ps body args :
  R0 (eval_function rec1 e ps body args) (eval_function rec2 e ps body args).
Proof.
  unfold eval_function. apply RS_R0. intros s.
  apply RS_bind; [apply R0_RS; apply R0_lift; auto with np|].
  intros pl s1 Hp _. unfold lift in Hp.
  assert (parse_params ps = Ok pl) as Hpl by congruence. clear Hp.
  apply RS_bind; [apply R0_RS; r0|].
  intros [vs rest] s2 Hz _.
  destruct rest; [|apply R0_RS; r0].
  intros r s' H Hr. unfold bind at 1 in H. unfold bind at 1.
  destruct (bind_all (map p_sym pl) vs [] s2) as [r3 s3] eqn:Eb.
  pose proof (zip_args_len _ _ _ _ _ _ _ _ Hz) as Hl.
  destruct (bind_all_spec (map p_sym pl) vs [] s2 s2 r3 s3) as [(-> & Hk & HB)|(e0 & -> & I)];
    [rewrite map_length; assumption|constructor|apply Inv_refl|assumption| |].
  - simpl in Hk, HB. eapply bracket_R0; eauto with r0.
  - inv_pair H. split; [reflexivity|split; [assumption|reflexivity]].
Qed.
Hint Resolve eval_function_R : r0.

(* name the two instances of an anonymous inner loop applied to [a b] *)
Ltac with_fix2 a b k :=
  match goal with
  | |- R0 ?m1 ?m2 =>
      match m1 with
      | context[?f1 a b] => is_fix f1;
          match m2 with
          | context[?f2 a b] => is_fix f2; k f1 f2
          end
      end
  end.

Lemma eval_bq_R : forall n x, sx_size x <= n -> R0 (eval_bq rec1 x) (eval_bq rec2 x).
Proof.
  induction n as [|n IH]; intros x Hx; [destruct x; simpl in Hx; lia|].
  destruct x; simpl in Hx; cbn [eval_bq]; try solve [r0].
  - (* Cons *)
    apply R0_bind; [destruct x1; simpl in Hx; r0; apply IH; simpl; lia|].
    intros acc1.
    with_fix2 x2 acc1 ltac:(fun f1 f2 =>
      assert (Hs : forall l acc, sx_size l <= n -> R0 (f1 l acc) (f2 l acc))).
    { induction l; intros acc Hl; simpl in Hl; try solve [r0].
      apply R0_bind.
      + destruct l1; simpl in Hl; r0; apply IH; simpl; lia.
      + intros acc2. destruct l2; try solve [r0]. apply IHl2. simpl in *. lia. }
    destruct x2; try solve [r0]. refine (Hs (Cons x2_1 x2_2) acc1 _). simpl in *. lia.
  - (* Quote *) apply R0_bind; [apply IH; lia|intros; r0].
Qed.

Lemma capture_symbol_R excl caps x : R0s (capture_symbol excl caps x).
Proof. unfold R0s, capture_symbol. r0. Qed.
Hint Extern 1 (R0 (capture_symbol _ _ _) _) => apply capture_symbol_R : r0.

Lemma capture_R excl : forall n x caps, sx_size x <= n -> R0s (capture excl caps x).
Proof.
  unfold R0s.
  induction n as [|n IH]; intros x caps Hx; [destruct x; simpl in Hx; lia|].
  destruct x; simpl in Hx; cbn [capture]; try solve [r0];
    try solve [apply R0_bind; [apply IH; lia|intros; r0]].
  (* Cons *)
  apply R0_bind; [destruct x1; simpl in Hx; r0; apply IH; simpl; lia|].
  intros [a' caps1].
  match goal with
  | |- R0 ?m1 _ =>
      match m1 with
      | context[?f1 x2 caps1 ?ac] => is_fix f1;
          assert (Hs : forall l caps acc, sx_size l <= n -> R0 (f1 l caps acc) (f1 l caps acc))
      end
  end.
  { induction l; intros caps0 acc Hl; simpl in Hl; try solve [r0].
    apply R0_bind.
    - destruct l1; simpl in Hl; r0; apply IH; simpl; lia.
    - intros [a2 caps2]. destruct l2; try solve [r0];
        try solve [apply R0_bind; [r0; apply IH; simpl in *; lia|intros; r0]].
      apply IHl2. simpl in *. lia. }
  destruct x2; try solve [r0];
    try solve [apply R0_bind; [r0; apply IH; simpl in *; lia|intros; r0]].
  refine (Hs (Cons x2_1 x2_2) caps1 _ _). simpl in *. lia.
Qed.

Lemma build_binding_R b prev : R0s (build_binding b prev).
Proof. unfold R0s, build_binding. r0. Qed.
Hint Extern 1 (R0 (build_binding _ _) _) => apply build_binding_R : r0.
Lemma build_bindings_R : forall bs prev acc, R0s (build_bindings bs prev acc).
Proof. unfold R0s. induction bs as [|b bs IH]; intros; simpl; r0. Qed.
Hint Extern 1 (R0 (build_bindings _ _ _) _) => apply build_bindings_R : r0.

Lemma apply_pmac_R m args : R0 (apply_pmac rec1 m args) (apply_pmac rec2 m args).
Proof. destruct m; cbn [apply_pmac]; r0. Qed.
Hint Resolve apply_pmac_R : r0.

Lemma merge_fuel_R pred : forall fuel l r acc,
  R0 (merge_fuel rec1 fuel pred l r acc) (merge_fuel rec2 fuel pred l r acc).
Proof.
  induction fuel as [|fuel IH]; intros; simpl; [intros s r0 s' H Hr; inv_pair H; congruence|].
  r0.
Qed.
Hint Resolve merge_fuel_R : r0.
Lemma msort_R pred : forall fuel l,
  R0 (msort rec1 fuel pred l) (msort rec2 fuel pred l).
Proof.
  induction fuel as [|fuel IH]; intros; simpl; [intros s r0 s' H Hr; inv_pair H; congruence|].
  r0.
Qed.
Hint Resolve msort_R : r0.

Lemma assoc_find_R (t1 t2 : sx -> M bool) :
  (forall k, R0 (t1 k) (t2 k)) -> forall al, R0 (assoc_find t1 al) (assoc_find t2 al).
Proof.
  intros Ht. induction al; simpl; try solve [r0].
Qed.
Lemma assoc_R F' k al tf : R0 (assoc F' rec1 k al tf) (assoc F' rec2 k al tf).
Proof.
  unfold assoc. r0; apply assoc_find_R; intros; r0.
Qed.
Hint Resolve assoc_R : r0.

Lemma reduce_rest_R op : (forall a b, np (op a b)) ->
  forall rest acc, R0 (reduce_rest rec1 op acc rest) (reduce_rest rec2 op acc rest).
Proof.
  intros Hop. induction rest; intros acc; simpl; solve [r0].
Qed.
Lemma reduce_with_R op args : (forall a b, np (op a b)) ->
  R0 (reduce_with rec1 op args) (reduce_with rec2 op args).
Proof. intros Hop. unfold reduce_with. r0; apply reduce_rest_R; assumption. Qed.

Lemma compare_chain_R c : forall l prev holds,
  R0 (compare_chain F rec1 c l prev holds) (compare_chain F rec2 c l prev holds).
Proof. induction l as [|x l IH]; intros; simpl; r0. Qed.
Hint Resolve compare_chain_R : r0.

Lemma predicate_R args (f : sx -> M bool) : (forall v, R0 (f v) (f v)) ->
  R0 (predicate rec1 args f) (predicate rec2 args f).
Proof. intros Hf. unfold predicate. r0. Qed.
Lemma string_cmp_R args f : R0 (string_cmp rec1 args f) (string_cmp rec2 args f).
Proof. unfold string_cmp. r0. Qed.
Hint Resolve string_cmp_R : r0.

Lemma and_l_R : forall l last, R0 (and_l rec1 l last) (and_l rec2 l last).
Proof. induction l as [|x l IH]; intros; simpl; r0. Qed.
Lemma or_l_R : forall l, R0 (or_l rec1 l) (or_l rec2 l).
Proof. induction l as [|x l IH]; intros; simpl; r0. Qed.
Lemma cond_l_R : forall l, R0 (cond_l rec1 l) (cond_l rec2 l).
Proof. induction l as [|x l IH]; intros; simpl; r0. Qed.
Lemma map_l_R f : forall l, R0 (map_l rec1 f l) (map_l rec2 f l).
Proof. induction l as [|x l IH]; intros; simpl; r0. Qed.
Lemma filter_l_R f : forall l, R0 (filter_l rec1 f l) (filter_l rec2 f l).
Proof. induction l as [|x l IH]; intros; simpl; r0. Qed.
Lemma reduce_l_R f : forall l acc, R0 (reduce_l rec1 f l acc) (reduce_l rec2 f l acc).
Proof. induction l as [|x l IH]; intros; simpl; r0. Qed.
Lemma find_l_R f : forall l, R0 (find_l rec1 f l) (find_l rec2 f l).
Proof. induction l as [|x l IH]; intros; simpl; r0. Qed.
Hint Resolve and_l_R or_l_R cond_l_R map_l_R filter_l_R reduce_l_R find_l_R : r0.

Lemma Bal_perm p1 p2 s0 s : (forall k, cnt p1 k = cnt p2 k) -> Bal p1 s0 s -> Bal p2 s0 s.
Proof. intros Hc H k. specialize (H k). rewrite <- Hc. assumption. Qed.

Lemma push_end bound s0 s x v k :
  Forall has_key bound -> Bal (keys bound) s0 s -> key_of x = Some k ->
  Forall has_key (bound ++ [x]) /\
  Bal (keys (bound ++ [x])) s0 (sput s k (b_set_scope (sget s k) v)).
Proof.
  intros Hk HB Ek. split.
  - apply Forall_app; split; [assumption|]. constructor; [unfold has_key; congruence|constructor].
  - eapply Bal_perm; [|apply Bal_push; eassumption].
    intros k'. rewrite keys_app, cnt_app.
    assert (E : keys [x] = [k]) by (unfold keys; simpl; rewrite Ek; reflexivity).
    rewrite E.
    destruct (Pos.eq_dec k k') as [<-|N].
    + rewrite !cnt_cons_same. change (cnt [] k) with 0. lia.
    + rewrite !cnt_cons_other by auto. change (cnt [] k') with 0. lia.
Qed.

Lemma fail_with_spec {A} bound e s0 s :
  Forall has_key bound -> Bal (keys bound) s0 s ->
  exists s4, bind (unbind_all bound) (fun _ => @fail A e) s = (Err e, s4) /\ Inv s0 s4.
Proof.
  intros Hk HB.
  assert (Bal (keys bound ++ []) s0 s) as HB' by (rewrite app_nil_r; assumption).
  destruct (unbind_all_spec _ _ _ _ Hk HB') as (s4 & Eu & HB4).
  exists s4. unfold bind. rewrite Eu. auto.
Qed.

Definition let_post (s0 : st) (r : res (list sx)) (s' : st) : Prop :=
  match r with
  | Ok b' => Forall has_key b' /\ Bal (keys b') s0 s'
  | _ => Inv s0 s'
  end.

Lemma let_bind_spec : forall vars bound s0 s r s',
  Forall has_key bound -> Bal (keys bound) s0 s ->
  let_bind rec1 vars bound s = (r, s') -> r <> Fuel ->
  let_bind rec2 vars bound s = (r, s') /\ np r /\ let_post s0 r s'.
Proof.
  induction vars as [|v vars IH]; intros bound s0 s r s' Hk HB H Hr.
  - simpl in *. inv_pair H. split; [reflexivity|]. split; [reflexivity|]. split; assumption.
  - cbn [let_bind] in *.
    assert (FW : forall e, bind (unbind_all bound) (fun _ => fail e) s = (r, s') ->
                           r = Err e /\ Inv s0 s').
    { intros e He. destruct (@fail_with_spec (list sx) bound e s0 s Hk HB) as (s4 & E4 & I4).
      rewrite E4 in He. inv_pair He. auto. }
    destruct (symbolp v).
    + unfold catch in *. destruct (sym_set_scope v Nil s) as [r1 s1] eqn:E.
      destruct (sym_set_scope_spec _ _ _ _ _ E) as [(-> & k & Ek & ->)|(e & -> & ->)].
      * destruct (push_end bound s0 s v Nil k Hk HB Ek) as (Hk' & HB').
        eapply IH; eassumption.
      * split; [assumption|]. destruct (FW e H) as (-> & I). split; [reflexivity|exact I].
    + destruct v; try (split; [assumption|]; destruct (FW _ H) as (-> & I);
                       split; [reflexivity|exact I]).
      destruct v2; try (split; [assumption|]; destruct (FW _ H) as (-> & I);
                        split; [reflexivity|exact I]).
      * (* (name) : value nil *)
        destruct (null v1); [split; [assumption|]; destruct (FW _ H) as (-> & I);
                             split; [reflexivity|exact I]|].
        cbn [null negb] in *.
        unfold catch, bind in H |- *.
        destruct (rec1 (TEval Nil) s) as [r1 s1] eqn:E1. unfold ev in *. rewrite E1 in H.
        assert (r1 <> Fuel) as Hr1 by (intros ->; inv_pair H; congruence).
        destruct (Hrec (TEval Nil) _ _ _ E1 Hr1 I) as (E2 & I1 & N1). rewrite E2.
        assert (HB1 : Bal (keys bound) s0 s1) by (eapply Bal_Inv; eassumption).
        destruct r1 as [val|e| |]; try discriminate N1; try congruence.
        -- destruct (sym_set_scope v1 val s1) as [r2 s2] eqn:E.
           destruct (sym_set_scope_spec _ _ _ _ _ E) as [(-> & k & Ek & ->)|(e & -> & ->)].
           ++ destruct (push_end bound s0 s1 v1 val k Hk HB1 Ek) as (Hk' & HB').
              eapply IH; eassumption.
           ++ destruct (@fail_with_spec (list sx) bound e s0 s1 Hk HB1) as (s4 & E4 & I4).
              unfold bind in E4. rewrite E4 in H |- *. inv_pair H. split; [reflexivity|split; [reflexivity|exact I4]].
        -- destruct (@fail_with_spec (list sx) bound e s0 s1 Hk HB1) as (s4 & E4 & I4).
           unfold bind in E4. rewrite E4 in H |- *. inv_pair H. split; [reflexivity|split; [reflexivity|exact I4]].
      * (* (name value . rest2) *)
        destruct (null v1); [split; [assumption|]; destruct (FW _ H) as (-> & I);
                             split; [reflexivity|exact I]|].
        destruct (negb (null v2_2)); [split; [assumption|]; destruct (FW _ H) as (-> & I);
                             split; [reflexivity|exact I]|].
        unfold catch, bind in H |- *.
        destruct (rec1 (TEval v2_1) s) as [r1 s1] eqn:E1. unfold ev in *. rewrite E1 in H.
        assert (r1 <> Fuel) as Hr1 by (intros ->; inv_pair H; congruence).
        destruct (Hrec (TEval v2_1) _ _ _ E1 Hr1 I) as (E2 & I1 & N1). rewrite E2.
        assert (HB1 : Bal (keys bound) s0 s1) by (eapply Bal_Inv; eassumption).
        destruct r1 as [val|e| |]; try discriminate N1; try congruence.
        -- destruct (sym_set_scope v1 val s1) as [r2 s2] eqn:E.
           destruct (sym_set_scope_spec _ _ _ _ _ E) as [(-> & k & Ek & ->)|(e & -> & ->)].
           ++ destruct (push_end bound s0 s1 v1 val k Hk HB1 Ek) as (Hk' & HB').
              eapply IH; eassumption.
           ++ destruct (@fail_with_spec (list sx) bound e s0 s1 Hk HB1) as (s4 & E4 & I4).
              unfold bind in E4. rewrite E4 in H |- *. inv_pair H. split; [reflexivity|split; [reflexivity|exact I4]].
        -- destruct (@fail_with_spec (list sx) bound e s0 s1 Hk HB1) as (s4 & E4 & I4).
           unfold bind in E4. rewrite E4 in H |- *. inv_pair H. split; [reflexivity|split; [reflexivity|exact I4]].
Qed.

Lemma do_let_R args : R0 (do_let rec1 args) (do_let rec2 args).
Proof.
  unfold do_let. apply R0_bind; [r0|]. intros [varlist rest].
  destruct (negb (listp rest)); [r0|].
  intros s r s' H Hr. unfold bind at 1 in H. unfold bind at 1.
  destruct (let_bind rec1 (items varlist) [] s) as [r1 s1] eqn:E1.
  assert (r1 <> Fuel) as Hr1 by (intros ->; inv_pair H; congruence).
  destruct (let_bind_spec _ [] s s _ _ (Forall_nil _) (Inv_refl s) E1 Hr1) as (E2 & N1 & P).
  rewrite E2. destruct r1 as [bound|e| |]; try discriminate N1; try congruence.
  - destruct P as (Hk & HB). eapply bracket_R0; eauto with r0.
  - inv_pair H. simpl in P. auto.
Qed.
Hint Resolve do_let_R : r0.

(* inside dolist / dotimes the loop variable has a binding: set_unchecked *)
(* cannot reach its unwrap()                                              *)
Lemma set_unchecked_ok var v s r s' :
  (forall k, key_of var = Some k -> 1 <= depth s k) ->
  sym_set_unchecked var v s = (r, s') -> r = Ok tt /\ Inv s s'.
Proof.
  intros Hd H. unfold sym_set_unchecked in H.
  destruct (key_of var) as [k|] eqn:Ek; [|inv_pair H; split; [reflexivity|apply Inv_refl]].
  specialize (Hd k eq_refl). unfold depth in Hd.
  destruct (bitems (sget s k)) eqn:Eb; [simpl in Hd; lia|].
  inv_pair H. split; [reflexivity|apply Inv_set].
Qed.

Definition has_depth (var : sx) (s : st) : Prop :=
  forall k, key_of var = Some k -> 1 <= depth s k.

Lemma has_depth_Inv var s s' : has_depth var s -> Inv s s' -> has_depth var s'.
Proof. intros H I k Ek. specialize (H k Ek). specialize (I k). lia. Qed.

Lemma RS_pre {A} (P : st -> Prop) (m1 m2 : M A) :
  (forall s, P s -> RS s m1 m2) -> forall s, P s -> RS s m1 m2.
Proof. auto. Qed.

Lemma set_unchecked_RS var v s : has_depth var s -> RS s (sym_set_unchecked var v) (sym_set_unchecked var v).
Proof.
  intros Hd r s' H _. destruct (set_unchecked_ok _ _ _ _ _ Hd H) as (-> & I).
  split; [assumption|split; [assumption|reflexivity]].
Qed.

Lemma dolist_loop_RS var body : forall n lst s, has_depth var s ->
  RS s (dolist_loop rec1 n var lst body) (dolist_loop rec2 n var lst body).
Proof.
  induction n as [|n IH]; intros lst s Hd; simpl; [apply R0_RS; r0|].
  destruct (truthy lst); [|apply R0_RS; r0].
  apply RS_bind; [apply R0_RS; r0|]. intros _ s1 _ I1.
  apply RS_bind; [apply R0_RS; r0|]. intros [next c] s2 _ I2.
  apply RS_bind; [apply set_unchecked_RS; eauto using has_depth_Inv|]. intros _ s3 _ I3.
  apply IH. eauto using has_depth_Inv.
Qed.

(* the common shape of dolist and dotimes: bind the variable, run, unbind *)
Lemma loop_bracket var v (body1 body2 : M sx) :
  (forall s, has_depth var s -> RS s body1 body2) ->
  R0 (bind (sym_set_scope var v)
           (fun _ => catch body1 (fun r => bind (sym_unset var) (fun _ => lift r))))
     (bind (sym_set_scope var v)
           (fun _ => catch body2 (fun r => bind (sym_unset var) (fun _ => lift r)))).
Proof.
  intros Hb s r s' H Hr. unfold bind at 1 in H. unfold bind at 1.
  destruct (sym_set_scope var v s) as [r1 s1] eqn:E.
  destruct (sym_set_scope_spec _ _ _ _ _ E) as [(-> & k & Ek & ->)|(e & -> & ->)].
  - pose proof (Bal_push [] s s k v (Inv_refl s)) as HB.
    set (s1 := sput s k (b_set_scope (sget s k) v)) in *.
    assert (Hd : has_depth var s1).
    { intros k' Ek'. assert (k' = k) by congruence. subst k'.
      specialize (HB k). rewrite cnt_cons_same in HB. lia. }
    unfold catch in *. destruct (body1 s1) as [r2 s2] eqn:E1.
    assert (r2 <> Fuel) as Hr2 by (intros ->; inv_pair H; congruence).
    destruct (Hb s1 Hd _ _ E1 Hr2) as (E2 & I & N). rewrite E2.
    assert (HB2 : Bal ([] ++ k :: []) s s2) by (simpl; eapply Bal_Inv; eassumption).
    destruct (Bal_pop _ _ _ _ _ HB2) as (b & Eb & HB3). simpl in HB3.
    assert (Ek2 : bind (sym_unset var) (fun _ => lift r2) s2 = (r2, sput s2 k b)).
    { unfold bind, sym_unset. rewrite Ek, Eb. reflexivity. }
    assert ((r, s') = (r2, sput s2 k b)) as Eq by (destruct r2; congruence).
    inv_pair Eq. split; [destruct r2; congruence|]. split; assumption.
  - inv_pair H. split; [reflexivity|split; [apply Inv_refl|reflexivity]].
Qed.

Hint Extern 1 (R0 (reduce_with _ _ _) _) => apply reduce_with_R; intros; auto with np : r0.
Hint Extern 1 (R0 (predicate _ _ _) _) => apply predicate_R; intros; r0 : r0.
Hint Extern 2 (R0 (capture _ _ _) _) => eapply capture_R; apply Nat.le_refl : r0.

Lemma dotimes_RS var i n body s : has_depth var s ->
  RS s (rec1 (TDotimes var i n body)) (rec2 (TDotimes var i n body)).
Proof. intros Hd r s' H Hr. apply (Hrec (TDotimes var i n body)); auto. Qed.

Ltac r0_special ::=
  match goal with
  | |- R0 (bind (sym_set_scope ?var ?v) (fun _ => catch _ _)) _ => apply loop_bracket
  end.

Lemma apply_prim_R p args :
  R0 (apply_prim F rec1 load1 p args) (apply_prim F rec2 load2 p args).
Proof.
  destruct p; cbn [apply_prim].
  all: try solve [r0].
  - (* / *)
    destruct (items args) as [|a rest]; [r0|].
    apply R0_bind; [r0|intros first]. apply R0_bind; [r0|intros ds].
    match goal with |- R0 (let '(a, b) := ?x in _) _ => destruct x as [acc ds'] end.
    destruct (existsb _ ds'); [r0|].
    revert acc. induction ds' as [|d ds' IHd]; intros acc; cbn; [r0|].
    apply R0_bind; [r0|]. intros acc'. apply IHd.
  - (* dolist *)
    r0. intros st0 Hd.
    apply RS_bind; [apply dolist_loop_RS; assumption|]. intros _ st1 _ I1.
    apply RS_bind; [apply set_unchecked_RS; eauto using has_depth_Inv|]. intros _ st2 _ I2.
    apply R0_RS; r0.
  - (* dotimes *)
    r0. intros st0 Hd.
    apply RS_bind; [apply dotimes_RS; assumption|]. intros _ st1 _ I1.
    apply RS_bind; [apply set_unchecked_RS; eauto using has_depth_Inv|]. intros _ st2 _ I2.
    apply R0_RS; r0.
Qed.

Hint Resolve apply_prim_R : r0.
Hint Extern 2 (R0 (eval_bq _ _) _) => eapply eval_bq_R; apply Nat.le_refl : r0.

Lemma R0_RT t m1 m2 : R0 m1 m2 -> RT t m1 m2.
Proof. intros H s r s' E Hr _. apply H; assumption. Qed.

Lemma expand_spine_R : forall d a acc,
  R0 ((fix spine (a d : sx) (acc : list sx) {struct d} : M sx :=
         bind (expand rec1 a) (fun a' =>
         match d with
         | Nil => ret (of_list (acc ++ [a']) Nil)
         | Cons a2 d2 => spine a2 d2 (acc ++ [a'])
         | o => ret (of_list (acc ++ [a']) o)
         end)) a d acc)
     ((fix spine (a d : sx) (acc : list sx) {struct d} : M sx :=
         bind (expand rec2 a) (fun a' =>
         match d with
         | Nil => ret (of_list (acc ++ [a']) Nil)
         | Cons a2 d2 => spine a2 d2 (acc ++ [a'])
         | o => ret (of_list (acc ++ [a']) o)
         end)) a d acc).
Proof.
  induction d; intros a acc; (apply R0_bind; [r0|intros a']); solve [r0].
Qed.

Lemma step_R t : RT t (step F rec1 load1 t) (step F rec2 load2 t).
Proof.
  destruct t; cbn [step].
  - (* TEval *) apply R0_RT. destruct x; r0.
  - (* TCall *) apply R0_RT. destruct fn; r0.
  - (* TWhile *) apply R0_RT. r0.
  - (* TTramp *) apply R0_RT. r0.
  - (* TDotimes *)
    intros s r s' H Hr Hd. simpl in Hd. revert r s' H Hr.
    match goal with |- forall r s', ?m1 s = _ -> _ -> ?m2 s = _ /\ _ => change (RS s m1 m2) end.
    destruct (i <? n)%Z; [|apply R0_RS; r0].
    apply RS_bind; [apply set_unchecked_RS; assumption|]. intros _ s1 _ I1.
    apply RS_bind; [apply R0_RS; r0|]. intros _ s2 _ I2.
    apply dotimes_RS. apply (has_depth_Inv var s s2 Hd). eapply Inv_trans; eassumption.
  - (* TExpand *) apply R0_RT.
    destruct x; try solve [r0].
    apply R0_bind.
    { apply R0_catch; [r0|]. intros r0' _ Hn. destruct r0'; try discriminate Hn; r0. }
    intros value. apply R0_bind; [r0|]. intros x.
    destruct x; try solve [r0]. apply expand_spine_R.
Qed.

Fixpoint ax_size (x : ax) : nat :=
  match x with
  | AList xs tl _ =>
      S ((fix go (l : list ax) : nat :=
            match l with [] => 0 | a :: r => ax_size a + go r end) xs
         + match tl with Some t => ax_size t | None => 0 end)
  | AQuote x _ | ABq x _ | AUnq x _ | ASplice x _ => S (ax_size x)
  | _ => 1
  end.
Definition axs_size (l : list ax) : nat :=
  (fix go (l : list ax) : nat := match l with [] => 0 | a :: r => ax_size a + go r end) l.

Hint Extern 1 (R0 (rec1 (TExpand _)) _) => apply expand_R : r0.
Hint Extern 1 (R0 (rec1 (TEval _)) _) => apply ev_R : r0.

Lemma readtime_R : forall n x, ax_size x <= n -> R0 (readtime rec1 x) (readtime rec2 x).
Proof.
  induction n as [|n IH]; intros x Hx; [destruct x; simpl in Hx; lia|].
  destruct x; cbn [readtime]; try solve [r0];
    try solve [simpl in Hx; apply R0_bind; [apply IH; lia|intros; r0]].
  (* AList *)
  change (ax_size (AList xs tl sp)) with
    (S (axs_size xs + match tl with Some t => ax_size t | None => 0 end)) in Hx.
  apply R0_bind.
  - assert (Hg : axs_size xs <= n) by lia. clear Hx. revert Hg.
    induction xs as [|a xs IHxs]; intros Hg; [r0|].
    change (axs_size (a :: xs)) with (ax_size a + axs_size xs) in Hg.
    apply R0_bind; [apply IH; lia|]. intros v.
    apply R0_bind; [apply IHxs; lia|]. intros vs. r0.
  - intros elems. apply R0_bind.
    + destruct tl; [|r0]. apply R0_bind; [apply IH; lia|intros; r0].
    + intros tlv. r0.
Qed.

Lemma readtime_all_R : forall l, R0 (readtime_all rec1 l) (readtime_all rec2 l).
Proof.
  induction l as [|a l IH]; simpl; [r0|].
  apply R0_bind; [eapply readtime_R; apply Nat.le_refl|]. intros. r0.
Qed.

Lemma parse_body_R t : R0 (parse_body F rec1 t) (parse_body F rec2 t).
Proof.
  intros s r s' H Hr. unfold parse_body in *.
  destruct (read_ax_total F (flags s) t) as [(forms & E)|E]; rewrite E in *.
  - assert (HR : R0 (bind (readtime_all rec1 forms)
                          (fun forms' => rec1 (TExpand (of_list forms' Nil))))
                    (bind (readtime_all rec2 forms)
                          (fun forms' => rec2 (TExpand (of_list forms' Nil)))))
      by (apply R0_bind; [apply readtime_all_R|intros; r0]).
    apply HR; assumption.
  - inv_pair H. split; [reflexivity|split; [apply Inv_refl|reflexivity]].
Qed.

Lemma run_body_R t : R0 (run_body F rec1 t) (run_body F rec2 t).
Proof. unfold run_body. apply R0_bind; [apply parse_body_R|]. intros. r0. Qed.
End Rel.

(* ------------------------------------------------------------------ *)
(* The fuelled interpreter                                              *)

Section Run.
Variable F : fops.

Lemma run_succ : forall f t, RT t (run F f t) (run F (S f) t).
Proof.
  induction f as [|f IH]; intros t.
  - intros s r s' H Hr _. inv_pair H. congruence.
  - change (run F (S f) t) with (step F (run F f) (run_body F (run F f)) t).
    change (run F (S (S f)) t) with (step F (run F (S f)) (run_body F (run F (S f))) t).
    apply step_R; [exact IH|]. intros txt. apply run_body_R. exact IH.
Qed.

(* fuel monotonicity: an outcome other than Fuel is final *)
Theorem run_mono f f' t s r s' :
  run F f t s = (r, s') -> r <> Fuel -> pre t s -> f <= f' -> run F f' t s = (r, s').
Proof.
  intros H Hr Hp Hle. induction Hle as [|f' Hle IH]; [assumption|].
  apply (run_succ f' t s r s' IH Hr Hp).
Qed.

(* every task: binding stacks balanced, no panic; for every outcome *)
Theorem run_inv f t s r s' :
  run F f t s = (r, s') -> r <> Fuel -> pre t s -> Inv s s' /\ np r.
Proof. intros H Hr Hp. apply (run_succ f t s r s' H Hr Hp). Qed.

Lemma run_self f t : RT t (run F f t) (run F f t).
Proof. intros s r s' H Hr Hp. split; [assumption|]. eapply run_inv; eassumption. Qed.

(* evaluation requests *)
Theorem eval_string_inv f t s r s' :
  eval_string F f t s = (r, s') -> r <> Fuel -> Inv s s' /\ np r.
Proof.
  intros H Hr. unfold eval_string in H.
  apply (run_body_R F (run F f) (run F f) (run_self f) t s r s' H Hr).
Qed.

Theorem eval_string_mono f f' t s r s' :
  eval_string F f t s = (r, s') -> r <> Fuel -> f <= f' -> eval_string F f' t s = (r, s').
Proof.
  intros H Hr Hle. induction Hle as [|f' Hle IH]; [assumption|].
  unfold eval_string in *.
  apply (run_body_R F (run F f') (run F (S f')) (run_succ f') t s r s' IH Hr).
Qed.

Theorem eval_file_inv f n s r s' :
  eval_file F f n s = (r, s') -> r <> Fuel -> Inv s s' /\ np r.
Proof.
  intros H Hr. unfold eval_file in H.
  assert (HR : R0 (bind (find_file n) (fun body => run_body F (run F f) body))
                  (bind (find_file n) (fun body => run_body F (run F f) body))).
  { apply R0_bind; [apply find_file_R0|]. intros. apply run_body_R. apply run_self. }
  apply (HR s r s' H Hr).
Qed.

Theorem parse_string_inv f t s r s' :
  parse_string F f t s = (r, s') -> r <> Fuel -> Inv s s' /\ np r.
Proof.
  intros H Hr. unfold parse_string in H.
  apply (parse_body_R F (run F f) (run F f) (run_self f) t s r s' H Hr).
Qed.

End Run.
