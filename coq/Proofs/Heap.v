(* C11 / C20: the object heap of Model/Api.v: which cells the list operations  *)
(* write, and the symbol API as a stack.                                        *)
From TL Require Import Base.Base Model.Reader Model.Printer Model.Api.
Local Open Scope positive_scope.
Local Open Scope list_scope.

(* ---- cells ----------------------------------------------------------------- *)
Lemma hget_hset h i v c : hget (hset h i v) c = if Pos.eqb c i then v else hget h c.
Proof.
  unfold hget, hset; simpl. destruct (Pos.eqb c i) eqn:E.
  - apply Pos.eqb_eq in E. subst. rewrite PositiveMap.gss. reflexivity.
  - apply Pos.eqb_neq in E. rewrite PositiveMap.gso by assumption. reflexivity.
Qed.

Lemma hget_halloc h v c :
  hget (fst (halloc h v)) c = if Pos.eqb c (hnext h) then v else hget h c.
Proof.
  unfold hget, halloc; simpl. destruct (Pos.eqb c (hnext h)) eqn:E.
  - apply Pos.eqb_eq in E. subst. rewrite PositiveMap.gss. reflexivity.
  - apply Pos.eqb_neq in E. rewrite PositiveMap.gso by assumption. reflexivity.
Qed.

Lemma hnext_halloc h v : hnext (fst (halloc h v)) = Pos.succ (hnext h).
Proof. reflexivity. Qed.
Lemma hnext_hset h i v : hnext (hset h i v) = hnext h.
Proof. reflexivity. Qed.

(* [same_below n h h']: no cell below n was written *)
Definition same_below (n : positive) (h h' : heap) : Prop :=
  forall c, c < n -> hget h' c = hget h c.

Lemma same_below_refl n h : same_below n h h.
Proof. intros c _. reflexivity. Qed.
Lemma same_below_trans n h1 h2 h3 :
  same_below n h1 h2 -> same_below n h2 h3 -> same_below n h1 h3.
Proof. intros H1 H2 c Hc. rewrite H2, H1 by assumption. reflexivity. Qed.

Lemma halloc_fresh n h v : n <= hnext h -> same_below n h (fst (halloc h v)).
Proof.
  intros Hn c Hc. rewrite hget_halloc.
  destruct (Pos.eqb c (hnext h)) eqn:E; [apply Pos.eqb_eq in E; lia|reflexivity].
Qed.

Lemma halloc_spec n h v h1 i : halloc h v = (h1, i) -> n <= hnext h ->
  i = hnext h /\ same_below n h h1 /\ hnext h1 = Pos.succ (hnext h).
Proof.
  intros H Hn. assert (h1 = fst (halloc h v)) by (rewrite H; reflexivity).
  assert (i = snd (halloc h v)) by (rewrite H; reflexivity). subst.
  split; [reflexivity|]. split; [apply halloc_fresh; assumption|reflexivity].
Qed.
Local Opaque halloc.

(* ---- deep_copy only allocates: nothing that existed is written ------------- *)
Lemma copy_spine_fresh : forall fuel h i h' r n,
  copy_spine fuel h i = Ok (h', r) -> n <= hnext h ->
  same_below n h h' /\ hnext h <= hnext h'.
Proof.
  induction fuel as [|fuel IH]; intros h i h' r n H Hn; [discriminate|].
  cbn [copy_spine] in H.
  destruct (hget h i) as [| | | | | |a d] eqn:Ei;
    try (inversion H; subst; split; [apply same_below_refl|lia]).
  assert (H1 : forall p1, p1 = match hget h a with HCons x y => halloc h (HCons x y) | _ => (h, a) end ->
               same_below n h (fst p1) /\ hnext h <= hnext (fst p1)).
  { intros p1 ->. destruct (hget h a); simpl; try (split; [apply same_below_refl|lia]).
    destruct (halloc h (HCons car cdr)) as [hh ii] eqn:Eh.
    destruct (halloc_spec n _ _ _ _ Eh Hn) as (_ & S & N). simpl. split; [assumption|lia]. }
  destruct (match hget h a with HCons x y => halloc h (HCons x y) | _ => (h, a) end) as [h1 a'] eqn:Ep.
  destruct (H1 _ eq_refl) as [S1 N1]. simpl in S1, N1.
  assert (Hfin : forall hx v0 hy ry, halloc hx v0 = (hy, ry) -> same_below n h hx -> hnext h <= hnext hx ->
                 same_below n h hy /\ hnext h <= hnext hy).
  { intros hx v0 hy ry Ha Sx Nx. destruct (halloc_spec n _ _ _ _ Ha ltac:(lia)) as (_ & S & N).
    split; [eapply same_below_trans; eassumption|lia]. }
  destruct (hget h1 d) as [| | | | | |x y] eqn:Ed.
  all: try (destruct (halloc h1 _) as [h2 t'] eqn:E2;
            destruct (halloc h2 _) as [h3 r3] eqn:E3; inversion H; subst;
            destruct (Hfin _ _ _ _ E2 S1 N1) as [S2 N2]; exact (Hfin _ _ _ _ E3 S2 N2)).
  - (* HSym tail *)
    destruct (halloc h1 _) as [h3 r3] eqn:E3; inversion H; subst. exact (Hfin _ _ _ _ E3 S1 N1).
  - (* HCons tail: recursion *)
    destruct (copy_spine fuel h1 d) as [[h2 d']|e|k|] eqn:Ec; try discriminate.
    destruct (IH _ _ _ _ n Ec ltac:(lia)) as [S2 N2].
    destruct (halloc h2 _) as [h3 r3] eqn:E3; inversion H; subst.
    apply (Hfin _ _ _ _ E3); [eapply same_below_trans; eassumption|lia].
Qed.

Theorem deep_copy_fresh h i h' r :
  h_deep_copy h i = Ok (h', r) -> same_below (hnext h) h h' /\ hnext h <= hnext h'.
Proof.
  unfold h_deep_copy. intros H.
  destruct (hget h i) eqn:Ei;
    try (destruct (halloc h _) as [hh ii] eqn:Eh; inversion H; subst;
         destruct (halloc_spec (hnext h) _ _ _ _ Eh ltac:(lia)) as (_ & S & N); split; [assumption|lia]).
  - inversion H; subst. split; [apply same_below_refl|lia].
  - eapply copy_spine_fresh; [eassumption|lia].
Qed.

(* ---- push / append write exactly one existing cell -------------------------- *)
(* [written_one n w h h']: below n, only cell w was written *)
Definition written_one (n w : positive) (h h' : heap) : Prop :=
  forall c, c < n -> c <> w -> hget h' c = hget h c.

Lemma alloc_then_set n h v0 w v h1 i :
  halloc h v0 = (h1, i) -> n <= hnext h -> written_one n w h (hset h1 w v).
Proof.
  intros Ha Hn c Hc Hw. rewrite hget_hset.
  destruct (Pos.eqb c w) eqn:E; [apply Pos.eqb_eq in E; congruence|].
  destruct (halloc_spec n _ _ _ _ Ha Hn) as (_ & S & _). apply S; assumption.
Qed.

(* push: the only existing cell written is an empty-list object (the end of   *)
(* the destination), which becomes the new last cons                           *)
Theorem push_writes_end_cell h a v h' :
  h_push h a v = Ok h' ->
  exists w, h_null h w = true /\ written_one (hnext h) w h h'.
Proof.
  unfold h_push. intros H.
  destruct (hget h a) as [| | | | | |x d] eqn:Ea; try discriminate.
  - destruct (halloc h HNil) as [h1 n1] eqn:Eh. inversion H; subst. exists a.
    split; [unfold h_null; rewrite Ea; reflexivity|].
    eapply alloc_then_set; [eassumption|lia].
  - destruct (walk_last (hsize h) h d None) as [[last prev]|e|k|] eqn:Ew; try discriminate.
    destruct (h_null h last) eqn:En; [|discriminate].
    destruct (halloc h HNil) as [h1 n1] eqn:Eh. inversion H; subst. exists last.
    split; [assumption|]. eapply alloc_then_set; [eassumption|lia].
Qed.

(* append: the appended list is copied (fresh cells); the only existing cell   *)
(* written belongs to the destination                                           *)
Theorem append_writes_one_cell h a v h' :
  h_append h a v = Ok h' -> exists w, written_one (hnext h) w h h'.
Proof.
  unfold h_append. intros H.
  destruct (hget h a) as [| | | | | |car0 d] eqn:Ea; try discriminate.
  - (* appending onto the empty list object a *)
    destruct (h_null h v); [inversion H; subst; exists a; intros c _ _; reflexivity|].
    destruct (h_deep_copy h v) as [[h1 c0]|e|k|] eqn:Ec; try discriminate.
    destruct (deep_copy_fresh _ _ _ _ Ec) as [S1 N1].
    exists a. destruct (hget h1 c0) eqn:E0.
    all: try (destruct (halloc h1 HNil) as [h2 n2] eqn:E2; inversion H; subst;
              intros c Hc Hw; rewrite hget_hset;
              destruct (Pos.eqb c a) eqn:E; [apply Pos.eqb_eq in E; congruence|];
              destruct (halloc_spec (hnext h) _ _ _ _ E2 ltac:(lia)) as (_ & S2 & _);
              rewrite (S2 c Hc); apply S1; assumption).
    inversion H; subst. intros c Hc Hw. rewrite hget_hset.
    destruct (Pos.eqb c a) eqn:E; [apply Pos.eqb_eq in E; congruence|]. apply S1; assumption.
  - destruct (walk_last (hsize h) h d None) as [[last lbo]|e|k|] eqn:Ew; try discriminate.
    destruct (h_null h last); [|discriminate].
    destruct (h_deep_copy h v) as [[h1 c0]|e|k|] eqn:Ec; try discriminate.
    destruct (deep_copy_fresh _ _ _ _ Ec) as [S1 N1].
    destruct lbo as [l|].
    + destruct (hget h1 l) eqn:El; try discriminate. inversion H; subst. exists l.
      intros c Hc Hw. rewrite hget_hset.
      destruct (Pos.eqb c l) eqn:E; [apply Pos.eqb_eq in E; congruence|]. apply S1; assumption.
    + inversion H; subst. exists a. intros c Hc Hw. rewrite hget_hset.
      destruct (Pos.eqb c a) eqn:E; [apply Pos.eqb_eq in E; congruence|]. apply S1; assumption.
Qed.

(* ---- what is read back ------------------------------------------------------- *)
(* an object whose cells (to the depth looked at) are all old and none of them  *)
(* the written one reads as before                                              *)
Fixpoint avoids (fuel : nat) (h : heap) (n w i : positive) : bool :=
  Pos.ltb i n && negb (Pos.eqb i w) &&
  match fuel with
  | O => true
  | S f => match hget h i with
           | HCons a d => avoids f h n w a && avoids f h n w d
           | _ => true
           end
  end.

Theorem abs_unchanged : forall fuel h h' n w i,
  written_one n w h h' -> avoids fuel h n w i = true -> abs fuel h' i = abs fuel h i.
Proof.
  induction fuel as [|fuel IH]; intros h h' n w i Hw Ha; [reflexivity|].
  cbn [avoids] in Ha. apply andb_true_iff in Ha as [Ha Hr]. apply andb_true_iff in Ha as [H1 H2].
  apply Pos.ltb_lt in H1. apply negb_true_iff in H2. apply Pos.eqb_neq in H2.
  cbn [abs]. rewrite (Hw i H1 H2). destruct (hget h i); try reflexivity.
  apply andb_true_iff in Hr as [Hr1 Hr2].
  rewrite (IH h h' n w car Hw Hr1), (IH h h' n w cdr Hw Hr2). reflexivity.
Qed.

(* in particular: the argument of append reads the same afterwards, unless it  *)
(* shares the destination's end cell                                            *)
Corollary append_argument_unchanged fuel h a v h' :
  h_append h a v = Ok h' ->
  exists w, forall x, avoids fuel h (hnext h) w x = true -> abs fuel h' x = abs fuel h x.
Proof.
  intros H. destruct (append_writes_one_cell _ _ _ _ H) as [w Hw]. exists w.
  intros x Hx. eapply abs_unchanged; eassumption.
Qed.

(* deep copy: every old object reads the same afterwards *)
Fixpoint below (fuel : nat) (h : heap) (n i : positive) : bool :=
  Pos.ltb i n &&
  match fuel with
  | O => true
  | S f => match hget h i with
           | HCons a d => below f h n a && below f h n d
           | _ => true
           end
  end.

Theorem abs_same_below : forall fuel h h' n i,
  same_below n h h' -> below fuel h n i = true -> abs fuel h' i = abs fuel h i.
Proof.
  induction fuel as [|fuel IH]; intros h h' n i Hs Hb; [reflexivity|].
  cbn [below] in Hb. apply andb_true_iff in Hb as [H1 Hr]. apply Pos.ltb_lt in H1.
  cbn [abs]. rewrite (Hs i H1). destruct (hget h i); try reflexivity.
  apply andb_true_iff in Hr as [Hr1 Hr2].
  rewrite (IH h h' n car Hs Hr1), (IH h h' n cdr Hs Hr2). reflexivity.
Qed.

(* ---- the symbol API is a stack --------------------------------------------- *)
Lemma get_put_same w i b : get_bind (put_bind w i b) i = b.
Proof. unfold get_bind, put_bind; simpl. rewrite PositiveMap.gss. reflexivity. Qed.
Lemma get_put_other w i j b : i <> j -> get_bind (put_bind w i b) j = get_bind w j.
Proof. intros H. unfold get_bind, put_bind; simpl. rewrite PositiveMap.gso; auto. Qed.

(* the operations on one symbol, and what a stack does with them *)
Inductive sop := SSet (v : positive) | SScope (v : positive) | SUnset | SGet | SBoundp.
Inductive sres := SOk | SFail | SVal (v : positive) | SBool (b : bool).

Definition stack_step (st : list positive) (o : sop) : list positive * sres :=
  match o with
  | SSet v => (match st with [] => [v] | _ :: r => v :: r end, SOk)
  | SScope v => (v :: st, SOk)
  | SUnset => match st with [] => (st, SFail) | _ :: r => (r, SOk) end
  | SGet => match st with [] => (st, SFail) | v :: _ => (st, SVal v) end
  | SBoundp => (st, SBool (negb (Nat.eqb (List.length st) 0)))
  end.

Definition op_of (s d : positive) (w : world) (o : sop) : op :=
  match o with
  | SSet v => OSet s v | SScope v => OSetScope s v | SUnset => OUnset s
  | SGet => OGet s d | SBoundp => OBoundp s
  end.

Definition stack_of (w : world) (i : positive) : list positive := sb_items (get_bind w i).

Definition lift_v (w : world) (o : sop) : sop :=
  match o with SSet v => SSet (reg w v) | SScope v => SScope (reg w v) | x => x end.

(* one operation on an ordinary (non-constant) symbol held in register s: the *)
(* symbol's binding stack moves exactly as the stack model says, every other    *)
(* symbol's stack is untouched, and the heap is not written                     *)
Theorem symbol_op_is_stack_op w s d o :
  let i := reg w s in
  is_sym (hp w) i = true -> is_const_sym (hp w) i = false -> d <> s ->
  let w' := fst (step_op w (op_of s d w o)) in
  stack_of w' i = fst (stack_step (stack_of w i) (lift_v w o)) /\
  (forall j, j <> i -> stack_of w' j = stack_of w j) /\
  hp w' = hp w /\
  match snd (stack_step (stack_of w i) (lift_v w o)), snd (step_op w (op_of s d w o)) with
  | SOk, RUnit | SFail, RErr => True
  | SVal v, RUnit => reg w' d = v
  | SBool b, RBool b' => b = b'
  | _, _ => False
  end.
Proof.
  intros i Hs Hc Hd. unfold stack_of.
  destruct o; cbn [op_of step_op lift_v stack_step]; fold i; rewrite ?Hs, ?Hc; cbn [negb orb andb].
  - (* set *) cbn [fst snd]. rewrite get_put_same. split.
    + destruct (sb_items (get_bind w i)); reflexivity.
    + split; [intros j Hj; rewrite get_put_other by congruence; reflexivity|]. split; [reflexivity|exact I].
  - cbn [fst snd]. rewrite get_put_same. split; [reflexivity|].
    split; [intros j Hj; rewrite get_put_other by congruence; reflexivity|]. split; [reflexivity|exact I].
  - destruct (sb_items (get_bind w i)) eqn:E; cbn [fst snd].
    + rewrite E. repeat split; auto.
    + rewrite get_put_same. split; [reflexivity|].
      split; [intros j Hj; rewrite get_put_other by congruence; reflexivity|]. split; [reflexivity|exact I].
  - destruct (sb_items (get_bind w i)) eqn:E; cbn [fst snd].
    + rewrite E. repeat split; auto.
    + unfold get_bind, set_reg, reg; simpl. fold (get_bind w i). rewrite E.
      split; [reflexivity|]. split; [intros; reflexivity|]. split; [reflexivity|].
      rewrite PositiveMap.gss. reflexivity.
  - cbn [fst snd]. repeat split; auto.
Qed.

(* a constant symbol (keyword) cannot be assigned or bound; unset on an empty  *)
(* stack is an error that changes nothing                                       *)
Theorem constant_symbol_rejects w s a :
  is_const_sym (hp w) (reg w s) = true ->
  step_op w (OSet s a) = (w, RErr) /\ step_op w (OSetScope s a) = (w, RErr).
Proof. intros H. cbn [step_op]. rewrite H, !orb_true_r. split; reflexivity. Qed.

(* ---- conversions -------------------------------------------------------------- *)
Theorem int_roundtrip w z d : snd (step_op (fst (step_op w (OInt z d))) (OToInt d)) = RInt z.
Proof.
  cbn [step_op]. destruct (halloc (hp w) (HInt z)) as [h1 i] eqn:Eh. cbn [fst snd step_op].
  unfold reg, set_reg; simpl. rewrite PositiveMap.gss.
  assert (hget h1 i = HInt z) as ->; [|reflexivity].
  assert (h1 = fst (halloc (hp w) (HInt z))) by (rewrite Eh; reflexivity).
  assert (i = hnext (hp w)).
  { destruct (halloc_spec 1 _ _ _ _ Eh ltac:(lia)) as (E & _). exact E. }
  subst. rewrite hget_halloc, Pos.eqb_refl. reflexivity.
Qed.

Theorem str_roundtrip w s d : snd (step_op (fst (step_op w (OStr s d))) (OToStr d)) = RStr s.
Proof.
  cbn [step_op]. destruct (halloc (hp w) (HStr s)) as [h1 i] eqn:Eh. cbn [fst snd step_op].
  unfold reg, set_reg; simpl. rewrite PositiveMap.gss.
  assert (hget h1 i = HStr s) as ->; [|reflexivity].
  assert (h1 = fst (halloc (hp w) (HStr s))) by (rewrite Eh; reflexivity).
  assert (i = hnext (hp w)).
  { destruct (halloc_spec 1 _ _ _ _ Eh ltac:(lia)) as (E & _). exact E. }
  subst. rewrite hget_halloc, Pos.eqb_refl. reflexivity.
Qed.

Theorem wrong_type_rejected w s d :
  snd (step_op (fst (step_op w (OStr s d))) (OToInt d)) = RErr /\
  snd (step_op (fst (step_op w (OStr s d))) (OToFlt d)) = RErr.
Proof.
  cbn [step_op]. destruct (halloc (hp w) (HStr s)) as [h1 i] eqn:Eh. cbn [fst snd step_op].
  unfold reg, set_reg; simpl. rewrite PositiveMap.gss.
  assert (hget h1 i = HStr s) as ->; [|split; reflexivity].
  assert (h1 = fst (halloc (hp w) (HStr s))) by (rewrite Eh; reflexivity).
  assert (i = hnext (hp w)).
  { destruct (halloc_spec 1 _ _ _ _ Eh ltac:(lia)) as (E & _). exact E. }
  subst. rewrite hget_halloc, Pos.eqb_refl. reflexivity.
Qed.
