(* C06: macro expansion in Model/Eval.v.                                     *)
From TL Require Import Base.Base Model.Reader Model.Printer Model.Store Model.Eval.
From TL Require Import Proofs.Lists.
Local Open Scope nat_scope.
Local Open Scope list_scope.

(* ---- the built-in macros are their definitions -------------------------- *)
Section Pmac.
Variable rec : task -> M sx.

Theorem when_expansion c body s :
  apply_pmac rec MWhen (Cons c body) s =
  (Ok (of_list [S_ "if"; c; Cons (S_ "progn") body] Nil), s).
Proof. reflexivity. Qed.

Theorem unless_expansion c body s :
  apply_pmac rec MUnless (Cons c body) s =
  (Ok (Cons (S_ "if") (Cons c (Cons Nil body))), s).
Proof. reflexivity. Qed.

Theorem when_let_expansion spec body s :
  apply_pmac rec MWhenLet (Cons spec body) s =
  match progn_on_rest body with
  | Ok pr => (Ok (of_list [S_ "if-let"; spec; pr] Nil), s)
  | Err e => (Err e, s) | Panic n => (Panic n, s) | Fuel => (Fuel, s)
  end.
Proof. simpl. unfold bind, ret, lift. destruct (progn_on_rest body); reflexivity. Qed.

Theorem while_let_expansion spec body s r :
  append2 (Cons (S_ "progn") (nil_append body)) (Cons T Nil) = Ok r ->
  apply_pmac rec MWhileLet (Cons spec body) s =
  (Ok (of_list [S_ "while"; of_list [S_ "if-let"; spec; r; Nil] Nil] Nil), s).
Proof. intros H. cbn -[append2 nil_append of_list]. unfold bind, ret, lift. rewrite H. reflexivity. Qed.

Theorem quote_expansion a s : apply_pmac rec MQuote (Cons a Nil) s = (Ok (Quote a), s).
Proof. reflexivity. Qed.

(* (progn . body) when there are several forms, the form itself when one *)
Theorem progn_on_rest_one x : progn_on_rest (Cons x Nil) = Ok x.
Proof. reflexivity. Qed.
Theorem progn_on_rest_many x y r :
  progn_on_rest (Cons x (Cons y r)) = Ok (Cons (S_ "progn") (Cons x (Cons y r))).
Proof. reflexivity. Qed.

(* if-let* with bindings of the shape (VAR EXPR): each variable is bound to      *)
(* (and PREVIOUS-VARIABLE EXPR) - the first to (and t EXPR) - by one let*, and    *)
(* the THEN form is chosen by the last variable: all the expressions were non-nil *)
Definition mk_binding (b : sx * sx) : sx := of_list [fst b; snd b] Nil.
Fixpoint chain (bs : list (sx * sx)) (prev : sx) : list sx :=
  match bs with
  | [] => []
  | (v, e) :: r => of_list [v; of_list [S_ "and"; prev; e] Nil] Nil :: chain r v
  end.
Definition last_var (bs : list (sx * sx)) : sx := fst (List.last bs (Nil, Nil)).

Lemma build_bindings_chain : forall bs prev acc s,
  build_bindings (map mk_binding bs) prev acc s = (Ok (of_list (acc ++ chain bs prev) Nil), s).
Proof.
  induction bs as [|[v e] bs IH]; intros prev acc s.
  - simpl. rewrite app_nil_r. reflexivity.
  - cbn [map build_bindings]. unfold bind at 1.
    assert (E : build_binding (mk_binding (v, e)) prev s =
                (Ok (of_list [v; of_list [S_ "and"; prev; e] Nil] Nil), s)) by reflexivity.
    rewrite E. unfold bind at 1, lift. cbn [car_of of_list].
    rewrite IH. cbn [chain]. rewrite <- app_assoc. reflexivity.
Qed.

Lemma chain_last : forall bs prev, bs <> [] ->
  exists xs p, chain bs prev = xs ++ [of_list [last_var bs; of_list [S_ "and"; p; snd (List.last bs (Nil, Nil))] Nil] Nil].
Proof.
  induction bs as [|[v e] bs IH]; intros prev Hne; [congruence|].
  destruct bs as [|b2 bs'].
  - exists [], prev. reflexivity.
  - destruct (IH v ltac:(discriminate)) as (xs & p & E).
    change (chain ((v, e) :: b2 :: bs') prev)
      with (of_list [v; of_list [S_ "and"; prev; e] Nil] Nil :: chain (b2 :: bs') v). rewrite E.
    exists (of_list [v; of_list [S_ "and"; prev; e] Nil] Nil :: xs), p.
    unfold last_var. reflexivity.
Qed.

Lemma bind_ok {A B} (m : M A) (f : A -> M B) s a s' : m s = (Ok a, s') -> bind m f s = f a s'.
Proof. unfold bind. intros ->. reflexivity. Qed.

Theorem if_let_star_expansion bs thn rest s : bs <> [] -> listp rest = true ->
  apply_pmac rec MIfLetStar (Cons (of_list (map mk_binding bs) Nil) (Cons thn rest)) s =
  (Ok (of_list [S_ "let*"; of_list (chain bs T) Nil;
                of_list [S_ "if"; last_var bs; thn] rest] Nil), s).
Proof.
  intros Hne Hrest. cbn [apply_pmac].
  erewrite bind_ok by reflexivity. cbv beta iota.
  erewrite bind_ok by reflexivity. cbv beta iota.
  assert (Hn : null (of_list (map mk_binding bs) Nil) = false) by (destruct bs; [congruence|reflexivity]).
  rewrite Hn. rewrite items_proper.
  erewrite bind_ok by (apply (build_bindings_chain bs T [])). simpl app.
  destruct (chain_last bs T Hne) as (xs & p & E). rewrite E.
  erewrite bind_ok by (unfold lift; rewrite last_spec; reflexivity).
  erewrite bind_ok by reflexivity.
  assert (Ha : append2 (of_list [S_ "if"; last_var bs; thn] Nil) (nil_append rest) =
               Ok (of_list [S_ "if"; last_var bs; thn] rest)).
  { destruct rest; try discriminate Hrest; reflexivity. }
  cbn [of_list] in Ha.
  erewrite bind_ok by (unfold lift; cbn [cxr car_of of_list]; rewrite Ha; reflexivity).
  reflexivity.
Qed.

(* if-let with a list of bindings is if-let* with the ELSE forms under one progn *)
Theorem if_let_expansion spec thn rest s c pr :
  car_of spec = Ok c -> listp c = true -> progn_on_rest rest = Ok pr ->
  apply_pmac rec MIfLet (Cons spec (Cons thn rest)) s =
  (Ok (of_list [S_ "if-let*"; spec; thn; pr] Nil), s).
Proof.
  intros Hc Hl Hp. cbn [apply_pmac].
  erewrite bind_ok by reflexivity. cbv beta iota.
  erewrite bind_ok by reflexivity. cbv beta iota.
  erewrite bind_ok by (unfold lift; rewrite Hc; reflexivity).
  rewrite Hl, andb_false_r.
  erewrite bind_ok by (unfold lift; rewrite Hp; reflexivity).
  reflexivity.
Qed.
End Pmac.

(* threading: -> inserts the accumulated form as second element, ->> as last *)
Definition ins_first (x form : sx) : sx :=
  match form with
  | Cons h t => Cons h (Cons x t)
  | _ => of_list [form; x] Nil
  end.
Definition ins_last (x form : sx) : sx :=
  match form with
  | Cons _ _ => of_list (items form ++ [x]) Nil
  | _ => of_list [form; x] Nil
  end.

Lemma thread_first_fold : forall forms fuel x,
  List.length forms < fuel -> Forall (fun f => null f = false) forms ->
  thread true fuel x forms = Ok (fold_left ins_first forms x).
Proof.
  induction forms as [|form more IH]; intros fuel x Hf Hn.
  - destruct fuel; [simpl in Hf; lia|reflexivity].
  - destruct fuel; [simpl in Hf; lia|]. inversion Hn as [|? ? Hform Hmore]; subst.
    cbn [thread]. rewrite Hform. destruct more as [|m2 more].
    + destruct form; reflexivity.
    + destruct form; try discriminate Hform; cbv beta iota;
        rewrite IH by (simpl in *; try lia; assumption); reflexivity.
Qed.

Lemma thread_last_fold : forall forms fuel x,
  List.length forms < fuel -> Forall (fun f => null f = false) forms ->
  Forall (fun f => consp f = true -> tail_of f = Nil) forms ->
  thread false fuel x forms = Ok (fold_left ins_last forms x).
Proof.
  induction forms as [|form more IH]; intros fuel x Hf Hn Hp.
  - destruct fuel; [simpl in Hf; lia|reflexivity].
  - destruct fuel; [simpl in Hf; lia|]. inversion Hn as [|? ? Hform Hmore]; subst.
    inversion Hp as [|? ? Hpf Hpm]; subst.
    cbn [thread]. rewrite Hform.
    assert (Hone : match form with
                   | Cons h t => match append2 (nil_append form) (Cons x Nil) with
                                 | Ok v => Ok v | e => e end
                   | _ => Ok (of_list [form; x] Nil)
                   end = Ok (ins_last x form)).
    { destruct form; try reflexivity. cbn [nil_append ins_last].
      specialize (Hpf eq_refl).
      assert (Ef : Cons form1 form2 = of_list (items (Cons form1 form2)) Nil).
      { pose proof (of_list_items (Cons form1 form2)) as Ho. rewrite Hpf in Ho. symmetry. exact Ho. }
      rewrite Ef at 1.
      change (Cons x Nil) with (of_list [x] Nil). rewrite append2_app. reflexivity. }
    destruct more as [|m2 more].
    + destruct form; try reflexivity; exact Hone.
    + destruct form; try (rewrite IH by (simpl in *; try lia; assumption); reflexivity).
      rewrite Hone. rewrite IH by (simpl in *; try lia; assumption). reflexivity.
Qed.

(* ---- forms without macro calls are left alone: expansion is stable -------- *)
(* what the expander finds when it looks the head of a list up *)
Definition head_value (s : st) (head : sx) : sx :=
  match key_of head with
  | Some k => if keywordp head then head
              else match bitems (sget s k) with v :: _ => v | [] => head end
  | None => head
  end.

Definition not_macro (s : st) (h : sx) : bool :=
  match head_value s h with PMac _ | Mac _ _ => false | _ => true end.

Fixpoint all_elems (P : sx -> bool) (x : sx) : bool :=
  match x with Cons a d => P a && all_elems P d | _ => true end.

(* no list at any element position (to depth n) has a macro-bound head *)
Fixpoint expandedb (n : nat) (s : st) (x : sx) : bool :=
  match n with
  | O => false
  | S n' => match x with
            | Cons h _ => not_macro s h && all_elems (expandedb n' s) x
            | _ => true
            end
  end.

Section Stable.
Variable F : fops.

Lemma spine_id rec (P : sx -> bool) s :
  (forall a, P a = true -> rec (TExpand a) s = (Ok a, s)) ->
  forall d a acc, P a = true -> all_elems P d = true ->
  (fix spine (a d : sx) (acc : list sx) {struct d} : M sx :=
     bind (expand rec a) (fun a' =>
     match d with
     | Nil => ret (of_list (acc ++ [a']) Nil)
     | Cons a2 d2 => spine a2 d2 (acc ++ [a'])
     | o => ret (of_list (acc ++ [a']) o)
     end)) a d acc s = (Ok (of_list (acc ++ a :: items d) (tail_of d)), s).
Proof.
  intros HP. induction d; intros a acc Ha Hd; unfold bind, expand; rewrite (HP a Ha);
    try reflexivity.
  simpl in Hd. apply andb_true_iff in Hd as [Hd1 Hd2].
  rewrite IHd2 by assumption. simpl. rewrite <- app_assoc. reflexivity.
Qed.

Theorem expanded_is_fixpoint : forall n x s f, expandedb n s x = true -> n <= f ->
  run F f (TExpand x) s = (Ok x, s).
Proof.
  induction n as [|n IH]; intros x s f Hx Hf; [discriminate|].
  destruct f as [|f]; [lia|]. assert (Hnf : n <= f) by lia.
  destruct x; try reflexivity.
  cbn [expandedb] in Hx. apply andb_true_iff in Hx as [Hm He].
  change (run F (S f) (TExpand (Cons x1 x2)) s)
    with (step F (run F f) (run_body F (run F f)) (TExpand (Cons x1 x2)) s).
  cbn [step]. unfold bind at 1.
  assert (Hv : catch (match key_of x1 with Some _ => sym_get x1 | None => fail EType end)
                 (fun r => match r with Ok v => ret v | Err _ => ret x1
                                      | Panic n0 => panic n0 | Fuel => lift Fuel end) s
               = (Ok (head_value s x1), s)).
  { unfold catch, head_value, sym_get. destruct (key_of x1) as [k|]; [|reflexivity].
    destruct (keywordp x1); [reflexivity|]. destruct (bitems (sget s k)); reflexivity. }
  rewrite Hv. unfold bind at 1. unfold not_macro in Hm.
  assert (Hret : (match head_value s x1 with
                  | PMac m => bind (apply_pmac (run F f) m x2) (fun e => expand (run F f) e)
                  | Mac ps body => bind (eval_function (run F f) false ps body x2)
                                        (fun e => expand (run F f) e)
                  | _ => ret (Cons x1 x2)
                  end) s = (Ok (Cons x1 x2), s)).
  { destruct (head_value s x1); try reflexivity; discriminate. }
  rewrite Hret.
  simpl in He. apply andb_true_iff in He as [He1 He2].
  rewrite (spine_id (run F f) (expandedb n s) s); try assumption.
  - simpl. rewrite of_list_items. reflexivity.
  - intros a Ha. apply IH; assumption.
Qed.

(* quoted data is never entered *)
Theorem quoted_untouched f v s : run F (S f) (TExpand (Quote v)) s = (Ok (Quote v), s).
Proof. reflexivity. Qed.
Theorem atoms_untouched f x s : consp x = false -> run F (S f) (TExpand x) s = (Ok x, s).
Proof. destruct x; try discriminate; reflexivity. Qed.

End Stable.

(* ---- one expansion step of a user macro ------------------------------------ *)
(* the element walk over the expansion *)
Definition expand_elems (rec : task -> M sx) (x : sx) : M sx :=
  match x with
  | Cons a d =>
      (fix spine (a d : sx) (acc : list sx) {struct d} : M sx :=
         a' <- expand rec a ;;
         match d with
         | Nil => ret (of_list (acc ++ [a']) Nil)
         | Cons a2 d2 => spine a2 d2 (acc ++ [a'])
         | o => ret (of_list (acc ++ [a']) o)
         end) a d []
  | _ => ret x
  end.

(* A list whose head is a symbol bound to a user macro: the definition is applied  *)
(* to the argument forms AS WRITTEN (evalp = false: they are neither evaluated nor  *)
(* expanded first), the result is expanded again, then its elements.                *)
Theorem user_macro_step F f head k ps body args s :
  key_of head = Some k -> sym_get head s = (Ok (Mac ps body), s) ->
  run F (S f) (TExpand (Cons head args)) s =
  bind (eval_function (run F f) false ps body args)
       (fun e => bind (run F f (TExpand e)) (fun x => expand_elems (run F f) x)) s.
Proof.
  intros Hk Hg. cbn [run step]. rewrite Hk. unfold catch, bind at 1. rewrite Hg.
  unfold ret at 1. unfold bind, expand, expand_elems.
  destruct (eval_function (run F f) false ps body args s) as [[e|e|n|] s1]; try reflexivity.
Qed.
