(* C03, values: no evaluation can modify or remove a shadowed binding, and a    *)
(* call gives back the bindings it shadowed.                                      *)
From TL Require Import Base.Base Model.Reader Model.Printer Model.Store Model.Eval.
From TL Require Import Proofs.ReaderTotal Proofs.EvalRel Proofs.Hidden Proofs.Tramp.
Local Open Scope nat_scope.
Local Open Scope list_scope.

Lemma skipn_last {A} (l : list A) : 1 <= List.length l ->
  exists b, skipn (List.length l - 1) l = [b].
Proof.
  induction l as [|x l IH]; intros H; [simpl in H; lia|].
  destruct l as [|y l'].
  - exists x. reflexivity.
  - destruct IH as [b Hb]; [simpl; lia|]. exists b.
    replace (List.length (x :: y :: l') - 1) with (S (List.length (y :: l') - 1)) by (simpl; lia).
    exact Hb.
Qed.

(* The entries of a binding stack strictly between the innermost and the       *)
(* outermost one are out of reach of every evaluation: whatever is run, with   *)
(* whatever outcome, they are still there afterwards, in the same order, just  *)
(* above the outermost entry.                                                  *)
Theorem frame_interior F f t s k top M b r s' :
  bitems (sget s k) = top :: M ++ [b] ->
  run F f t s = (r, s') -> r <> Fuel ->
  exists X b', X <> [] /\ bitems (sget s' k) = X ++ M ++ [b'].
Proof.
  intros Hs Hrun Hr.
  set (hk := fun k' : key => if Pos.eq_dec k' k then M else []).
  set (hf := fun _ : key => 1).
  set (trk := fun k' : key => hk k' <> []).
  set (s2 := sput s k {| has_global := has_global (sget s k); bitems := [top; b] |}).
  assert (HS : SR hk hf s s2).
  { split; [apply same_rest_sym; apply same_rest_sput|]. intros k'. unfold insb, hk, hf, s2.
    destruct (Pos.eq_dec k' k) as [->|N].
    - rewrite sget_sput_same. simpl. apply binding_eta; [reflexivity|]. rewrite Hs. reflexivity.
    - rewrite sget_sput_other by congruence. rewrite insl_nil. destruct (sget s k'); reflexivity. }
  assert (Hw : wf hf trk s2).
  { intros k' Ht. unfold trk, hk in Ht. destruct (Pos.eq_dec k' k) as [->|N]; [|congruence].
    unfold s2, hf. rewrite sget_sput_same. simpl. split; [lia|intros E; discriminate]. }
  assert (Hq : quiet hf trk s s') by (intros k' [_ E]; discriminate E).
  destruct (proj2 (run_R2 hk hf trk (fun _ H => H) F f t) s s2 r s' HS Hw Hrun Hr Hq)
    as (s2' & _ & [_ HS'] & _ & Dm).
  specialize (HS' k). specialize (Dm k).
  unfold s2 in Dm. rewrite depth_sput_same in Dm. simpl in Dm. unfold depth in Dm.
  rewrite HS'. unfold insb, hk, hf. destruct (Pos.eq_dec k k) as [_|N]; [|congruence]. simpl.
  set (l2 := bitems (sget s2' k)) in *.
  destruct (skipn_last l2 ltac:(lia)) as [b' Hb].
  exists (firstn (List.length l2 - 1) l2), b'. split.
  - intro E. apply (f_equal (@List.length sx)) in E. rewrite firstn_length in E. simpl in E. lia.
  - unfold insl. rewrite Hb. reflexivity.
Qed.

(* A call: bind the parameters, run the body, unbind - whatever the outcome of *)
(* the body.  A parameter symbol that had bindings before the call has them    *)
(* back afterwards, entry by entry; only the outermost one (the global slot,   *)
(* which defun / set_global writes) may have changed.  A defmacro of the       *)
(* parameter symbol inside the body is excluded (it leaves a permanent entry). *)
Theorem call_restores F f syms vs body s r s' :
  Forall bindable syms -> List.length vs = List.length syms ->
  bracket (run F f) syms vs body s = (r, s') -> r <> Fuel ->
  forall k, In k (keys syms) -> 1 <= depth s k -> mc s' k = mc s k ->
  exists b', bitems (sget s' k) = removelast (bitems (sget s k)) ++ [b'].
Proof.
  intros Hb Hl H Hr k Hk Hd Hm.
  assert (Hkeys : Forall has_key syms).
  { eapply Forall_impl; [|exact Hb]. intros x (k0 & E & _). unfold has_key. congruence. }
  unfold bracket, bind at 1 in H.
  destruct (bind_all_top syms vs [] s Hb Hl) as (sa & Eb & [Ra Ta]). rewrite Eb in H.
  unfold catch in H. destruct (eval_progn (run F f) body sa) as [r1 sb] eqn:Ebody.
  assert (Hr1 : r1 <> Fuel) by (intros ->; inversion H; subst; congruence).
  assert (H' : bind (unbind_all syms) (fun _ => lift r1) sb = (r, s')) by (destruct r1; auto; congruence).
  clear H.
  destruct (Ta k) as [_ Tk]. pose proof (pushed_length syms vs k Hl) as Lp.
  pose proof (In_cnt_pos _ _ Hk) as Hc.
  (* the stack during the body: the pushed entries, then the entries of before *)
  set (S0 := bitems (sget s k)) in *. unfold depth in Hd. fold S0 in Hd.
  destruct (pushed syms vs k) as [|p1 P'] eqn:EP; [simpl in Lp; lia|].
  assert (ES : S0 = removelast S0 ++ [List.last S0 Nil]).
  { apply app_removelast_last. intro E. rewrite E in Hd. simpl in Hd. lia. }
  assert (Esa : bitems (sget sa k) = p1 :: (P' ++ removelast S0) ++ [List.last S0 Nil]).
  { rewrite Tk. rewrite ES at 1. simpl. rewrite <- app_assoc. reflexivity. }
  (* one step of the evaluator per form of the body: the interior survives *)
  assert (Hfr : exists X b', X <> [] /\ bitems (sget sb k) = X ++ (P' ++ removelast S0) ++ [b']).
  { unfold eval_progn in Ebody.
    assert (G : forall l last s1 r2 s2, eval_progn_l (run F f) l last s1 = (r2, s2) -> r2 <> Fuel ->
              forall top M b, bitems (sget s1 k) = top :: M ++ [b] ->
              exists X b', X <> [] /\ bitems (sget s2 k) = X ++ M ++ [b']).
    { induction l as [|x l IH]; intros last s1 r2 s2 E Hr2 top M b Hs1; simpl in E.
      - inversion E; subst. exists [top], b. split; [discriminate|]. rewrite Hs1. reflexivity.
      - unfold bind in E. destruct (ev (run F f) x s1) as [rx sx1] eqn:Ex.
        assert (Hrx : rx <> Fuel) by (intros ->; inversion E; subst; congruence).
        destruct (frame_interior F f (TEval x) s1 k top M b rx sx1 Hs1 Ex Hrx) as (X & b' & HX & EX).
        destruct rx as [v|e|n|]; try (inversion E; subst; eauto; fail); try congruence.
        destruct X as [|x0 X']; [congruence|].
        destruct (IH v sx1 r2 s2 E Hr2 x0 (X' ++ M) b') as (X2 & b2 & HX2 & EX2).
        { rewrite EX. simpl. rewrite <- app_assoc. reflexivity. }
        exists (X2 ++ X'), b2. split.
        * intro E0. apply app_eq_nil in E0 as [E0 _]. congruence.
        * rewrite EX2. rewrite <- !app_assoc. reflexivity. }
    eapply (G _ _ _ _ _ Ebody Hr1). exact Esa. }
  destruct Hfr as (X & b' & HX & EX).
  (* the body is balanced: exactly the pushed entries are above *)
  destruct (eval_progn_R (run F f) (run F f) (fun t => run_self F f t) body sa r1 sb Ebody Hr1) as (_ & Ib & _).
  pose proof (Ib k) as (I1 & I2 & _). change (cnt [] k) with 0 in *.
  assert (Sl : same_rest s' sb).
  { unfold bind in H'. destruct (unbind_all syms sb) as [ru su] eqn:Eu.
    pose proof (unbind_all_logs _ _ _ _ Eu) as L. destruct ru; inversion H'; subst; assumption. }
  assert (Hmc : mc sb k = mc sa k).
  { unfold mc in *. rewrite <- (same_rest_mlog _ _ Sl). rewrite (same_rest_mlog _ _ Ra). exact Hm. }
  assert (Dsa : depth sa k = S (List.length P') + List.length S0).
  { unfold depth. rewrite Tk, app_length. reflexivity. }
  assert (LX : List.length X = 1).
  { unfold depth in I1, I2. rewrite EX in I1, I2. unfold depth in Dsa. rewrite Dsa in I1, I2.
    rewrite !app_length in I1, I2. simpl in I1, I2.
    assert (List.length S0 = List.length (removelast S0) + 1)
      by (rewrite ES at 1; rewrite app_length; reflexivity).
    destruct X; [congruence|]. simpl in *. lia. }
  destruct (unbind_all_top syms sb Hkeys) as (su & Eu & Ru & Tu).
  { intros k0. pose proof (Ib k0) as (J1 & _). change (cnt [] k0) with 0 in J1.
    destruct (Ta k0) as [_ Tk0]. pose proof (pushed_length syms vs k0 Hl) as Lp0.
    unfold depth in *. rewrite Tk0, app_length in J1. lia. }
  unfold bind in H'. rewrite Eu in H'. inversion H'; subst s'.
  destruct (Tu k) as [_ Tuk]. exists b'. rewrite Tuk, EX.
  simpl in Lp. rewrite <- Lp.
  replace (X ++ (P' ++ removelast S0) ++ [b']) with ((X ++ P') ++ removelast S0 ++ [b'])
    by (rewrite <- !app_assoc; reflexivity).
  apply skipn_len_app. rewrite app_length, LX. reflexivity.
Qed.

(* What a definition (defun / defmacro's global part: set_global) does to a      *)
(* binding stack: it writes the OUTERMOST slot and nothing else - every entry    *)
(* above it is kept - and marks the symbol as having a global value.  When the   *)
(* symbol has a global value that slot is the global value; when it has only     *)
(* temporary bindings it is the outermost temporary one (defect D39).            *)
Lemma replace_last_spec l v :
  replace_last l v = match l with [] => [v] | _ => removelast l ++ [v] end.
Proof.
  induction l as [|x l IH]; [reflexivity|].
  destruct l as [|y l']; [reflexivity|].
  change (replace_last (x :: y :: l') v) with (x :: replace_last (y :: l') v).
  rewrite IH. reflexivity.
Qed.

Theorem set_global_writes_bottom b v :
  bitems (b_set_global b v) = match bitems b with [] => [v] | l => removelast l ++ [v] end /\
  has_global (b_set_global b v) = true.
Proof. split; [unfold b_set_global; cbn [bitems]; rewrite replace_last_spec; destruct (bitems b); reflexivity|reflexivity]. Qed.
