(* C01: the definitional interpreter of Spec/CoreSem.v is refined by the model. *)
From TL Require Import Base.Base Model.Reader Model.Printer Model.Store Model.Eval.
From TL Require Import Proofs.ReaderTotal Proofs.EvalRel Proofs.Lists Proofs.Calls Proofs.Cont.
From TL Require Import Spec.CoreSem.
Local Open Scope nat_scope.
Local Open Scope list_scope.

Lemma Cont_unspecified {A} (m2 : nat -> M A) : Cont (@unspecified A) m2.
Proof. intros s r s' H Hr. inversion H; subst. congruence. Qed.

Lemma bind_assoc_pt {A B C} (m : M A) (g : A -> M B) (k : B -> M C) s :
  bind (bind m g) k s = bind m (fun x => bind (g x) k) s.
Proof. unfold bind. destruct (m s) as [[a|e|n|] s1]; reflexivity. Qed.

Lemma Cont_assoc {A B C} (m1 : M C) (m : nat -> M A) (g : nat -> A -> M B) (k : nat -> B -> M C) :
  Cont m1 (fun f => bind (m f) (fun x => bind (g f x) (k f))) ->
  Cont m1 (fun f => bind (bind (m f) (g f)) (k f)).
Proof.
  apply Cont_ext with (f0 := 0). intros f s _. symmetry. apply bind_assoc_pt.
Qed.

Lemma Cont_lift_ok_l {A B} (m1 : M B) (a : A) (k : nat -> A -> M B) :
  Cont m1 (fun f => k f a) -> Cont m1 (fun f => bind (lift (Ok a)) (k f)).
Proof. apply Cont_ext with (f0 := 0). intros f s _. reflexivity. Qed.

Lemma Cont_ret_l {A B} (m1 : M B) (a : A) (k : nat -> A -> M B) :
  Cont m1 (fun f => k f a) -> Cont m1 (fun f => bind (ret a) (k f)).
Proof. apply Cont_ext with (f0 := 0). intros f s _. reflexivity. Qed.

Section Refine.
Variable F : fops.
Variable rec1 : task -> M sx.
Variable recm : nat -> task -> M sx.
Variable load1 : text -> M sx.
Variable loadm : nat -> text -> M sx.
Hypothesis Hrec : forall t, Cont (rec1 t) (fun f => recm f t).
Hypothesis Hload : forall t, Cont (load1 t) (fun f => loadm f t).
(* the model-side instance answers a finished call at once *)
Hypothesis Htramp : forall ps body r, is_bounced r = false ->
  exists f0, forall f s, f0 <= f -> recm f (TTramp ps body r) s = (Ok r, s).

Lemma eval_C x : Cont (eval rec1 x) (fun f => ev (recm f) x).
Proof. apply Hrec. Qed.
Lemma rec1_C t : Cont (rec1 t) (fun f => recm f t).
Proof. apply Hrec. Qed.

Ltac s0 :=
  repeat first
    [ match goal with
      | |- Cont unspecified _ => apply Cont_unspecified
      | |- Cont (lift Fuel) _ => apply Cont_unspecified
      | |- Cont (ret _) _ => apply Cont_const
      | |- Cont (fail _) _ => apply Cont_const
      | |- Cont (lift _) _ => apply Cont_const
      | |- Cont (panic _) _ => apply Cont_const
      | |- Cont _ (fun f => bind (ret _) _) => apply Cont_ret_l; cbv beta iota
      | |- Cont _ (fun f => bind (lift (Ok _)) _) => apply Cont_lift_ok_l; cbv beta iota
      | |- Cont _ (fun f => bind (bind _ _) _) => apply Cont_assoc
      | |- Cont (bind _ _) (fun f => bind _ _) => apply Cont_bind; [ | intros ? ]
      | |- Cont (catch _ _) (fun f => catch _ _) => apply Cont_catch; [ | intros ? ? ]
      | |- Cont (match ?x with _ => _ end) _ => tryif has_fix then fail else destruct x
      | |- Cont (if ?x then _ else _) _ => destruct x
      end
    | solve [auto with s0]
    | solve [apply Cont_const]
    | progress cbn [arg_req arg_opt consp listp orb negb null items car_of cdr_of] ].

(* administrative steps on the model side only *)
Ltac peel :=
  repeat first
    [ match goal with
      | |- Cont _ (fun f => bind (ret _) _) => apply Cont_ret_l; cbv beta iota
      | |- Cont _ (fun f => bind (lift (Ok _)) _) => apply Cont_lift_ok_l; cbv beta iota
      | |- Cont _ (fun f => bind (bind _ _) _) => apply Cont_assoc
      end
    | progress cbn [arg_req arg_opt consp listp orb negb null items car_of cdr_of] ].

Hint Resolve eval_C rec1_C : s0.
Hint Extern 1 (Cont (eval_bq rec1 _) _) => eapply (eval_bq_C rec1 recm Hrec); apply Nat.le_refl : s0.
Hint Extern 1 (Cont (apply_prim _ rec1 load1 _ _) _) => apply (apply_prim_C F rec1 recm load1 loadm Hrec Hload) : s0.
Hint Extern 1 (Cont (step _ rec1 load1 _) _) => apply (step_C F rec1 recm load1 loadm Hrec Hload) : s0.

Lemma progn_C : forall l last, Cont (progn rec1 l last) (fun f => eval_progn_l (recm f) l last).
Proof. induction l as [|x l IH]; intros; simpl; s0. Qed.
Hint Resolve progn_C : s0.
Lemma evlis_C : forall l, Cont (evlis rec1 l) (fun f => eval_each (recm f) l).
Proof. induction l as [|x l IH]; simpl; s0. Qed.
Hint Resolve evlis_C : s0.
Lemma cond_C : forall l, Cont (cond_clauses rec1 l) (fun f => cond_l (recm f) l).
Proof.
  induction l as [|x l IH]; simpl; [s0|]. destruct x; try solve [s0].
  apply Cont_bind; [s0|]. intros test. destruct (truthy test); [|apply IH].
  destruct (null x2); unfold eval_progn; s0.
Qed.
Hint Resolve cond_C : s0.
Lemma and_C : forall l last, Cont (and_forms rec1 l last) (fun f => and_l (recm f) l last).
Proof. induction l as [|x l IH]; intros; simpl; s0. Qed.
Lemma or_C : forall l, Cont (or_forms rec1 l) (fun f => or_l (recm f) l).
Proof. induction l as [|x l IH]; intros; simpl; s0. Qed.
Hint Resolve and_C or_C : s0.

Lemma push_all_eq : forall syms vals done s, push_all syms vals done s = bind_all syms vals done s.
Proof. reflexivity. Qed.

Lemma call_function_eq rec e ps body args s :
  call_function rec e ps body (items args) s =
  bind (eval_function rec e ps body args)
       (fun r => if is_bounced r then unspecified else ret r) s.
Proof.
  unfold call_function, eval_function, with_bindings, unspecified.
  unfold bind, lift. destruct (parse_params ps) as [pl|e0|n0|]; try reflexivity.
  destruct e.
  - rewrite zip_args_factors. unfold zip_factored.
    change (evlis rec (firstn (n_used pl (List.length (items args))) (items args)) s)
      with (eval_each rec (firstn (n_used pl (List.length (items args))) (items args)) s).
    destruct (eval_each rec _ s) as [[vs|e1|n1|] s1]; try reflexivity.
    destruct (zip_pure pl vs) as [bound|e2|n2|]; try reflexivity.
    destruct (skipn _ (items args)); try reflexivity.
  - rewrite zip_args_values_untouched. unfold ret at 1.
    destruct (zip_pure pl _) as [bound|e2|n2|]; try reflexivity.
    destruct (skipn _ (items args)); try reflexivity.
Qed.

Lemma tramp_done_C ps body r : is_bounced r = false ->
  Cont (ret r) (fun f => recm f (TTramp ps body r)).
Proof.
  intros Hb s r0 s' H _. inversion H; subst. destruct (Htramp ps body r Hb) as [f0 H0].
  exists f0. intros f Hf. apply H0. assumption.
Qed.

Lemma call_C evalp ps body args :
  Cont (call_function rec1 evalp ps body (items args))
       (fun f => bind (eval_function (recm f) evalp ps body args)
                      (fun r => recm f (TTramp ps body r))).
Proof.
  eapply Cont_left; [intros s; apply call_function_eq|].
  apply Cont_bind; [apply (eval_function_C rec1 recm Hrec)|].
  intros r. destruct (is_bounced r) eqn:Eb; [apply Cont_unspecified|].
  apply tramp_done_C. assumption.
Qed.

Lemma bind_vars_C : forall vars bound,
  Cont (bind_vars rec1 vars bound) (fun f => let_bind (recm f) vars bound).
Proof.
  induction vars as [|v vars IH]; intros bound; cbn [bind_vars let_bind]; [s0|].
  destruct (symbolp v); [s0|].
  destruct v; try solve [s0].
  all: try (destruct v2; try solve [cbn [null negb]; s0]).
  all: try (match goal with |- Cont (match ?r with _ => _ end) _ => destruct r end;
            cbn [null negb]; s0).
Qed.
Hint Resolve bind_vars_C : s0.

Lemma dolist_iter_C var body : forall elems n, List.length elems < n ->
  Cont (dolist_iter rec1 var elems body)
       (fun f => dolist_loop (recm f) n var (of_list elems Nil) body).
Proof.
  induction elems as [|x r IH]; intros n Hn; (destruct n as [|n]; [simpl in Hn; lia|]).
  - cbn [dolist_iter dolist_loop of_list truthy null negb]. s0.
  - cbn [dolist_iter dolist_loop of_list truthy null negb]. unfold eval_progn.
    apply Cont_bind; [s0|]. intros _.
    assert (Hs : dolist_step (Cons x (of_list r Nil)) = Ok (of_list r Nil, List.hd Nil r))
      by (destruct r; reflexivity).
    rewrite Hs. apply Cont_lift_ok_l. cbv beta iota.
    apply Cont_bind; [s0|]. intros _. apply IH. simpl in Hn. lia.
Qed.

Lemma special_C p args : is_special p = true ->
  Cont (special F rec1 p args) (fun f => apply_prim F (recm f) (loadm f) p args).
Proof.
  intros Hp. destruct p; try discriminate Hp; clear Hp; cbn [special apply_prim].
  all: try solve [s0].
  all: try solve [unfold eval_progn; s0].
  all: try solve [destruct args; try apply Cont_unspecified; cbn [arg_req]; s0].
  all: try solve [repeat (match goal with
                          | |- Cont (match ?x with _ => _ end) _ => destruct x
                          end; try apply Cont_unspecified);
                  unfold do_let, call, eval_progn; cbn [arg_req listp consp null orb negb items]; s0].
  - (* dolist *)
    destruct args as [| | | | | | | |sp body| | | | | | | | | | |]; try apply Cont_unspecified.
    destruct sp as [| | | | | | | |var sp2| | | | | | | | | | |]; try apply Cont_unspecified.
    destruct sp2 as [| | | | | | | |lst rest| | | | | | | | | | |]; try apply Cont_unspecified.
    assert (Hgo : forall result,
      Cont (l <- eval rec1 lst ;;
            match l with
            | Nil | Cons _ _ =>
                match tail_of l with
                | Nil =>
                    _ <- sym_set_scope var (match l with Cons x _ => x | _ => Nil end) ;;
                    catch (_ <- dolist_iter rec1 var (items l) body ;;
                           _ <- sym_set_unchecked var Nil ;; eval rec1 result)
                          (fun r => _ <- sym_unset var ;; lift r)
                | _ => unspecified
                end
            | _ => fail EType
            end)
           (fun f => l <- ev (recm f) lst ;;
                     c <- lift (car_of l) ;;
                     _ <- sym_set_scope var c ;;
                     catch (_ <- dolist_loop (recm f) (S (List.length (items l))) var l body ;;
                            _ <- sym_set_unchecked var Nil ;; ev (recm f) result)
                           (fun r => _ <- sym_unset var ;; lift r))).
    { intros result. apply Cont_bind; [s0|]. intros l.
      destruct l; try solve [cbn [car_of]; s0].
      cbn [tail_of]. destruct (tail_of l2) eqn:Et; try apply Cont_unspecified.
        cbn [car_of]. apply Cont_lift_ok_l. cbv beta iota.
        apply Cont_bind; [s0|]. intros _. apply Cont_catch; [|intros; s0].
        apply Cont_bind; [|intros; s0].
        pose proof (of_list_items (Cons l1 l2)) as Hl. cbn [tail_of] in Hl. rewrite Et in Hl.
        eapply Cont_ext with (f0 := 0);
          [|apply (dolist_iter_C var body (items (Cons l1 l2)) (S (List.length (items (Cons l1 l2))))); lia].
        intros f s _. rewrite Hl. reflexivity. }
    destruct rest as [| | | | | | | |res rest2| | | | | | | | | | |]; try apply Cont_unspecified.
    + peel. apply Hgo.
    + destruct rest2; try apply Cont_unspecified.
      peel. apply Hgo.
  - (* dotimes *)
    destruct args as [| | | | | | | |sp body| | | | | | | | | | |]; try apply Cont_unspecified.
    destruct sp as [| | | | | | | |var sp2| | | | | | | | | | |]; try apply Cont_unspecified.
    destruct sp2 as [| | | | | | | |cnt rest| | | | | | | | | | |]; try apply Cont_unspecified.
    destruct rest as [| | | | | | | |res rest2| | | | | | | | | | |]; try apply Cont_unspecified.
    + peel. s0.
    + destruct rest2; try apply Cont_unspecified. peel. s0.
Qed.

(* one step of the definitional interpreter against one step of the model *)
Lemma sstep_C t : Cont (sstep F rec1 load1 t) (fun f => step F (recm f) (loadm f) t).
Proof.
  destruct t; cbn [sstep step].
  - (* TEval *) destruct x; try solve [s0]. unfold call. s0.
  - (* TCall *) destruct fn as [| | | | | | | | | | | | | |ps body|ps body|p|m| |]; try solve [s0].
    + apply call_C.
    + unfold expand, ev, eval. s0.
    + destruct (is_special p) eqn:Ep; destruct evalp; cbn [andb]; try solve [s0].
      apply special_C. assumption.
    + unfold expand, ev, eval. s0.
  - (* TWhile *) unfold eval_progn. s0.
  - (* TTramp *) apply Cont_unspecified.
  - (* TDotimes *) unfold eval_progn. s0.
  - (* TExpand *) exact (step_C F rec1 recm load1 loadm Hrec Hload (TExpand x)).
Qed.
End Refine.

(* ------------------------------------------------------------------ *)
Section Main.
Variable F : fops.

Lemma tramp_done ps body r : is_bounced r = false ->
  exists f0, forall f s, f0 <= f -> run F (f - 1) (TTramp ps body r) s = (Ok r, s).
Proof.
  intros Hb. exists 2. intros f s Hf. destruct f as [|[|f]]; try lia.
  replace (S (S f) - 1) with (S f) by lia.
  change (run F (S f) (TTramp ps body r) s)
    with (step F (run F f) (run_body F (run F f)) (TTramp ps body r) s).
  cbn [step]. rewrite Hb. reflexivity.
Qed.

(* every outcome (value or error) and final state that the definitional     *)
(* interpreter assigns to a task is the outcome and final state of the model  *)
(* for every sufficiently large fuel                                           *)
Theorem spec_refines : forall n t, Cont (spec F n t) (fun f => run F f t).
Proof.
  induction n as [|n IH]; intros t; [apply Cont_unspecified|].
  cbn [spec].
  apply Cont_ext with (f0 := 1)
    (m2 := fun f => step F (run F (f - 1)) (run_body F (run F (f - 1))) t).
  { intros f s Hf. destruct f as [|f]; [lia|]. replace (S f - 1) with f by lia. reflexivity. }
  assert (Hrec : forall t0, Cont (spec F n t0) (fun f => run F (f - 1) t0))
    by (intros t0; apply (Cont_shift 1 (spec F n t0) (fun f => run F f t0)); apply IH).
  apply (sstep_C F (spec F n) (fun f => run F (f - 1))
                 (run_body F (spec F n)) (fun f => run_body F (run F (f - 1))) Hrec).
  - intros txt. apply (run_body_C F (spec F n) (fun f => run F (f - 1)) Hrec).
  - apply tramp_done.
Qed.

Corollary spec_sound n t s r s' :
  spec F n t s = (r, s') -> r <> Fuel -> exists f, run F f t s = (r, s').
Proof.
  intros H Hr. destruct (spec_refines n t s r s' H Hr) as [f0 H0]. exists f0. apply H0. lia.
Qed.

End Main.
