(* C05: the capture walk of `lambda` and the cells it creates.               *)
From TL Require Import Base.Base Model.Reader Model.Printer Model.Store Model.Eval.
Local Open Scope list_scope.

(* ---- what happens to one symbol occurrence ------------------------------ *)
(* not locally bound at creation: left alone, resolved at call time *)
Theorem capture_symbol_not_local excl caps x s :
  lex_bound x s = (Ok false, s) -> capture_symbol excl caps x s = (Ok (x, caps), s).
Proof. intros H. unfold capture_symbol, bind. rewrite H. reflexivity. Qed.

(* a parameter of the lambda: left alone *)
Theorem capture_symbol_parameter excl caps x s :
  lex_bound x s = (Ok true, s) -> in_excl excl x = true ->
  capture_symbol excl caps x s = (Ok (x, caps), s).
Proof. intros H He. unfold capture_symbol, bind. rewrite H. simpl. rewrite He. reflexivity. Qed.

(* already captured in this lambda: the SAME cell again *)
Theorem capture_symbol_again excl caps x c s :
  lex_bound x s = (Ok true, s) -> in_excl excl x = false -> find_cap caps x = Some c ->
  capture_symbol excl caps x s = (Ok (c, caps), s).
Proof.
  intros H He Hf. unfold capture_symbol, bind. rewrite H. simpl. rewrite He, Hf. reflexivity.
Qed.

Definition bump_id (s : st) : st :=
  {| store := store s; next_id := Pos.succ (next_id s); log := log s; steps := steps s;
     fail_at := fail_at s; htabs := htabs s; flags := flags s; files := files s;
     nfiles := nfiles s; mlog := mlog s; glog := glog s |}.

(* first occurrence of a locally bound variable: a new cell with a fresh     *)
(* serial, holding the value the variable has NOW; remembered for the rest    *)
(* of the walk                                                                *)
Theorem capture_symbol_new excl caps x s k v rest n :
  symbolp x = true -> key_of x = Some k -> keywordp x = false -> sym_name x = Some n ->
  lex_bound x s = (Ok true, s) -> in_excl excl x = false -> find_cap caps x = None ->
  bitems (sget s k) = v :: rest ->
  let c := Cell n (next_id s) (cell_root x) in
  let s1 := bump_id s in
  capture_symbol excl caps x s =
  (Ok (c, caps ++ [(x, c)]),
   sput s1 (key_of_id (next_id s)) (b_set (sget s1 (key_of_id (next_id s))) v)).
Proof.
  intros Hs Hk Hkw Hn Hl He Hf Hb. unfold capture_symbol, bind. rewrite Hl. simpl.
  rewrite He, Hf. unfold sym_get. rewrite Hk, Hkw, Hb. unfold fresh_id. rewrite Hn.
  unfold sym_set, with_key. simpl. reflexivity.
Qed.

(* ---- cells ---------------------------------------------------------------- *)
(* a cell reads its own slot, whatever the variable of the same name is bound *)
(* to in the caller: bindings of other keys do not matter                      *)
Theorem cell_read_independent n id root s k b :
  k <> key_of_id id ->
  fst (sym_get (Cell n id root) (sput s k b)) = fst (sym_get (Cell n id root) s).
Proof.
  intros Hk. unfold sym_get. simpl. rewrite sget_sput_other by assumption.
  destruct (bitems (sget s (key_of_id id))); reflexivity.
Qed.

(* the name key of an interned symbol is never the key of a cell *)
Theorem name_key_not_cell_key nm id : key_of_name nm <> key_of_id id.
Proof. unfold key_of_name, key_of_id. discriminate. Qed.

(* assignment to a cell changes that cell only and is read back *)
Theorem cell_write_read n id root v s :
  exists s', sym_set (Cell n id root) v s = (Ok tt, s') /\
             fst (sym_get (Cell n id root) s') = Ok v /\
             forall k, k <> key_of_id id -> sget s' k = sget s k.
Proof.
  unfold sym_set, with_key. simpl. eexists. split; [reflexivity|]. split.
  - unfold sym_get. simpl. rewrite sget_sput_same. unfold b_set.
    destruct (bitems (sget s (key_of_id id))); reflexivity.
  - intros k Hk. apply sget_sput_other. congruence.
Qed.

(* a cell is eq to the variable it was made from *)
Theorem cell_eq_its_symbol n id nm : sym_eq (Cell n id (key_of_name nm)) (Sym nm) = true.
Proof. simpl. apply Pos.eqb_refl. Qed.
