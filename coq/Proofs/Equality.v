(* C14: eq / eql / equal and the hash-table model of Model/Eval.v.          *)
From TL Require Import Base.Base Model.Reader Model.Printer Model.Store Model.Eval.
Local Open Scope list_scope.

Lemma text_eqb_sym a b : text_eqb a b = text_eqb b a.
Proof.
  revert b. induction a as [|x a IH]; intros [|y b]; simpl; try reflexivity.
  rewrite N.eqb_sym, IH. reflexivity.
Qed.

(* ---- symbols ---------------------------------------------------------- *)
Lemma sym_eq_refl a : symbolp a = true -> sym_eq a a = true.
Proof.
  destruct a; simpl; try discriminate; intros _.
  - apply text_eqb_refl. - apply Pos.eqb_refl. - rewrite Pos.eqb_refl. reflexivity.
Qed.

Lemma sym_eq_sym a b : sym_eq a b = sym_eq b a.
Proof.
  destruct a, b; simpl; try reflexivity;
    try apply text_eqb_sym; try apply Pos.eqb_sym.
  rewrite (Pos.eqb_sym id id0), (Pos.eqb_sym root root0). reflexivity.
Qed.

Lemma sym_eq_nonsym a b : symbolp b = false -> sym_eq a b = false.
Proof. destruct a, b; simpl; try reflexivity; discriminate. Qed.

Section Eq.
Variable F : fops.
(* the float comparison of the oracle on the values at hand: IEEE == is    *)
(* symmetric, and reflexive except on NaN                                   *)
Hypothesis f_eq_sym : forall x y, f_eq F x y = f_eq F y x.

Theorem equal_sym : forall a b, equal F a b = equal F b a.
Proof.
  induction a; intros b; destruct b; simpl; try reflexivity;
    try apply Z.eqb_sym; try apply f_eq_sym; try apply text_eqb_sym; try apply Pos.eqb_sym;
    try (rewrite IHa1, IHa2; reflexivity); try apply IHa.
  rewrite (Pos.eqb_sym id id0), (Pos.eqb_sym root root0). reflexivity.
Qed.

(* values without NaN: every float in them compares equal to itself *)
Fixpoint no_nan (a : sx) : Prop :=
  match a with
  | Flt b => f_eq F b b = true
  | Cons x y => no_nan x /\ no_nan y
  | Quote x | Bq x | Unq x | Splice x | Sharp x => no_nan x
  | _ => True
  end.

Theorem equal_refl : forall a, no_nan a -> equal F a a = true.
Proof.
  induction a; simpl; intros H; try reflexivity; auto.
  - apply Z.eqb_refl. - apply text_eqb_refl. - apply text_eqb_refl.
  - apply Pos.eqb_refl. - rewrite Pos.eqb_refl. reflexivity.
  - destruct H. rewrite IHa1, IHa2 by assumption. reflexivity.
Qed.

(* structural: strings by content, lists element-wise incl. dotted tails,  *)
(* integers by value                                                        *)
Theorem equal_string x y : equal F (Str x) (Str y) = true <-> x = y.
Proof. simpl. apply text_eqb_eq. Qed.
Theorem equal_int x y : equal F (Int x) (Int y) = true <-> x = y.
Proof. simpl. apply Z.eqb_eq. Qed.
Theorem equal_cons a d a' d' :
  equal F (Cons a d) (Cons a' d') = equal F a a' && equal F d d'.
Proof. reflexivity. Qed.
Theorem equal_cons_atom a d x : consp x = false -> equal F (Cons a d) x = false.
Proof. destruct x; simpl; try reflexivity; discriminate. Qed.
Theorem equal_int_float x y : equal F (Int x) (Flt y) = f_eq F (f_of_int F x) y.
Proof. reflexivity. Qed.

(* eq (identity, where the pure model can decide it) implies equal *)
Lemma same_repr_equal : forall a b, no_nan a -> same_repr a b = true -> equal F a b = true.
Proof.
  induction a; intros b Hn H; destruct b; simpl in *; try discriminate; auto.
  - apply Z.eqb_eq in H. subst. exact Hn.
  - apply andb_true_iff in H as [H1 H2]. destruct Hn. rewrite IHa1, IHa2; auto.
Qed.

Theorem eq_implies_equal a b : no_nan a -> eq_model a b = Some true -> equal F a b = true.
Proof.
  intros Hn H. unfold eq_model in H.
  destruct a, b; simpl in *; try discriminate; try (inversion H; reflexivity);
    try (inversion H as [H']; rewrite H'; reflexivity);
    try (destruct h; try destruct h0; discriminate).
  all: try (destruct (same_repr _ _); discriminate).
  all: try (repeat match type of H with context[if ?c then _ else _] => destruct c eqn:? end; discriminate).
  all: try (destruct h as [i|]; destruct h0 as [j|]; simpl in H; try discriminate; reflexivity).
Qed.

End Eq.

(* ---- interning, make-symbol -------------------------------------------- *)
Theorem intern_same n : eq_model (Sym n) (Sym n) = Some true.
Proof. simpl. rewrite text_eqb_refl. reflexivity. Qed.
Theorem intern_distinct n m : n <> m -> eq_model (Sym n) (Sym m) = Some false.
Proof.
  intros H. simpl. destruct (text_eqb n m) eqn:E; [apply text_eqb_eq in E; contradiction|reflexivity].
Qed.
Theorem uninterned_never_interned n i m : eq_model (USym n i) (Sym m) = Some false.
Proof. reflexivity. Qed.
Theorem uninterned_distinct n i m j : i <> j -> eq_model (USym n i) (USym m j) = Some false.
Proof. intros H. simpl. destruct (Pos.eqb i j) eqn:E; [apply Pos.eqb_eq in E; contradiction|reflexivity]. Qed.

(* make-symbol / gensym take their serial from fresh_id: two calls, also with *)
(* the same name, give symbols that are not eq                                *)
Theorem fresh_ids_distinct s :
  let '(r1, s1) := fresh_id s in
  let '(r2, _) := fresh_id s1 in
  exists i j, r1 = Ok i /\ r2 = Ok j /\ i <> j.
Proof.
  simpl. exists (next_id s), (Pos.succ (next_id s)). repeat split. apply Pos.succ_discr.
Qed.

(* ---- hash tables: a finite map keyed by eql ----------------------------- *)
Definition akey (x : sx) : bool :=
  match x with Int _ | Flt _ | Sym _ | USym _ _ | Nil | T => true | _ => false end.
Definition keq (a b : sx) : bool :=
  match eql_model a b with Some true => true | _ => false end.

Lemma eql_akey a b : akey a = true -> akey b = true -> eql_model a b = Some (keq a b).
Proof.
  destruct a, b; simpl; try discriminate; intros _ _; unfold keq; simpl;
    try reflexivity;
    match goal with |- Some ?x = _ => destruct x; reflexivity end.
Qed.

Lemma keq_refl a : akey a = true -> keq a a = true.
Proof.
  destruct a; simpl; try discriminate; intros _; unfold keq; simpl;
    rewrite ?Z.eqb_refl, ?text_eqb_refl, ?Pos.eqb_refl; reflexivity.
Qed.

Lemma keq_eq a b : akey a = true -> akey b = true -> keq a b = true ->
  forall c, akey c = true -> keq a c = keq b c.
Proof.
  destruct a, b; simpl; try discriminate; intros _ _ H c Hc; unfold keq in *; simpl in *;
    try discriminate; try reflexivity.
  - destruct (Z.eqb z z0) eqn:E; [|discriminate]. apply Z.eqb_eq in E. subst. reflexivity.
  - destruct (Z.eqb bits bits0) eqn:E; [|discriminate]. apply Z.eqb_eq in E. subst. reflexivity.
  - destruct (text_eqb n n0) eqn:E; [|discriminate]. apply text_eqb_eq in E. subst. reflexivity.
  - destruct (Pos.eqb id id0) eqn:E; [|discriminate]. apply Pos.eqb_eq in E. subst.
    destruct c; simpl; try reflexivity.
Qed.

Lemma keq_sym a b : akey a = true -> akey b = true -> keq a b = keq b a.
Proof.
  intros Ha Hb. destruct a, b; simpl in *; try discriminate; unfold keq; simpl; try reflexivity.
  - rewrite (Z.eqb_sym z z0). reflexivity.
  - rewrite (Z.eqb_sym bits bits0). reflexivity.
  - rewrite (text_eqb_sym n n0). reflexivity.
  - rewrite (Pos.eqb_sym id id0). reflexivity.
Qed.

Definition akeys (l : list (sx * sx)) : Prop := Forall (fun p => akey (fst p) = true) l.

Lemma ht_put_akeys : forall l k v, akeys l -> akey k = true ->
  exists l', ht_put l k v = Ok l' /\ akeys l'.
Proof.
  induction l as [|[k' v'] l IH]; intros k v Hl Hk; simpl.
  - eexists; split; [reflexivity|]. constructor; [assumption|constructor].
  - inversion Hl as [|? ? Hk' Hl']; subst. simpl in Hk'.
    rewrite (eql_akey k' k Hk' Hk). destruct (keq k' k).
    + eexists; split; [reflexivity|]. constructor; assumption.
    + destruct (IH k v Hl' Hk) as (l' & E & Hl2). rewrite E.
      eexists; split; [reflexivity|]. constructor; assumption.
Qed.

Theorem find_put : forall l k v k', akeys l -> akey k = true -> akey k' = true ->
  forall l', ht_put l k v = Ok l' ->
  ht_find l' k' = if keq k k' then Ok v else ht_find l k'.
Proof.
  induction l as [|[k0 v0] l IH]; intros k v k' Hl Hk Hk' l' Hp; simpl in Hp.
  - inversion Hp; subst. simpl. rewrite (eql_akey k k' Hk Hk'). destruct (keq k k'); reflexivity.
  - inversion Hl as [|? ? Hk0 Hl0]; subst. simpl in Hk0.
    rewrite (eql_akey k0 k Hk0 Hk) in Hp. destruct (keq k0 k) eqn:E0.
    + inversion Hp; subst. simpl. rewrite (eql_akey k0 k' Hk0 Hk').
      rewrite (keq_eq k0 k Hk0 Hk E0 k' Hk'). destruct (keq k k'); reflexivity.
    + destruct (ht_put l k v) as [l2| | |] eqn:E2; try discriminate. inversion Hp; subst.
      simpl. rewrite (eql_akey k0 k' Hk0 Hk').
      destruct (keq k0 k') eqn:E1.
      * destruct (keq k k') eqn:E3; [|reflexivity].
        (* k ~ k' and k0 ~ k' would give k0 ~ k *)
        exfalso.
        assert (keq k' k0 = keq k k0) by (symmetry; apply keq_eq; assumption).
        pose proof keq_sym as Hs.
        rewrite (Hs k0 k) in E0 by assumption. rewrite (Hs k0 k') in E1 by assumption. congruence.
      * apply IH; assumption.
Qed.

(* any sequence of puthash: gethash returns the value most recently stored  *)
(* under an eql key, nil otherwise                                           *)
Fixpoint puts (l : list (sx * sx)) (ops : list (sx * sx)) : res (list (sx * sx)) :=
  match ops with
  | [] => Ok l
  | (k, v) :: r => match ht_put l k v with Ok l' => puts l' r | e => e end
  end.

Fixpoint latest (ops : list (sx * sx)) (k : sx) : option sx :=
  match ops with
  | [] => None
  | (k', v) :: r => match latest r k with
                    | Some x => Some x
                    | None => if keq k' k then Some v else None
                    end
  end.

Theorem puts_spec : forall ops l0 l k, akeys l0 -> akeys ops -> akey k = true ->
  puts l0 ops = Ok l ->
  ht_find l k = match latest ops k with Some v => Ok v | None => ht_find l0 k end.
Proof.
  induction ops as [|[k' v] ops IH]; intros l0 l k Hl0 Hops Hk Hp; simpl in Hp.
  - inversion Hp; subst. reflexivity.
  - inversion Hops as [|? ? Hk' Hops']; subst. simpl in Hk'.
    destruct (ht_put_akeys l0 k' v Hl0 Hk') as (l1 & E1 & Hl1). rewrite E1 in Hp.
    rewrite (IH l1 l k Hl1 Hops' Hk Hp). simpl.
    destruct (latest ops k); [reflexivity|].
    rewrite (find_put l0 k' v k Hl0 Hk' Hk l1 E1). destruct (keq k' k); reflexivity.
Qed.

Theorem puts_total : forall ops l0, akeys l0 -> akeys ops -> exists l, puts l0 ops = Ok l.
Proof.
  induction ops as [|[k' v] ops IH]; intros l0 Hl0 Hops; simpl; [eauto|].
  inversion Hops as [|? ? Hk' Hops']; subst. simpl in Hk'.
  destruct (ht_put_akeys l0 k' v Hl0 Hk') as (l1 & E1 & Hl1). rewrite E1. apply IH; assumption.
Qed.
