(* C19: several contexts; load = evaluate.                                   *)
From TL Require Import Base.Base Model.Reader Model.Printer Model.Store Model.Eval Model.Init.
Local Open Scope nat_scope.
Local Open Scope list_scope.

Section World.
Variable F : fops.
Variable fuel : nat.

(* a world is a list of contexts; a request names the context it runs in:    *)
(* what the OCaml driver and the Rust harness do with an array of contexts    *)
Definition world := list st.
Definition request := (nat * text)%type.

Fixpoint upd (w : world) (i : nat) (s : st) : world :=
  match w, i with
  | [], _ => []
  | _ :: r, O => s :: r
  | x :: r, S i' => x :: upd r i' s
  end.

Definition wstep (w : world) (q : request) : world * option (res sx) :=
  match nth_error w (fst q) with
  | Some s => let '(r, s') := eval_string F fuel (snd q) s in (upd w (fst q) s', Some r)
  | None => (w, None)
  end.

Fixpoint wrun (w : world) (qs : list request) : world * list (nat * option (res sx)) :=
  match qs with
  | [] => (w, [])
  | q :: r => let '(w1, o) := wstep w q in
              let '(w2, os) := wrun w1 r in (w2, (fst q, o) :: os)
  end.

(* one context alone *)
Fixpoint crun (s : st) (ts : list text) : st * list (res sx) :=
  match ts with
  | [] => (s, [])
  | t :: r => let '(o, s1) := eval_string F fuel t s in
              let '(s2, os) := crun s1 r in (s2, o :: os)
  end.

Lemma nth_upd_same : forall w i s, i < List.length w -> nth_error (upd w i s) i = Some s.
Proof.
  induction w as [|x w IH]; intros i s Hi; simpl in *; [lia|].
  destruct i; simpl; [reflexivity|]. apply IH. lia.
Qed.
Lemma nth_upd_other : forall w i j s, i <> j -> nth_error (upd w i s) j = nth_error w j.
Proof.
  induction w as [|x w IH]; intros i j s Hij; simpl; [reflexivity|].
  destruct i, j; simpl; try reflexivity; [congruence|]. apply IH. congruence.
Qed.
Lemma upd_length : forall w i s, List.length (upd w i s) = List.length w.
Proof. induction w as [|x w IH]; intros [|i] s; simpl; auto. Qed.

(* a request changes no other context *)
Theorem step_isolated w q j : j <> fst q -> nth_error (fst (wstep w q)) j = nth_error w j.
Proof.
  intros Hj. unfold wstep. destruct (nth_error w (fst q)) as [s|]; [|reflexivity].
  destruct (eval_string F fuel (snd q) s) as [r s']. simpl. apply nth_upd_other. congruence.
Qed.

Definition mine (i : nat) (qs : list request) : list text :=
  map snd (filter (fun q => Nat.eqb (fst q) i) qs).
Definition outs_of (i : nat) (os : list (nat * option (res sx))) : list (res sx) :=
  flat_map (fun o => if Nat.eqb (fst o) i then match snd o with Some r => [r] | None => [] end else []) os.

(* for every interleaving: what context i answers, and the state it ends in, *)
(* are those of running its own requests alone                                 *)
Theorem isolation : forall qs w i s, nth_error w i = Some s ->
  let '(w', os) := wrun w qs in
  let '(s', rs) := crun s (mine i qs) in
  nth_error w' i = Some s' /\ outs_of i os = rs.
Proof.
  induction qs as [|q qs IH]; intros w i s Hs; simpl.
  - split; [assumption|reflexivity].
  - unfold wstep. destruct (nth_error w (fst q)) as [sq|] eqn:Eq.
    + destruct (eval_string F fuel (snd q) sq) as [r sq'] eqn:Ee.
      destruct (Nat.eqb (fst q) i) eqn:Ei.
      * apply Nat.eqb_eq in Ei. rewrite Ei in *. rewrite Hs in Eq. inversion Eq; subst sq.
        assert (Hi : i < List.length w) by (apply nth_error_Some; congruence).
        specialize (IH (upd w i sq') i sq' (nth_upd_same w i sq' Hi)).
        unfold mine in *. simpl. rewrite Ei, Nat.eqb_refl. simpl. rewrite Ee.
        destruct (wrun (upd w i sq') qs) as [w2 os].
        destruct (crun sq' (map snd (filter (fun q0 => Nat.eqb (fst q0) i) qs))) as [s2 rs].
        destruct IH as [A B]. split; [assumption|]. simpl. rewrite Nat.eqb_refl. simpl.
        rewrite B. reflexivity.
      * apply Nat.eqb_neq in Ei.
        assert (Hs' : nth_error (upd w (fst q) sq') i = Some s)
          by (rewrite nth_upd_other by assumption; assumption).
        specialize (IH (upd w (fst q) sq') i s Hs').
        unfold mine in *. simpl.
        assert (Nat.eqb (fst q) i = false) as -> by (apply Nat.eqb_neq; assumption).
        destruct (wrun (upd w (fst q) sq') qs) as [w2 os].
        destruct (crun s (map snd (filter (fun q0 => Nat.eqb (fst q0) i) qs))) as [s2 rs].
        destruct IH as [A B]. split; [assumption|]. simpl.
        assert (Nat.eqb (fst q) i = false) as -> by (apply Nat.eqb_neq; assumption).
        exact B.
    + assert (Ei : Nat.eqb (fst q) i = false).
      { apply Nat.eqb_neq. intros E. rewrite E in Eq. congruence. }
      specialize (IH w i s Hs). unfold mine in *. simpl. rewrite Ei.
      destruct (wrun w qs) as [w2 os].
      destruct (crun s (map snd (filter (fun q0 => Nat.eqb (fst q0) i) qs))) as [s2 rs].
      destruct IH as [A B]. split; [assumption|]. simpl. rewrite Ei. exact B.
Qed.

(* ---- load = evaluate ---------------------------------------------------- *)
Definition bump_files (s : st) : st :=
  {| store := store s; next_id := next_id s; log := log s; steps := steps s;
     fail_at := fail_at s; htabs := htabs s; flags := flags s; files := files s;
     nfiles := N.succ (nfiles s); mlog := mlog s; glog := glog s |}.

(* evaluate-file: the contents evaluated as a string, in a state that differs *)
(* only by the file-name table                                                *)
Theorem eval_file_is_eval_string name body s :
  find (fun p => text_eqb (fst p) name) (files s) = Some (name, body) ->
  eval_file F fuel name s = eval_string F fuel body (bump_files s).
Proof.
  intros Hf. unfold eval_file, eval_string, bind, find_file. rewrite Hf. simpl.
  destruct (run_body F (run F fuel) body _) as [[v|e|n|] s1]; reflexivity.
Qed.

Theorem eval_file_missing name s :
  find (fun p => text_eqb (fst p) name) (files s) = None ->
  eval_file F fuel name s = (Err EUndef, s).
Proof. intros Hf. unfold eval_file, bind, find_file. rewrite Hf. reflexivity. Qed.

(* (load "name") inside a program: the same, with the interpreter instance    *)
(* one level down; also for nested loads, since the loaded text is evaluated   *)
(* by the same run_body                                                        *)
Theorem load_is_eval_string f name s :
  apply_prim F (run F f) (run_body F (run F f)) PLoad (Cons (Str name) Nil) s =
  match run F f (TEval (Str name)) s with
  | (Ok (Str n), s0) =>
      match find (fun p => text_eqb (fst p) n) (files s0) with
      | Some p => eval_string F f (snd p) (bump_files s0)
      | None => (Err EUndef, s0)
      end
  | (Ok _, s0) => (Err EType, s0)
  | (Err e, s0) => (Err e, s0) | (Panic n, s0) => (Panic n, s0) | (Fuel, s0) => (Fuel, s0)
  end.
Proof.
  cbn [apply_prim]. unfold arg_req, bind, ev.
  destruct (run F f (TEval (Str name)) s) as [[v|e|n|] s0]; try reflexivity.
  unfold ret, lift. destruct v; try reflexivity.
  simpl. unfold find_file. destruct (find _ (files s0)) as [p|]; [|reflexivity].
  unfold eval_string. destruct (run_body F (run F f) (snd p) _) as [[v'|e'|n'|] s9]; reflexivity.
Qed.

End World.
