(* C04: what mark_tail_calls rewrites, and one iteration of the trampoline.   *)
From TL Require Import Base.Base Model.Reader Model.Printer Model.Store Model.Eval.
From TL Require Import Proofs.EvalRel.
Local Open Scope list_scope.

(* [mt_body name b b']: the body (a list of forms) b' is b with self-calls in   *)
(* TAIL POSITION replaced by the trampoline marker form (list Bounce . args);    *)
(* tail position = the last form of the body, and recursively the tail of a      *)
(* progn / let / let*, both branches of an if, the body of every cond clause.    *)
(* Everything else - in particular every self-call that is not in tail position  *)
(* - is unchanged.                                                               *)
Inductive mt_body (name : sx) : sx -> sx -> Prop :=
| mtb_same b : mt_body name b b
| mtb_last b init tail tail' :
    items b = init ++ [tail] -> mt_form name tail tail' ->
    mt_body name b (of_list (init ++ [tail']) Nil)
with mt_form (name : sx) : sx -> sx -> Prop :=
| mtf_same x : mt_form name x x
| mtf_self h args : sym_eq h name = true ->
    mt_form name (Cons h args) (Cons (Sym n_list) (Cons Bounce (nil_append args)))
| mtf_seq h rest rest' : mt_body name rest rest' ->       (* progn, let, let* *)
    mt_form name (Cons h rest) (Cons h rest')
| mtf_if h tcdr c r1 thn thn' els els' :
    car_of tcdr = Ok c -> cdr_of tcdr = Ok r1 -> car_of r1 = Ok thn -> cdr_of r1 = Ok els ->
    mt_form name thn thn' -> mt_body name els els' ->
    mt_form name (Cons h tcdr) (Cons h (Cons c (Cons thn' els')))
| mtf_cond h tcdr clauses' :
    Forall2 (fun cl cl' => exists c b b', car_of cl = Ok c /\ cdr_of cl = Ok b /\
                                          cl' = Cons c b' /\ mt_body name b b')
            (items tcdr) clauses' ->
    mt_form name (Cons h tcdr) (Cons h (of_list clauses' Nil)).

Lemma last_and_init_spec : forall l i t, last_and_init l = Some (i, t) -> l = i ++ [t].
Proof.
  induction l as [|x l IH]; intros i t H; [discriminate|].
  simpl in H. destruct l as [|y l].
  - inversion H; subst. reflexivity.
  - destruct (last_and_init (y :: l)) as [[i' t']|] eqn:E; [|discriminate].
    inversion H; subst. rewrite (IH i' t eq_refl). reflexivity.
Qed.

Lemma mt_body_single name thn mt :
  mt_body name (Cons thn Nil) mt -> exists thn', car_of mt = Ok thn' /\ mt_form name thn thn'.
Proof.
  intros H. inversion H as [|? init tail tail' Hi Hf]; subst.
  - exists thn. split; [reflexivity|apply mtf_same].
  - simpl in Hi. destruct init as [|x init].
    + simpl in Hi. inversion Hi; subst. exists tail'. split; [reflexivity|assumption].
    + inversion Hi as [[Hx Hr]]. destruct init; discriminate.
Qed.

(* mark_tail rewrites exactly self-calls in tail position *)
Theorem mark_tail_spec : forall fuel name body body',
  mark_tail fuel name body = Ok body' -> mt_body name body body'.
Proof.
  induction fuel as [|fuel IH]; intros name body body' H; [discriminate|].
  cbn [mark_tail] in H.
  destruct body; try (inversion H; subst; apply mtb_same).
  destruct (last_and_init (items (Cons body1 body2))) as [[init tail]|] eqn:El;
    [|inversion H; subst; apply mtb_same].
  apply last_and_init_spec in El.
  destruct tail as [| | | | | | | |th tcdr| | | | | | | | | | |];
    try (inversion H; subst; apply mtb_same).
  destruct (sym_name th) as [tn|]; [|inversion H; subst; apply mtb_same].
  destruct (sym_eq th name) eqn:Eself.
  { inversion H; subst. eapply mtb_last; [exact El|]. apply mtf_self. assumption. }
  destruct (text_eqb tn n_progn || text_eqb tn n_let || text_eqb tn n_letstar).
  { destruct (mark_tail fuel name tcdr) as [m|e|n|] eqn:Em; try discriminate.
    inversion H; subst. eapply mtb_last; [exact El|]. apply mtf_seq. apply IH. exact Em. }
  destruct (text_eqb tn n_if).
  { destruct (cdr_of tcdr) as [r1|e|n|] eqn:E1; try discriminate.
    destruct (car_of tcdr) as [c|e|n|] eqn:E0; try discriminate;
    destruct (car_of r1) as [thn|e2|n2|] eqn:E2; try discriminate;
    destruct (cdr_of r1) as [els|e3|n3|] eqn:E3; try discriminate.
    destruct (mark_tail fuel name (Cons thn Nil)) as [mt|e4|n4|] eqn:Em; try discriminate.
    destruct (car_of mt) as [mt1|e5|n5|] eqn:E5; try discriminate;
    destruct (mark_tail fuel name els) as [me|e6|n6|] eqn:Ee; try discriminate.
    inversion H; subst. eapply mtb_last; [exact El|].
    apply IH in Em. apply IH in Ee.
    destruct (mt_body_single _ _ _ Em) as (thn' & Ec & Hf). rewrite Ec in E5. inversion E5; subst.
    eapply mtf_if; eassumption. }
  destruct (text_eqb tn n_cond).
  { (* the clause loop *)
    match type of H with
    | ?f (items tcdr) [] = Ok body' =>
        assert (Hloop : forall cs acc out, f cs acc = Ok out ->
          exists cl', out = of_list (init ++ [Cons th (of_list (acc ++ cl') Nil)]) Nil /\
            Forall2 (fun cl cl' => exists c b b', car_of cl = Ok c /\ cdr_of cl = Ok b /\
                                                  cl' = Cons c b' /\ mt_body name b b') cs cl')
    end.
    { induction cs as [|c cs IHc]; intros acc out Hr.
      - inversion Hr; subst. exists []. rewrite app_nil_r. split; [reflexivity|constructor].
      - destruct (car_of c) as [cond|e|n|] eqn:Ec; destruct (cdr_of c) as [cbody|e2|n2|] eqn:Ed;
          try discriminate.
        destruct (mark_tail fuel name cbody) as [mb|e3|n3|] eqn:Em; try discriminate.
        destruct (IHc _ _ Hr) as (cl' & -> & HF).
        exists (Cons cond mb :: cl'). split; [rewrite <- app_assoc; reflexivity|].
        constructor; [|assumption]. exists cond, cbody, mb. repeat split; auto. }
    destruct (Hloop _ _ _ H) as (cl' & -> & HF). simpl.
    eapply mtb_last; [exact El|]. apply mtf_cond. assumption. }
  inversion H; subst. eapply mtb_last; [exact El|apply mtf_same].
Qed.

(* ---- the trampoline ------------------------------------------------------ *)
Section Tramp.
Variable F : fops.

(* the marker form evaluates the argument forms of the tail call, once each,  *)
(* left to right, in the callee's current bindings, and yields the marker      *)
Theorem marker_evaluates_arguments rec load args s :
  (forall s0, rec (TEval Bounce) s0 = (Ok Bounce, s0)) ->
  apply_prim F rec load PList (Cons Bounce args) s =
  bind (eval_each rec (items args)) (fun vs => ret (Cons Bounce (of_list vs Nil))) s.
Proof.
  intros Hb. cbn [apply_prim items eval_each]. unfold bind at 1 2. unfold ev. rewrite Hb.
  unfold bind. destruct (eval_each rec (items args) s) as [[vs|e|n|] s1]; reflexivity.
Qed.

Theorem marker_is_bounced vs : is_bounced (Cons Bounce (of_list vs Nil)) = true.
Proof. reflexivity. Qed.

(* one iteration: the parameters are bound to the VALUES of the marker (they  *)
(* are not evaluated again), the body runs, the parameters are unbound, and     *)
(* the loop continues with the body's result                                    *)
Theorem trampoline_iteration f ps body vals s :
  run F (S f) (TTramp ps body (Cons Bounce vals)) s =
  bind (eval_function (run F f) false ps body vals)
       (fun r' => run F f (TTramp ps body r')) s.
Proof. reflexivity. Qed.

Theorem trampoline_exit f ps body r s : is_bounced r = false ->
  run F (S f) (TTramp ps body r) s = (Ok r, s).
Proof.
  intros H. change (run F (S f) (TTramp ps body r) s)
    with (step F (run F f) (run_body F (run F f)) (TTramp ps body r) s).
  cbn [step]. rewrite H. reflexivity.
Qed.

(* a call of a defun / lambda: the first activation, then the trampoline *)
Theorem call_enters_trampoline f evalp ps body args s :
  run F (S f) (TCall evalp (Lam ps body) args) s =
  bind (eval_function (run F f) evalp ps body args)
       (fun r => run F f (TTramp ps body r)) s.
Proof. reflexivity. Qed.

(* the whole loop, any number of iterations: bindings balanced, no panic *)
Theorem trampoline_balanced f ps body r s r' s' :
  run F f (TTramp ps body r) s = (r', s') -> r' <> Fuel -> Inv s s' /\ np r'.
Proof. intros H Hr. apply (run_inv F f (TTramp ps body r) s r' s' H Hr I). Qed.

End Tramp.
