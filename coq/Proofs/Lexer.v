(* C09 at character level: the tokenizer run on the printed text of a data    *)
(* value yields exactly the value's tokens, so reading the printed text gives  *)
(* the value back.                                                             *)
From TL Require Import Base.Base Model.Reader Model.Printer Model.Store Model.Eval.
From TL Require Import Proofs.ReaderTotal Proofs.Decimal Proofs.ReadPrint Proofs.Positions.
Local Open Scope nat_scope.
Local Open Scope list_scope.

(* evaluate comparisons between character constants *)
Ltac ceval :=
  repeat match goal with
         | |- context[N.eqb ?a ?b] =>
             let v := eval vm_compute in (N.eqb a b) in
             match v with
             | true => change (N.eqb a b) with true
             | false => change (N.eqb a b) with false
             end
         end; cbv iota; cbn [orb andb negb].

(* a character that ends an identifier; the end of the text does so as well *)
Definition term (rest : text) : Prop :=
  rest = [] \/ exists c r, rest = c :: r /\ ident_stop c = true.

Definition nostop (n : text) : bool := forallb (fun c => negb (ident_stop c)) n.

(* a character with which an identifier or number token can start *)
Definition ordinary (c : cp) : bool :=
  negb (N.eqb c c_nl || N.eqb c c_sp || N.eqb c c_cr || N.eqb c c_tab ||
        N.eqb c c_lp || N.eqb c c_rp || N.eqb c c_quote || N.eqb c c_btick ||
        N.eqb c c_dot || N.eqb c c_sharp || N.eqb c c_comma || N.eqb c c_dq || N.eqb c c_semi).

(* the classification flags of read_num_ident, without the positions *)
Fixpoint sflags (cs : text) (first i f : bool) : bool * bool :=
  match cs with
  | [] => (i, f)
  | c :: r =>
      if N.eqb c c_minus then (if first then sflags r false i f else sflags r false false false)
      else if is_digit c then sflags r false i f
      else if N.eqb c c_dot then
        (if i && negb f then sflags r false false true
         else if f then sflags r false i false
         else sflags r false i f)
      else sflags r false false false
  end.

Lemma term_scan rest line pos first i f acc : term rest ->
  scan_ident rest line pos first i f acc = (rev acc, i, f, rest, line, pos).
Proof.
  intros [->|(c & r & -> & Hs)]; [reflexivity|]. simpl. rewrite Hs. reflexivity.
Qed.

Lemma scan_sflags : forall n rest line pos first i f acc, nostop n = true -> term rest ->
  scan_ident (n ++ rest) line pos first i f acc =
  (rev acc ++ n, fst (sflags n first i f), snd (sflags n first i f), rest,
   fst (walk n line pos), snd (walk n line pos)).
Proof.
  induction n as [|c n IH]; intros rest line pos first i f acc Hn Ht.
  - simpl app. rewrite term_scan by assumption. rewrite app_nil_r. reflexivity.
  - simpl in Hn. apply andb_true_iff in Hn as [Hc Hn]. apply negb_true_iff in Hc.
    simpl app. cbn [scan_ident sflags walk]. rewrite Hc.
    destruct (advance c line pos) as [l1 p1].
    assert (E : forall a b d, scan_ident (n ++ rest) l1 p1 a b d (c :: acc) =
              (rev acc ++ c :: n, fst (sflags n a b d), snd (sflags n a b d), rest,
               fst (walk n l1 p1), snd (walk n l1 p1))).
    { intros a b d. rewrite IH by assumption. simpl. rewrite <- app_assoc. reflexivity. }
    destruct (N.eqb c c_minus); [destruct first; apply E|].
    destruct (is_digit c); [apply E|].
    destruct (N.eqb c c_dot); [|apply E].
    destruct (i && negb f); [apply E|]. destruct f; apply E.
Qed.

Section Lex.
Variable F : fops.

(* what read_num_ident makes of the characters [n] *)
Definition classify (n : text) : tok :=
  let '(i, f) := sflags n true true false in
  if i && negb (text_eqb n [c_minus]) then
    match parse_i64 n with Some v => TInt v | None => TErr end
  else if f then
    match f_of_dec F n with Some b => TFlt b | None => TErr end
  else TIdent n.

Lemma read_num_ident_classify n rest line pos : nostop n = true -> term rest ->
  exists sp l p, read_num_ident F (n ++ rest) line pos = (classify n, sp, rest, l, p).
Proof.
  intros Hn Ht. unfold read_num_ident, classify.
  rewrite (scan_sflags n rest line pos true true false [] Hn Ht). simpl rev. simpl app.
  destruct (sflags n true true false) as [i f]. cbn [fst snd].
  destruct (i && negb (text_eqb n [c_minus])).
  - destruct (parse_i64 n); eauto.
  - destruct f; [destruct (f_of_dec F n); eauto|eauto].
Qed.

(* ---- one token ------------------------------------------------------------------ *)
Definition nt (cs : text) (t : tok) (rest : text) : Prop :=
  forall fuel line pos, List.length cs < fuel ->
    exists sp l p, next_tok F fuel cs line pos = Ok (Some (t, sp, rest, l, p)).

Lemma nt_ws c cs t rest :
  (N.eqb c c_nl || N.eqb c c_sp || N.eqb c c_cr || N.eqb c c_tab) = true ->
  nt cs t rest -> nt (c :: cs) t rest.
Proof.
  intros Hc H fuel line pos Hf. destruct fuel as [|fuel]; [lia|]. cbn [next_tok].
  destruct (advance c line pos) as [l1 p1]. rewrite Hc. apply H. simpl in Hf. lia.
Qed.

Lemma nt_sp cs t rest : nt cs t rest -> nt (c_sp :: cs) t rest.
Proof. apply nt_ws. reflexivity. Qed.

Lemma tok1_some t r l p : exists sp, tok1 t r l (N.succ p) = Ok (Some (t, sp, r, l, N.succ p)).
Proof. unfold tok1. rewrite usub_ok by lia. eauto. Qed.
Lemma tok2_some t r l p :
  exists sp, tok2 t r l (N.succ (N.succ p)) = Ok (Some (t, sp, r, l, N.succ (N.succ p))).
Proof. unfold tok2. rewrite usub_ok by lia. eauto. Qed.

Ltac one_char :=
  intros fuel line pos Hf; destruct fuel as [|fuel]; [lia|]; cbn [next_tok]; unfold advance; ceval.

Lemma nt_open r : nt (c_lp :: r) TOpen r.
Proof. one_char. destruct (tok1_some TOpen r line pos) as [sp E]. rewrite E. eauto. Qed.
Lemma nt_close r : nt (c_rp :: r) TClose r.
Proof. one_char. destruct (tok1_some TClose r line pos) as [sp E]. rewrite E. eauto. Qed.
Lemma nt_quote r : nt (c_quote :: r) TQuote r.
Proof. one_char. destruct (tok1_some TQuote r line pos) as [sp E]. rewrite E. eauto. Qed.
Lemma nt_btick r : nt (c_btick :: r) TBacktick r.
Proof. one_char. destruct (tok1_some TBacktick r line pos) as [sp E]. rewrite E. eauto. Qed.
Lemma nt_dot r : nt (c_dot :: r) TDot r.
Proof. one_char. destruct (tok1_some TDot r line pos) as [sp E]. rewrite E. eauto. Qed.
Lemma nt_comma c r : c <> c_at -> nt (c_comma :: c :: r) TComma (c :: r).
Proof.
  intros Hc. one_char. apply N.eqb_neq in Hc. rewrite Hc.
  destruct (tok1_some TComma (c :: r) line pos) as [sp E]. rewrite E. eauto.
Qed.
Lemma nt_splice r : nt (c_comma :: c_at :: r) TSplice r.
Proof.
  one_char. destruct (tok2_some TSplice r line pos) as [sp E]. rewrite E. eauto.
Qed.

Lemma nt_str s rest : nt (c_dq :: escape_string s ++ c_dq :: rest) (TStr s) rest.
Proof.
  one_char.
  destruct (read_string_escape s line (N.succ pos) line (N.succ pos) [] rest) as (l & p & E).
  rewrite E. simpl. eauto.
Qed.

Lemma nt_atom c n rest : ordinary c = true -> nostop (c :: n) = true -> term rest ->
  nt ((c :: n) ++ rest) (classify (c :: n)) rest.
Proof.
  intros Ho Hn Ht fuel line pos Hf. destruct fuel as [|fuel]; [lia|].
  simpl app. cbn [next_tok]. destruct (advance c line pos) as [l1 p1].
  unfold ordinary in Ho. apply negb_true_iff in Ho.
  repeat (apply orb_false_iff in Ho; destruct Ho as [Ho ?]).
  repeat match goal with H : N.eqb c _ = false |- _ => rewrite H; clear H end.
  cbn [orb].
  destruct (read_num_ident_classify (c :: n) rest line pos Hn Ht) as (sp & l & p & E).
  simpl app in E. rewrite E. eauto.
Qed.

(* ---- a sequence of tokens ------------------------------------------------------- *)
Inductive steps : text -> list tok -> text -> Prop :=
| steps_nil cs : steps cs [] cs
| steps_cons cs t cs' ts cs'' : nt cs t cs' -> steps cs' ts cs'' -> steps cs (t :: ts) cs''.

Lemma steps_one cs t cs' : nt cs t cs' -> steps cs [t] cs'.
Proof. intros H. econstructor; [exact H|constructor]. Qed.

Lemma steps_app a ts1 b ts2 c : steps a ts1 b -> steps b ts2 c -> steps a (ts1 ++ ts2) c.
Proof. induction 1; intros H2; [exact H2|]. simpl. econstructor; eauto. Qed.

Lemma steps_sp cs ts rest : ts <> [] -> steps cs ts rest -> steps (c_sp :: cs) ts rest.
Proof.
  intros Hne H. destruct H; [congruence|]. econstructor; [apply nt_sp; eassumption|assumption].
Qed.

(* ---- the values whose printed text is read back ------------------------------------- *)
Definition atom_ok (n : text) (t : tok) : Prop :=
  exists c n', n = c :: n' /\ ordinary c = true /\ nostop n = true /\ classify n = t.

Fixpoint rd (v : sx) : Prop :=
  match v with
  | Nil | T | Str _ => True
  | Int z => in_i64 z = true
  | Flt b => atom_ok (print_float F b) (TFlt b)
  | Sym n => atom_ok n (TIdent n) /\ n <> name_t /\ n <> name_nil
  | Cons a d => rd a /\ rd d
  | Quote x | Bq x | Splice x => rd x
  | Unq x => rd x /\ List.hd c_sp (print F x) <> c_at
  | _ => False
  end.

Lemma rd_rdata : forall v, rd v -> rdata v.
Proof.
  fix IH 1. intros v. destruct v; simpl; try tauto.
  - intros [H1 H2]. split; apply IH; assumption.
  - apply IH.
  - apply IH.
  - intros [H _]. apply IH. exact H.
  - apply IH.
Qed.

Definition ptail : sx -> text :=
  fix tl (d : sx) : text :=
    match d with
    | Nil => [c_rp]
    | Cons a' d' => c_sp :: print F a' ++ tl d'
    | o => s2t " . " ++ print F o ++ [c_rp]
    end.

Lemma print_cons a d : print F (Cons a d) = c_lp :: print F a ++ ptail d.
Proof. reflexivity. Qed.

Lemma all_digits_flags : forall l first i f, all_digits l -> sflags l first i f = (i, f).
Proof.
  induction l as [|c l IH]; intros first i f H; [reflexivity|].
  inversion H as [|? ? Hc Hl]; subst. cbn [sflags].
  assert (Em : N.eqb c c_minus = false).
  { destruct (N.eqb c c_minus) eqn:E; [|reflexivity]. apply N.eqb_eq in E. subst. discriminate Hc. }
  rewrite Em, Hc. apply IH. assumption.
Qed.

Lemma all_digits_nostop l : all_digits l -> nostop l = true.
Proof.
  induction 1 as [|c l Hc _ IH]; [reflexivity|]. simpl. rewrite IH, andb_true_r.
  apply negb_true_iff. unfold ident_stop. unfold is_digit in Hc.
  apply andb_true_iff in Hc as [H1 H2]. apply N.leb_le in H1, H2.
  unfold c_0, c_9 in *.
  repeat (apply orb_false_iff; split); apply N.eqb_neq;
    unfold c_rp, c_sp, c_tab, c_nl, c_cr; lia.
Qed.

Lemma digit_ordinary c : is_digit c = true -> ordinary c = true.
Proof.
  intros Hc. unfold is_digit in Hc. apply andb_true_iff in Hc as [H1 H2]. apply N.leb_le in H1, H2.
  unfold c_0, c_9 in *. unfold ordinary. apply negb_true_iff.
  repeat (apply orb_false_iff; split); apply N.eqb_neq;
    unfold c_nl, c_sp, c_cr, c_tab, c_lp, c_rp, c_quote, c_btick, c_dot, c_sharp, c_comma, c_dq, c_semi; lia.
Qed.

Lemma int_atom z : in_i64 z = true -> atom_ok (print_Z z) (TInt z).
Proof.
  intros Hz. pose proof (parse_print_Z z Hz) as Hp.
  assert (Hpos : forall p, exists c r, print_N (Npos p) = c :: r /\ is_digit c = true /\ all_digits (c :: r)).
  { intros p. destruct (print_N_spec (Npos p)) as (Hne & Hd & _).
    destruct (print_N (Npos p)) as [|c r]; [congruence|]. inversion Hd; subst. eauto. }
  destruct z as [|p|p]; unfold print_Z in *.
  - exists c_0, []. repeat split; try reflexivity.
  - destruct (Hpos p) as (c & r & E & Hc & Hd). rewrite E in *.
    exists c, r. split; [reflexivity|]. split; [apply digit_ordinary; assumption|].
    split; [apply all_digits_nostop; assumption|].
    unfold classify. rewrite all_digits_flags by assumption. cbn [andb].
    assert (En : text_eqb (c :: r) [c_minus] = false).
    { destruct (text_eqb (c :: r) [c_minus]) eqn:E1; [|reflexivity]. apply text_eqb_eq in E1.
      inversion E1; subst. discriminate Hc. }
    rewrite En. cbn [negb]. rewrite Hp. reflexivity.
  - destruct (Hpos p) as (c & r & E & Hc & Hd). rewrite E in *.
    exists c_minus, (c :: r). split; [reflexivity|]. split; [reflexivity|].
    split; [change (nostop (c_minus :: c :: r)) with (nostop (c :: r)); apply all_digits_nostop; assumption|].
    unfold classify. change (sflags (c_minus :: c :: r) true true false) with (sflags (c :: r) false true false).
    rewrite all_digits_flags by assumption. cbn [andb].
    assert (En : text_eqb (c_minus :: c :: r) [c_minus] = false).
    { destruct (text_eqb (c_minus :: c :: r) [c_minus]) eqn:E1; [|reflexivity]. apply text_eqb_eq in E1.
      inversion E1. }
    rewrite En. cbn [negb]. rewrite Hp. reflexivity.
Qed.

Lemma print_nonempty : forall v, rd v -> print F v <> [].
Proof.
  intros v. destruct v; simpl; try discriminate; try contradiction.
  - intros Hz. destruct (int_atom z Hz) as (c & n' & E & _). rewrite E. discriminate.
  - intros (c & n' & E & _). unfold print_float in E |- *. rewrite E. discriminate.
  - intros [(c & n' & E & _) _]. rewrite E. discriminate.
Qed.

(* ---- the printed text of a value lexes to the value's tokens ---------------------------- *)
Definition A_lex (v : sx) : Prop :=
  rd v -> forall rest, term rest -> steps (print F v ++ rest) (toks v) rest.
Definition B_lex (d : sx) : Prop :=
  rd d -> forall rest, steps (ptail d ++ rest) (ttail d) rest.

Lemma term_ptail d rest : term (ptail d ++ rest).
Proof.
  right. destruct d; simpl; try (exists c_sp; eexists; split; [reflexivity|reflexivity]).
  exists c_rp. eexists. split; reflexivity.
Qed.

Lemma atom_steps n t rest : atom_ok n t -> term rest -> steps (n ++ rest) [t] rest.
Proof.
  intros (c & n' & -> & Ho & Hn & <-) Ht. apply steps_one. apply nt_atom; assumption.
Qed.

Lemma lex_all : forall k v, sx_size v < k -> A_lex v /\ B_lex v.
Proof.
  induction k as [|k IH]; intros v Hk; [lia|].
  assert (HA : forall x, sx_size x < sx_size v -> A_lex x) by (intros x Hx; apply IH; lia).
  assert (HB : forall x, sx_size x < sx_size v -> B_lex x) by (intros x Hx; apply IH; lia).
  assert (Hatom : forall o, consp o = false -> o <> Nil -> A_lex o ->
            rd o -> forall rest, steps (ptail o ++ rest) (ttail o) rest).
  { intros o Hc Hn Ao Ho rest.
    assert (Ep : ptail o = c_sp :: c_dot :: c_sp :: print F o ++ [c_rp]) by (destruct o; try reflexivity; try congruence; discriminate Hc).
    assert (Et : ttail o = TDot :: toks o ++ [TClose]) by (apply ttail_atom; assumption).
    rewrite Ep, Et. simpl app.
    econstructor; [apply nt_sp; apply nt_dot|].
    apply steps_sp; [intro E; apply app_eq_nil in E as [_ E]; discriminate|].
    rewrite <- app_assoc. eapply steps_app.
    - apply (Ao Ho). right. exists c_rp. eexists. split; reflexivity.
    - apply steps_one. simpl. apply nt_close. }
  assert (Av : A_lex v).
  { (* the value itself *)
    intros Hv rest Ht. destruct v; simpl in Hv; try contradiction.
    + change (print F Nil) with name_nil. apply atom_steps; [|assumption].
      exists c_n, [105%N; 108%N]. repeat split; reflexivity.
    + change (print F T) with name_t. apply atom_steps; [|assumption].
      exists c_t, []. repeat split; reflexivity.
    + apply atom_steps; [apply int_atom|]; assumption.
    + apply atom_steps; assumption.
    + simpl print. simpl toks. simpl app. rewrite <- app_assoc. apply steps_one. apply nt_str.
    + apply atom_steps; [apply Hv|assumption].
    + destruct Hv as [Ha Hd]. rewrite print_cons, toks_cons. simpl app.
      econstructor; [apply nt_open|]. rewrite <- app_assoc.
      change (ttail (Cons v1 v2)) with (toks v1 ++ ttail v2).
      eapply steps_app.
      * apply (HA v1); [simpl; lia|assumption|apply term_ptail].
      * apply (HB v2); [simpl; lia|assumption].
    + simpl. econstructor; [apply nt_quote|]. apply (HA v); [simpl; lia|assumption|assumption].
    + simpl. econstructor; [apply nt_btick|]. apply (HA v); [simpl; lia|assumption|assumption].
    + destruct Hv as [Hx Hh]. simpl print. simpl toks. simpl app.
      pose proof (print_nonempty v Hx) as Hne.
      destruct (print F v) as [|c r] eqn:Ep; [congruence|]. simpl in Hh. simpl app.
      econstructor; [apply nt_comma; assumption|].
      change (c :: r ++ rest) with ((c :: r) ++ rest). rewrite <- Ep.
      apply (HA v); [simpl; lia|assumption|assumption].
    + simpl. econstructor; [apply nt_splice|]. apply (HA v); [simpl; lia|assumption|assumption].
  }
  split; [exact Av|].
  (* the value as the tail of a list *)
  intros Hv rest.
  destruct v; try (apply Hatom; [reflexivity|discriminate|exact Av|exact Hv]).
  - simpl. apply steps_one. apply nt_close.
  - (* a further element *)
    destruct Hv as [Ha Hd]. change (ptail (Cons v1 v2)) with (c_sp :: print F v1 ++ ptail v2).
    change (ttail (Cons v1 v2)) with (toks v1 ++ ttail v2). simpl app.
    apply steps_sp; [intro E; apply app_eq_nil in E as [E _]; destruct (toks_nonempty v1 E)|]. rewrite <- app_assoc.
    eapply steps_app.
    + apply (HA v1); [simpl; lia|assumption|apply term_ptail].
    + apply (HB v2); [simpl; lia|assumption].
Qed.

(* sufficient conditions for atoms to be readable *)
Lemma sflags_ff : forall l first, sflags l first false false = (false, false).
Proof.
  induction l as [|c l IH]; intros first; [reflexivity|]. cbn [sflags].
  destruct (N.eqb c c_minus); [destruct first; apply IH|].
  destruct (is_digit c); [apply IH|]. destruct (N.eqb c c_dot); apply IH.
Qed.

(* a name that starts with neither a digit nor a minus sign and contains no delimiter *)
Lemma plain_symbol c n : ordinary c = true -> is_digit c = false -> N.eqb c c_minus = false ->
  nostop (c :: n) = true -> atom_ok (c :: n) (TIdent (c :: n)).
Proof.
  intros Ho Hd Hm Hn. exists c, n. split; [reflexivity|]. split; [exact Ho|]. split; [exact Hn|].
  unfold classify. cbn [sflags]. rewrite Hm, Hd.
  assert (Hdot : N.eqb c c_dot = false).
  { unfold ordinary in Ho. apply negb_true_iff in Ho.
    repeat (apply orb_false_iff in Ho; destruct Ho as [Ho ?]). assumption. }
  rewrite Hdot, sflags_ff. reflexivity.
Qed.

(* ---- the whole token stream, and reading -------------------------------------------------- *)
Lemma steps_tokenize : forall cs ts, steps cs ts [] ->
  forall fuel line pos, List.length cs < fuel -> (1 <= pos)%N ->
  exists tsp, tokenize F fuel cs line pos = Ok tsp /\ map fst tsp = ts.
Proof.
  intros cs ts H. remember (@nil cp) as e eqn:He.
  induction H as [cs|cs t cs' ts cs'' Hnt Hs IH]; intros fuel line pos Hf Hp.
  - subst. destruct fuel; [simpl in Hf; lia|]. exists []. split; reflexivity.
  - destruct fuel; [lia|]. cbn [tokenize].
    destruct (Hnt (S (List.length cs)) line pos ltac:(lia)) as (sp & l & p & E).
    destruct (next_tok_good F (S (List.length cs)) cs line pos ltac:(lia) Hp) as [G E0].
    rewrite E in G. simpl in G. destruct G as [G1 G2]. rewrite E.
    assert (Hne : cs <> []) by (intros ->; specialize (E0 eq_refl); congruence).
    assert (Hlt : List.length cs' < List.length cs) by (destruct cs; [congruence|simpl in *; lia]).
    destruct (IH He fuel l p ltac:(lia) G2) as (tsp & Et & Em). rewrite Et.
    exists ((t, sp) :: tsp). split; [reflexivity|]. simpl. f_equal. assumption.
Qed.

(* C09: reading the printed text of a value gives the value back *)
Theorem print_read fl : t_interned fl = false -> nil_interned fl = false ->
  forall v, rd v -> exists a, read_ax F fl (print F v) = Ok [a] /\ strip a = v.
Proof.
  intros Ht Hn v Hv.
  pose proof (proj1 (lex_all (S (sx_size v)) v ltac:(lia)) Hv [] (or_introl eq_refl)) as Hs.
  rewrite app_nil_r in Hs. unfold read_ax.
  destruct (steps_tokenize _ _ Hs (S (List.length (print F v))) 1%N 1%N ltac:(lia) ltac:(lia))
    as (tsp & Et & Em).
  rewrite Et.
  destruct (parse_inverts_value fl Ht Hn v (rd_rdata v Hv) (S (2 * List.length tsp)) tsp [] Em ltac:(lia))
    as (a & Ep & Es).
  rewrite app_nil_r in Ep.
  exists a. split; [|exact Es].
  cbn [parse_all]. rewrite Ep. destruct (List.length tsp) as [|n] eqn:El.
  - destruct tsp; [|discriminate]. simpl in Em. destruct (toks_nonempty v (eq_sym Em)).
  - cbn [parse_all]. reflexivity.
Qed.

(* ---- any layout: white space and comments between the tokens ------------------------------ *)
Definition wsb (c : cp) : bool := N.eqb c c_nl || N.eqb c c_sp || N.eqb c c_cr || N.eqb c c_tab.
Definition no_nl (body : text) : bool := forallb (fun c => negb (N.eqb c c_nl)) body.

(* a gap: white space characters and whole comments, in any order *)
Inductive isgap : text -> Prop :=
| gap_nil : isgap []
| gap_ws c g : wsb c = true -> isgap g -> isgap (c :: g)
| gap_comment body g : no_nl body = true -> isgap g -> isgap (c_semi :: body ++ c_nl :: g).

(* what may follow the last token: a gap, possibly ending in a comment without a line end *)
Inductive istrail : text -> Prop :=
| trail_nil : istrail []
| trail_ws c g : wsb c = true -> istrail g -> istrail (c :: g)
| trail_comment body g : no_nl body = true -> istrail g -> istrail (c_semi :: body ++ c_nl :: g)
| trail_open body : no_nl body = true -> istrail (c_semi :: body).

Lemma skip_comment_body : forall body rest line pos, no_nl body = true ->
  exists l p, skip_comment (body ++ c_nl :: rest) line pos = Some (rest, l, p).
Proof.
  induction body as [|c body IH]; intros rest line pos Hb; simpl.
  - unfold advance. ceval. eauto.
  - simpl in Hb. apply andb_true_iff in Hb as [Hc Hb]. apply negb_true_iff in Hc.
    destruct (advance c line pos) as [l1 p1]. rewrite Hc. apply IH. assumption.
Qed.

Lemma skip_comment_open : forall body line pos, no_nl body = true -> skip_comment body line pos = None.
Proof.
  induction body as [|c body IH]; intros line pos Hb; simpl; [reflexivity|].
  simpl in Hb. apply andb_true_iff in Hb as [Hc Hb]. apply negb_true_iff in Hc.
  destruct (advance c line pos) as [l1 p1]. rewrite Hc. apply IH. assumption.
Qed.

Lemma nt_comment body cs t rest : no_nl body = true ->
  nt cs t rest -> nt (c_semi :: body ++ c_nl :: cs) t rest.
Proof.
  intros Hb H fuel line pos Hf. destruct fuel as [|fuel]; [lia|]. cbn [next_tok].
  unfold advance at 1. ceval.
  destruct (skip_comment_body body cs line (N.succ pos) Hb) as (l & p & E). rewrite E.
  apply H. simpl in Hf. rewrite app_length in Hf. simpl in Hf. lia.
Qed.

Lemma nt_gap g : isgap g -> forall cs t rest, nt cs t rest -> nt (g ++ cs) t rest.
Proof.
  induction 1 as [|c g Hc _ IH|body g Hb _ IH]; intros cs t rest H; simpl.
  - exact H.
  - apply nt_ws; [exact Hc|]. apply IH. exact H.
  - rewrite <- app_assoc. simpl. apply nt_comment; [exact Hb|]. apply IH. exact H.
Qed.

Lemma trail_end g : istrail g ->
  forall fuel line pos, List.length g < fuel -> next_tok F fuel g line pos = Ok None.
Proof.
  induction 1 as [|c g Hc _ IH|body g Hb _ IH|body Hb]; intros fuel line pos Hf;
    (destruct fuel as [|fuel]; [lia|]); cbn [next_tok].
  - reflexivity.
  - destruct (advance c line pos) as [l1 p1]. unfold wsb in Hc. rewrite Hc. apply IH. simpl in Hf. lia.
  - unfold advance at 1. ceval.
    destruct (skip_comment_body body g line (N.succ pos) Hb) as (l & p & E). rewrite E.
    apply IH. simpl in Hf. rewrite app_length in Hf. simpl in Hf. lia.
  - unfold advance at 1. ceval. rewrite skip_comment_open by assumption. reflexivity.
Qed.

(* the written form of one token *)
Inductive ltok :=
| LAtom (n : text) (t : tok)       (* an identifier or number, read as t *)
| LStr (s : text)
| LOpen | LClose | LQuote | LBtick | LDot | LComma | LSplice.

Definition ltext (k : ltok) : text :=
  match k with
  | LAtom n _ => n
  | LStr s => c_dq :: escape_string s ++ [c_dq]
  | LOpen => [c_lp] | LClose => [c_rp] | LQuote => [c_quote] | LBtick => [c_btick]
  | LDot => [c_dot] | LComma => [c_comma] | LSplice => [c_comma; c_at]
  end.

Definition ltoken (k : ltok) : tok :=
  match k with
  | LAtom _ t => t | LStr s => TStr s
  | LOpen => TOpen | LClose => TClose | LQuote => TQuote | LBtick => TBacktick
  | LDot => TDot | LComma => TComma | LSplice => TSplice
  end.

Fixpoint render (items : list (text * ltok)) (trail : text) : text :=
  match items with
  | [] => trail
  | (g, k) :: r => g ++ ltext k ++ render r trail
  end.

(* gaps are gaps; an identifier or number is followed by white space, a closing     *)
(* parenthesis or the end of the text; a comma is followed by something other than @ *)
Fixpoint wfl (items : list (text * ltok)) (trail : text) : Prop :=
  match items with
  | [] => istrail trail
  | (g, k) :: r =>
      isgap g /\ wfl r trail /\
      match k with
      | LAtom n t => atom_ok n t /\ term (render r trail)
      | LComma => exists c rest, render r trail = c :: rest /\ c <> c_at
      | _ => True
      end
  end.

Inductive steps_to (e : text) : text -> list tok -> Prop :=
| st_nil : steps_to e e []
| st_cons cs t cs' ts : nt cs t cs' -> steps_to e cs' ts -> steps_to e cs (t :: ts).

Lemma layout_steps : forall items trail, wfl items trail ->
  steps_to trail (render items trail) (map (fun it => ltoken (snd it)) items).
Proof.
  induction items as [|[g k] r IH]; intros trail H; simpl in *.
  - constructor.
  - destruct H as (Hg & Hr & Hk). econstructor; [|apply IH; exact Hr].
    apply nt_gap; [exact Hg|].
    destruct k; simpl.
    + destruct Hk as [(c & n' & -> & Ho & Hn & <-) Ht]. apply nt_atom; assumption.
    + rewrite <- app_assoc. apply nt_str.
    + apply nt_open.
    + apply nt_close.
    + apply nt_quote.
    + apply nt_btick.
    + apply nt_dot.
    + destruct Hk as (c & rest & -> & Hc). apply nt_comma. exact Hc.
    + apply nt_splice.
Qed.

Lemma steps_to_tokenize e : (forall fuel line pos, List.length e < fuel -> next_tok F fuel e line pos = Ok None) ->
  forall cs ts, steps_to e cs ts ->
  forall fuel line pos, List.length cs < fuel -> (1 <= pos)%N ->
  exists tsp, tokenize F fuel cs line pos = Ok tsp /\ map fst tsp = ts.
Proof.
  intros He cs ts H.
  induction H as [|cs t cs' ts Hnt Hs IH]; intros fuel line pos Hf Hp.
  - destruct fuel; [lia|]. exists []. cbn [tokenize]. rewrite He by lia. split; reflexivity.
  - destruct fuel; [lia|]. cbn [tokenize].
    destruct (Hnt (S (List.length cs)) line pos ltac:(lia)) as (sp & l & p & E).
    destruct (next_tok_good F (S (List.length cs)) cs line pos ltac:(lia) Hp) as [G E0].
    rewrite E in G. simpl in G. destruct G as [G1 G2]. rewrite E.
    assert (Hne : cs <> []) by (intros ->; specialize (E0 eq_refl); congruence).
    assert (Hlt : List.length cs' < List.length cs) by (destruct cs; [congruence|simpl in *; lia]).
    destruct (IH fuel l p ltac:(lia) G2) as (tsp & Et & Em). rewrite Et.
    exists ((t, sp) :: tsp). split; [reflexivity|]. simpl. f_equal. assumption.
Qed.

(* C09: a text that writes the tokens of a value in any layout reads as that value *)
Theorem layout_read fl : t_interned fl = false -> nil_interned fl = false ->
  forall v items trail, rdata v -> wfl items trail ->
  map (fun it => ltoken (snd it)) items = toks v ->
  exists a, read_ax F fl (render items trail) = Ok [a] /\ strip a = v.
Proof.
  intros Ht Hn v items trail Hv Hw Hm.
  pose proof (layout_steps items trail Hw) as Hs. rewrite Hm in Hs. unfold read_ax.
  assert (Htr : istrail trail).
  { clear -Hw. induction items as [|[g k] r IH]; simpl in Hw; [exact Hw|]. apply IH. apply Hw. }
  destruct (steps_to_tokenize trail (trail_end trail Htr) _ _ Hs
              (S (List.length (render items trail))) 1%N 1%N ltac:(lia) ltac:(lia)) as (tsp & Et & Em).
  rewrite Et.
  destruct (parse_inverts_value fl Ht Hn v Hv (S (2 * List.length tsp)) tsp [] Em ltac:(lia))
    as (a & Ep & Es).
  rewrite app_nil_r in Ep.
  exists a. split; [|exact Es].
  cbn [parse_all]. rewrite Ep. destruct (List.length tsp) as [|n] eqn:El.
  - destruct tsp; [|discriminate]. simpl in Em. destruct (toks_nonempty v (eq_sym Em)).
  - cbn [parse_all]. reflexivity.
Qed.

End Lex.
