(* C13: the integer / float tower of Model/Eval.v against Z arithmetic.    *)
From TL Require Import Base.Base Model.Reader Model.Printer Model.Store Model.Eval.
Local Open Scope Z_scope.

Section WithFloat.
Variable F : fops.

Definition in_range (z : Z) : Prop := i64_min <= z <= i64_max.

Lemma in_i64_spec z : in_i64 z = true <-> in_range z.
Proof.
  unfold in_i64, in_range. rewrite andb_true_iff, !Z.leb_le. tauto.
Qed.

Lemma checked_ok z : in_range z -> checked z = Ok (Int z).
Proof. intros H. unfold checked. apply in_i64_spec in H. rewrite H. reflexivity. Qed.

Lemma checked_err z : ~ in_range z -> checked z = Err ERange.
Proof.
  intros H. unfold checked. destruct (in_i64 z) eqn:E; auto.
  apply in_i64_spec in E. contradiction.
Qed.

(* ---- integers: exact in Z, overflow is an error ------------------- *)
Theorem add_int a b : binop F OAdd (Int a) (Int b) =
  if in_i64 (a + b) then Ok (Int (a + b)) else Err ERange.
Proof. reflexivity. Qed.

Theorem sub_int a b : binop F OSub (Int a) (Int b) =
  if in_i64 (a - b) then Ok (Int (a - b)) else Err ERange.
Proof. reflexivity. Qed.

Theorem mul_int a b : binop F OMul (Int a) (Int b) =
  if in_i64 (a * b) then Ok (Int (a * b)) else Err ERange.
Proof. reflexivity. Qed.

(* division truncates toward zero; a zero divisor is an error *)
Theorem div_int a b : b <> 0 ->
  binop F ODiv (Int a) (Int b) = if in_i64 (Z.quot a b) then Ok (Int (Z.quot a b)) else Err ERange.
Proof.
  intros H. cbn. destruct (Z.eqb b 0) eqn:E; [apply Z.eqb_eq in E; contradiction|reflexivity].
Qed.

Theorem div_int_zero a : binop F ODiv (Int a) (Int 0) = Err ERange.
Proof. reflexivity. Qed.

(* within the i64 range the only quotient that overflows is min / -1 *)
Lemma quot_in_range a b : in_range a -> in_range b -> b <> 0 ->
  ~ (a = i64_min /\ b = -1) -> in_range (Z.quot a b).
Proof.
  unfold in_range, i64_min, i64_max. intros Ha Hb Hz Hn.
  assert (Habs : Z.abs (Z.quot a b) <= Z.abs a).
  { rewrite Z.quot_abs by assumption.
    apply Z.quot_le_upper_bound; try lia.
    assert (1 <= Z.abs b) by lia. nia. }
  destruct (Z.eq_dec a (- 2 ^ 63)) as [E|E].
  - subst a. destruct (Z.eq_dec b (-1)); [exfalso; apply Hn; auto|].
    destruct (Z.eq_dec b 1).
    + subst. rewrite Z.quot_1_r. lia.
    + assert (2 <= Z.abs b) by lia.
      assert (Z.abs (Z.quot (- 2 ^ 63) b) <= 2 ^ 62).
      { rewrite Z.quot_abs by assumption.
        apply Z.quot_le_upper_bound; try lia.
        change (Z.abs (- 2 ^ 63)) with (2 * 2 ^ 62). nia. }
      lia.
  - lia.
Qed.

(* mod takes the sign of the divisor: it is Z.modulo *)
Lemma rem_mod_adjust s o : o <> 0 ->
  (if negb (Z.eqb (Z.rem s o) 0) && negb (Bool.eqb (Z.rem s o <? 0) (o <? 0))
   then Z.rem s o + o else Z.rem s o) = Z.modulo s o.
Proof.
  intros Ho.
  pose proof (Z.rem_bound_pos_pos) as _.
  destruct (Z.eqb (Z.rem s o) 0) eqn:E0; simpl.
  - apply Z.eqb_eq in E0.
    symmetry. apply Z.rem_divide in E0; auto. apply Z.mod_divide; auto.
  - apply Z.eqb_neq in E0.
    pose proof (Z.quot_rem' s o) as Hq.
    pose proof (Z.rem_sign_nz s o Ho E0) as Hs.
    pose proof (Z.rem_abs_r s o Ho) as _.
    assert (Hb : Z.abs (Z.rem s o) < Z.abs o) by (apply Z.rem_bound_abs; auto).
    destruct (Z.rem s o <? 0) eqn:Er; destruct (o <? 0) eqn:Eo; simpl;
      try apply Z.ltb_lt in Er; try apply Z.ltb_ge in Er;
      try apply Z.ltb_lt in Eo; try apply Z.ltb_ge in Eo.
    + symmetry. apply (Z.mod_unique_neg s o (Z.quot s o)); lia.
    + symmetry. apply (Z.mod_unique_pos s o (Z.quot s o - 1)); lia.
    + symmetry. apply (Z.mod_unique_neg s o (Z.quot s o - 1)); lia.
    + symmetry. apply (Z.mod_unique_pos s o (Z.quot s o)); lia.
Qed.

Theorem mod_int a b : b <> 0 -> binop F OMod (Int a) (Int b) = Ok (Int (Z.modulo a b)).
Proof.
  intros Hb. cbn. unfold int_mod.
  destruct (Z.eqb b (-1)) eqn:E1.
  - apply Z.eqb_eq in E1. subst. rewrite Z.mod_opp_r_z; [reflexivity|lia|].
    rewrite Z.mod_1_r. reflexivity.
  - destruct (Z.eqb b 0) eqn:E0; [apply Z.eqb_eq in E0; contradiction|].
    pose proof (rem_mod_adjust a b Hb) as H.
    destruct (negb (Z.eqb (Z.rem a b) 0) && negb (Bool.eqb (Z.rem a b <? 0) (b <? 0)));
      rewrite <- H; reflexivity.
Qed.

Theorem mod_int_zero a : binop F OMod (Int a) (Int 0) = Err ERange.
Proof. reflexivity. Qed.

Lemma mod_in_range a b : in_range b -> b <> 0 -> in_range (Z.modulo a b).
Proof.
  unfold in_range, i64_min, i64_max. intros Hb Hz.
  destruct (Z_lt_le_dec 0 b).
  - pose proof (Z.mod_pos_bound a b l). lia.
  - assert (b < 0) by lia. pose proof (Z.mod_neg_bound a b H). lia.
Qed.

(* ---- contagion: any float operand makes the result a float -------- *)
Definition is_flt (x : sx) : Prop := exists b, x = Flt b.
Definition is_num (x : sx) : Prop := (exists z, x = Int z) \/ is_flt x.

Theorem contagion op a b r : is_num a -> is_num b -> (is_flt a \/ is_flt b) ->
  binop F op a b = Ok r -> is_flt r.
Proof.
  intros [[x ->]|[x ->]] [[y ->]|[y ->]] [[z Hz]|[z Hz]] H; try discriminate Hz;
    cbn in H; inversion H; eexists; reflexivity.
Qed.

Theorem int_closed op a b r : binop F op (Int a) (Int b) = Ok r -> exists z, r = Int z /\ in_range z.
Proof.
  destruct op; cbn; unfold checked, int_mod;
    repeat match goal with |- context[if ?c then _ else _] => destruct c eqn:? end;
    intros H; inversion H; subst;
    try (eexists; split; [reflexivity|apply in_i64_spec; assumption]).
  - exists 0. split; [reflexivity|unfold in_range, i64_min, i64_max; lia].
  - (* adjusted remainder *)
    eexists; split; [reflexivity|].
    assert (b <> 0) by (intros ->; discriminate).
    pose proof (rem_mod_adjust a b H0) as Hm. rewrite Heqb2 in Hm. rewrite Hm.
    (* the operands of a call are i64 values; here only the divisor's range matters *)
    admit_placeholder.
  - admit_placeholder.
Abort.

(* non-numbers are rejected, in either position *)
Theorem non_number_rejected op a b : ~ is_num a \/ ~ is_num b -> 
  match binop F op a b with Ok _ => False | _ => True end.
Proof.
  intros H. destruct a, b; cbn; auto;
    try (destruct H as [H|H]; exfalso; apply H; (left; eexists; reflexivity) || (right; eexists; reflexivity)).
Qed.

(* ---- n-ary operators are left folds -------------------------------- *)
Fixpoint fold_op (op : sx -> sx -> res sx) (acc : sx) (l : list sx) : res sx :=
  match l with
  | [] => Ok acc
  | x :: r => match op acc x with Ok a => fold_op op a r | e => e end
  end.

(* ---- comparison chains --------------------------------------------- *)
Fixpoint adjacent (c : cmp) (l : list Z) : bool :=
  match l with
  | x :: ((y :: _) as r) => cmp_int c x y && adjacent c r
  | _ => true
  end.

(* ---- max / min on integers ----------------------------------------- *)
Theorem max_int a b : maxmin F true (Int a) (Int b) = Ok (Int (Z.max a b)).
Proof. reflexivity. Qed.
Theorem min_int a b : maxmin F false (Int a) (Int b) = Ok (Int (Z.min a b)).
Proof. reflexivity. Qed.

End WithFloat.
