(* C13: the integer / float tower of Model/Eval.v against Z arithmetic.    *)
From TL Require Import Base.Base Model.Reader Model.Printer Model.Store Model.Eval.
Local Open Scope Z_scope.

Section WithFloat.
Variable F : fops.

Definition in_range (z : Z) : Prop := i64_min <= z <= i64_max.

Lemma in_i64_spec z : in_i64 z = true <-> in_range z.
Proof.
  unfold in_i64, in_range. rewrite andb_true_iff, !Z.leb_le. tauto.
Qed.

Lemma checked_ok z : in_range z -> checked z = Ok (Int z).
Proof. intros H. unfold checked. apply in_i64_spec in H. rewrite H. reflexivity. Qed.

Lemma checked_err z : ~ in_range z -> checked z = Err ERange.
Proof.
  intros H. unfold checked. destruct (in_i64 z) eqn:E; auto.
  apply in_i64_spec in E. contradiction.
Qed.

(* ---- integers: exact in Z, overflow is an error ------------------- *)
Theorem add_int a b : binop F OAdd (Int a) (Int b) =
  if in_i64 (a + b) then Ok (Int (a + b)) else Err ERange.
Proof. reflexivity. Qed.

Theorem sub_int a b : binop F OSub (Int a) (Int b) =
  if in_i64 (a - b) then Ok (Int (a - b)) else Err ERange.
Proof. reflexivity. Qed.

Theorem mul_int a b : binop F OMul (Int a) (Int b) =
  if in_i64 (a * b) then Ok (Int (a * b)) else Err ERange.
Proof. reflexivity. Qed.

(* division truncates toward zero; a zero divisor is an error *)
Theorem div_int a b : b <> 0 ->
  binop F ODiv (Int a) (Int b) = if in_i64 (Z.quot a b) then Ok (Int (Z.quot a b)) else Err ERange.
Proof.
  intros H. cbn. destruct (Z.eqb b 0) eqn:E; [apply Z.eqb_eq in E; contradiction|reflexivity].
Qed.

Theorem div_int_zero a : binop F ODiv (Int a) (Int 0) = Err ERange.
Proof. reflexivity. Qed.

(* within the i64 range the only quotient that overflows is min / -1 *)
Lemma quot_in_range a b : in_range a -> in_range b -> b <> 0 ->
  ~ (a = i64_min /\ b = -1) -> in_range (Z.quot a b).
Proof.
  unfold in_range, i64_min, i64_max. intros Ha Hb Hz Hn.
  assert (Habs : Z.abs (Z.quot a b) <= Z.abs a).
  { rewrite <- Z.quot_abs by assumption.
    apply Z.quot_le_upper_bound; try lia.
    assert (1 <= Z.abs b) by lia. nia. }
  destruct (Z.eq_dec a (- 2 ^ 63)) as [E|E].
  - subst a. destruct (Z.eq_dec b (-1)); [exfalso; apply Hn; auto|].
    destruct (Z.eq_dec b 1).
    + subst. rewrite Z.quot_1_r. lia.
    + assert (2 <= Z.abs b) by lia.
      assert (Z.abs (Z.quot (- 2 ^ 63) b) <= 2 ^ 62).
      { rewrite <- Z.quot_abs by assumption.
        apply Z.quot_le_upper_bound; try lia. }
      lia.
  - lia.
Qed.

(* mod takes the sign of the divisor: it is Z.modulo *)
Lemma rem_mod_adjust s o : o <> 0 ->
  (if negb (Z.eqb (Z.rem s o) 0) && negb (Bool.eqb (Z.rem s o <? 0) (o <? 0))
   then Z.rem s o + o else Z.rem s o) = Z.modulo s o.
Proof.
  intros Ho.
  pose proof (Z.rem_bound_pos_pos) as _.
  destruct (Z.eqb (Z.rem s o) 0) eqn:E0; simpl.
  - apply Z.eqb_eq in E0. rewrite E0.
    symmetry. apply Z.mod_divide; auto. apply Z.rem_divide; auto.
  - apply Z.eqb_neq in E0.
    pose proof (Z.quot_rem' s o) as Hq.
    pose proof (Z.rem_sign_nz s o Ho E0) as Hs.
    pose proof (Z.rem_abs_r s o Ho) as _.
    assert (Hb : Z.abs (Z.rem s o) < Z.abs o) by (apply Z.rem_bound_abs; auto).
    destruct (Z.rem s o <? 0) eqn:Er; destruct (o <? 0) eqn:Eo; simpl;
      try apply Z.ltb_lt in Er; try apply Z.ltb_ge in Er;
      try apply Z.ltb_lt in Eo; try apply Z.ltb_ge in Eo.
    + apply (Z.mod_unique_neg s o (Z.quot s o)); lia.
    + apply (Z.mod_unique_pos s o (Z.quot s o - 1)); lia.
    + apply (Z.mod_unique_neg s o (Z.quot s o - 1)); lia.
    + apply (Z.mod_unique_pos s o (Z.quot s o)); lia.
Qed.

Theorem mod_int a b : b <> 0 -> binop F OMod (Int a) (Int b) = Ok (Int (Z.modulo a b)).
Proof.
  intros Hb. cbn. unfold int_mod.
  destruct (Z.eqb b (-1)) eqn:E1.
  - apply Z.eqb_eq in E1. subst.
    assert (a mod -1 = 0) as -> by (pose proof (Z.mod_neg_bound a (-1)); lia). reflexivity.
  - destruct (Z.eqb b 0) eqn:E0; [apply Z.eqb_eq in E0; contradiction|].
    pose proof (rem_mod_adjust a b Hb) as H.
    destruct (negb (Z.eqb (Z.rem a b) 0) && negb (Bool.eqb (Z.rem a b <? 0) (b <? 0)));
      rewrite <- H; reflexivity.
Qed.

Theorem mod_int_zero a : binop F OMod (Int a) (Int 0) = Err ERange.
Proof. reflexivity. Qed.

Lemma mod_in_range a b : in_range b -> b <> 0 -> in_range (Z.modulo a b).
Proof.
  unfold in_range, i64_min, i64_max. intros Hb Hz.
  destruct (Z_lt_le_dec 0 b).
  - pose proof (Z.mod_pos_bound a b l). lia.
  - assert (b < 0) by lia. pose proof (Z.mod_neg_bound a b H). lia.
Qed.

(* ---- contagion: any float operand makes the result a float -------- *)
Definition is_flt (x : sx) : Prop := exists b, x = Flt b.
Definition is_num (x : sx) : Prop := (exists z, x = Int z) \/ is_flt x.

Theorem contagion op a b r : is_num a -> is_num b -> (is_flt a \/ is_flt b) ->
  binop F op a b = Ok r -> is_flt r.
Proof.
  intros [[x ->]|[x ->]] [[y ->]|[y ->]] [[z Hz]|[z Hz]] H; try discriminate Hz;
    cbn in H; inversion H; eexists; reflexivity.
Qed.

Theorem int_closed op a b r : in_range b ->
  binop F op (Int a) (Int b) = Ok r -> exists z, r = Int z /\ in_range z.
Proof.
  intros Hb. destruct op; cbn; unfold checked.
  1-3: destruct (in_i64 _) eqn:E; intros H; inversion H; subst;
       eexists; split; [reflexivity|apply in_i64_spec; assumption].
  - destruct (Z.eqb b 0); [discriminate|].
    destruct (in_i64 _) eqn:E; intros H; inversion H; subst;
      eexists; split; [reflexivity|apply in_i64_spec; assumption].
  - intros H. destruct (Z.eq_dec b 0) as [->|Hz]; [discriminate H|].
    pose proof (mod_int a b Hz) as Hm. cbn in Hm. rewrite Hm in H. inversion H; subst.
    eexists; split; [reflexivity|apply mod_in_range; assumption].
Qed.

(* non-numbers are rejected, in either position *)
Theorem non_number_rejected op a b : ~ is_num a \/ ~ is_num b -> 
  match binop F op a b with Ok _ => False | _ => True end.
Proof.
  intros H. destruct a, b; cbn; auto;
    try (destruct H as [H|H]; exfalso; apply H; (left; eexists; reflexivity) || (right; eexists; reflexivity)).
Qed.

(* ---- n-ary operators are left folds -------------------------------- *)
Fixpoint fold_op (op : sx -> sx -> res sx) (acc : sx) (l : list sx) : res sx :=
  match l with
  | [] => Ok acc
  | x :: r => match op acc x with Ok a => fold_op op a r | e => e end
  end.

(* numeric literals evaluate to themselves *)
Definition numlit (x : sx) : bool := numberp x.

Section Lits.
Variable rec : task -> M sx.
Hypothesis rec_lit : forall x s, numlit x = true -> rec (TEval x) s = (Ok x, s).

Lemma reduce_rest_lits op : forall l acc s, forallb numlit l = true ->
  reduce_rest rec op acc (of_list l Nil) s = (fold_op op acc l, s).
Proof.
  induction l as [|x l IH]; intros acc s Hl; simpl in *; [reflexivity|].
  apply andb_true_iff in Hl as [Hx Hl]. unfold bind, ev. rewrite rec_lit by assumption.
  unfold lift. destruct (op acc x); try reflexivity. apply IH; assumption.
Qed.

Lemma reduce_with_lits op a l s : forallb numlit (a :: l) = true ->
  reduce_with rec op (of_list (a :: l) Nil) s = (fold_op op a l, s).
Proof.
  intros Hl. simpl in Hl. apply andb_true_iff in Hl as [Ha Hl].
  unfold reduce_with. simpl. unfold bind, ev. rewrite rec_lit by assumption.
  unfold numlit in Ha. rewrite Ha. rewrite andb_false_r.
  apply reduce_rest_lits; assumption.
Qed.

(* a comparison chain over numeric literals holds exactly when every      *)
(* adjacent pair does                                                      *)
Fixpoint adjacent (c : cmp) (l : list sx) : res bool :=
  match l with
  | x :: ((y :: _) as r) =>
      match compare2 F c x y, adjacent c r with
      | Ok b1, Ok b2 => Ok (b1 && b2)
      | Err e, _ | _, Err e => Err e
      | _, _ => Fuel
      end
  | _ => Ok true
  end.

Lemma compare2_num c x y : numlit x = true -> numlit y = true ->
  exists b, compare2 F c x y = Ok b.
Proof. destruct x, y; simpl; try discriminate; eauto. Qed.

Lemma adjacent_num c : forall l, forallb numlit l = true -> exists b, adjacent c l = Ok b.
Proof.
  induction l as [|x l IH]; intros Hl; [simpl; eauto|].
  simpl in Hl. apply andb_true_iff in Hl as [Hx Hl].
  destruct l as [|y l]; [simpl; eauto|].
  destruct (IH Hl) as [b2 E2]. simpl in Hl. apply andb_true_iff in Hl as [Hy _].
  destruct (compare2_num c x y Hx Hy) as [b1 E1].
  cbn [adjacent]. rewrite E1. cbn [adjacent] in E2. rewrite E2. eauto.
Qed.

Lemma compare_chain_lits c : forall l p holds s, forallb numlit (p :: l) = true ->
  exists b, adjacent c (p :: l) = Ok b /\
  compare_chain F rec c l (Some p) holds s = (Ok (of_bool (holds && b)), s).
Proof.
  induction l as [|x l IH]; intros p holds s Hl.
  - exists true. simpl. rewrite andb_true_r. auto.
  - pose proof Hl as Hl0. simpl in Hl. apply andb_true_iff in Hl as [Hp Hl].
    pose proof Hl as Hl'. simpl in Hl'. apply andb_true_iff in Hl' as [Hx _].
    destruct (compare2_num c p x Hp Hx) as [b1 E1].
    destruct (IH x (holds && b1) s Hl) as (b2 & E2 & E3).
    exists (b1 && b2). split.
    + cbn [adjacent]. rewrite E1. cbn [adjacent] in E2. rewrite E2. reflexivity.
    + cbn [compare_chain]. unfold bind, ev. rewrite rec_lit by assumption.
      unfold numlit in Hx. rewrite Hx. cbn [negb].
      destruct holds.
      * unfold lift. rewrite E1. unfold ret. simpl in E3. rewrite E3.
        rewrite andb_assoc. reflexivity.
      * unfold ret. destruct (IH x false s Hl) as (b2' & E2' & E3'). rewrite E3'. reflexivity.
Qed.

End Lits.

(* ---- max / min on integers ----------------------------------------- *)
Theorem max_int a b : maxmin F true (Int a) (Int b) = Ok (Int (Z.max a b)).
Proof. reflexivity. Qed.
Theorem min_int a b : maxmin F false (Int a) (Int b) = Ok (Int (Z.min a b)).
Proof. reflexivity. Qed.

(* the n-ary maximum of integers is an argument and bounds every argument *)
Lemma fold_max_int : forall l a, exists m,
  fold_op (maxmin F true) (Int a) (map Int l) = Ok (Int m) /\
  In m (a :: l) /\ Forall (fun x => x <= m) (a :: l).
Proof.
  induction l as [|x l IH]; intros a; simpl.
  - exists a. split; [reflexivity|]. split; [auto|]. constructor; [lia|constructor].
  - destruct (IH (Z.max a x)) as (m & E & Hin & Hall). exists m. split; [exact E|].
    inversion Hall as [|? ? Hm Hl]; subst. split.
    + destruct Hin as [Hin|Hin]; [|auto]. destruct (Z.max_spec a x) as [[_ Em]|[_ Em]]; rewrite Em in Hin; auto.
    + constructor; [lia|]. constructor; [lia|assumption].
Qed.
Lemma fold_min_int : forall l a, exists m,
  fold_op (maxmin F false) (Int a) (map Int l) = Ok (Int m) /\
  In m (a :: l) /\ Forall (fun x => m <= x) (a :: l).
Proof.
  induction l as [|x l IH]; intros a; simpl.
  - exists a. split; [reflexivity|]. split; [auto|]. constructor; [lia|constructor].
  - destruct (IH (Z.min a x)) as (m & E & Hin & Hall). exists m. split; [exact E|].
    inversion Hall as [|? ? Hm Hl]; subst. split.
    + destruct Hin as [Hin|Hin]; [|auto]. destruct (Z.min_spec a x) as [[_ Em]|[_ Em]]; rewrite Em in Hin; auto.
    + constructor; [lia|]. constructor; [lia|assumption].
Qed.

End WithFloat.
