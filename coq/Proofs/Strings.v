(* C15: concat, format, the string orderings of Model/Eval.v.               *)
From TL Require Import Base.Base Model.Reader Model.Printer Model.Store Model.Eval Model.Init.
From TL Require Import Proofs.Decimal.
Local Open Scope N_scope.
Local Open Scope list_scope.

(* ---- concat is the monoid of texts ---------------------------------- *)
Lemma concat_l_spec : forall ss acc, concat_l (map Str ss) acc = Ok (acc ++ List.concat ss).
Proof.
  induction ss as [|s ss IH]; intros acc; simpl.
  - rewrite app_nil_r. reflexivity.
  - rewrite IH, app_assoc. reflexivity.
Qed.

Definition concat2 (a b : text) : res text := concat_l [Str a; Str b] [].
Lemma concat2_app a b : concat2 a b = Ok (a ++ b).
Proof. unfold concat2. change [Str a; Str b] with (map Str [a; b]). rewrite concat_l_spec. simpl. rewrite app_nil_r. reflexivity. Qed.

Theorem concat_assoc a b c :
  (match concat2 a b with Ok ab => concat2 ab c | e => e end) =
  (match concat2 b c with Ok bc => concat2 a bc | e => e end).
Proof. rewrite (concat2_app a b), (concat2_app b c), !concat2_app, app_assoc. reflexivity. Qed.
Theorem concat_empty_l a : concat2 [] a = Ok a.
Proof. rewrite concat2_app. reflexivity. Qed.
Theorem concat_empty_r a : concat2 a [] = Ok a.
Proof. rewrite concat2_app, app_nil_r. reflexivity. Qed.
Theorem concat_rejects_non_string : forall l acc x l2, stringp x = false ->
  concat_l (map Str l ++ x :: l2) acc = Err EType.
Proof.
  induction l as [|s l IH]; intros acc x l2 Hx; simpl.
  - destruct x; try reflexivity. discriminate.
  - apply IH. assumption.
Qed.

(* ---- the string orderings -------------------------------------------- *)
Theorem text_ltb_irrefl a : text_ltb a a = false.
Proof. induction a as [|x a IH]; simpl; [reflexivity|]. rewrite N.ltb_irrefl. exact IH. Qed.

Theorem text_ltb_trans : forall a b c, text_ltb a b = true -> text_ltb b c = true -> text_ltb a c = true.
Proof.
  induction a as [|x a IH]; intros [|y b] [|z c] H1 H2; simpl in *; try discriminate; auto.
  destruct (N.ltb x y) eqn:Exy.
  - apply N.ltb_lt in Exy. destruct (N.ltb y z) eqn:Eyz.
    + apply N.ltb_lt in Eyz. assert (x < z) as H by lia. apply N.ltb_lt in H. rewrite H. reflexivity.
    + destruct (N.ltb z y) eqn:Ezy; [discriminate|].
      apply N.ltb_ge in Eyz. apply N.ltb_ge in Ezy. assert (y = z) by lia. subst.
      apply N.ltb_lt in Exy. rewrite Exy. reflexivity.
  - destruct (N.ltb y x) eqn:Eyx; [discriminate|].
    apply N.ltb_ge in Exy. apply N.ltb_ge in Eyx. assert (x = y) by lia. subst.
    destruct (N.ltb y z); [reflexivity|]. destruct (N.ltb z y); [discriminate|].
    eapply IH; eassumption.
Qed.

(* exactly one of a < b, a = b, b < a *)
Theorem text_trichotomy : forall a b,
  (text_ltb a b = true /\ text_eqb a b = false /\ text_ltb b a = false) \/
  (text_ltb a b = false /\ text_eqb a b = true /\ text_ltb b a = false) \/
  (text_ltb a b = false /\ text_eqb a b = false /\ text_ltb b a = true).
Proof.
  induction a as [|x a IH]; intros [|y b]; simpl; auto.
  destruct (N.ltb x y) eqn:Exy.
  - apply N.ltb_lt in Exy. assert (N.ltb y x = false) as -> by (apply N.ltb_ge; lia).
    assert (N.eqb x y = false) as -> by (apply N.eqb_neq; lia). auto.
  - destruct (N.ltb y x) eqn:Eyx.
    + apply N.ltb_lt in Eyx. assert (N.eqb x y = false) as -> by (apply N.eqb_neq; lia). auto.
    + apply N.ltb_ge in Exy. apply N.ltb_ge in Eyx. assert (x = y) by lia. subst.
      rewrite N.eqb_refl. simpl. apply IH.
Qed.

Theorem text_eqb_iff a b : text_eqb a b = true <-> a = b.
Proof. apply text_eqb_eq. Qed.

(* ---- format ----------------------------------------------------------- *)
Inductive dir :=
| DLit (c : cp)          (* an ordinary character, or %% *)
| DArg (d : cp)          (* % followed by a directive letter *)
| DEnd.                  (* a lone % at the end of the string: dropped *)

Fixpoint directives (inp : text) : list dir :=
  match inp with
  | [] => []
  | c :: r =>
      if negb (N.eqb c c_pct) then DLit c :: directives r
      else match r with
           | [] => [DEnd]
           | d :: r2 => (if N.eqb d c_pct then DLit d else DArg d) :: directives r2
           end
  end.

Section Fmt.
Variable F : fops.

(* what one directive letter does with its argument *)
Definition render_arg (d : cp) (a : sx) : res text :=
  if N.eqb d 115 then Ok (princ F a)
  else if N.eqb d 83 then Ok (print F a)
  else if N.eqb d 100 then
    match try_int F a with Ok z => Ok (print_Z z) | Err e => Err e | Panic n => Panic n | Fuel => Fuel end
  else if N.eqb d 102 then
    match try_float F a with Ok b => Ok (f_to_dec F b) | Err e => Err e | Panic n => Panic n | Fuel => Fuel end
  else Err ESyntax.

Fixpoint render (ds : list dir) (args : list sx) (acc : text) : res text :=
  match ds with
  | [] => Ok acc
  | DLit c :: r => render r args (acc ++ [c])
  | DEnd :: _ => Ok acc
  | DArg d :: r =>
      match args with
      | [] => Err EMissing
      | a :: args' =>
          match render_arg d a with
          | Ok t => render r args' (acc ++ t)
          | e => e
          end
      end
  end.

Theorem format_is_render : forall inp args acc,
  format_loop F inp args acc = render (directives inp) args acc.
Proof.
  fix IH 1. intros inp args acc. destruct inp as [|c r]; [reflexivity|].
  simpl. destruct (negb (N.eqb c c_pct)) eqn:Ec; [simpl; apply IH|].
  destruct r as [|d r2]; [reflexivity|].
  destruct (N.eqb d c_pct) eqn:Ed; [simpl; apply IH|].
  simpl. destruct args as [|a args']; [reflexivity|].
  unfold render_arg.
  destruct (N.eqb d 115); [apply IH|].
  destruct (N.eqb d 83); [apply IH|].
  destruct (N.eqb d 100).
  { destruct (try_int F a); try reflexivity. apply IH. }
  destruct (N.eqb d 102).
  { destruct (try_float F a); try reflexivity. apply IH. }
  reflexivity.
Qed.

Definition n_args (ds : list dir) : nat :=
  List.length (filter (fun d => match d with DArg _ => true | _ => false end) ds).

(* a format with no lone trailing % and enough arguments of the right type *)
(* consumes exactly one argument per directive, in order: surplus ignored  *)
Theorem render_surplus_ignored : forall ds args extra acc out,
  render ds args acc = Ok out -> render ds (args ++ extra) acc = Ok out.
Proof.
  induction ds as [|d ds IH]; intros args extra acc out H; simpl in *; [assumption|].
  destruct d; auto.
  destruct args as [|a args']; [discriminate|]. simpl.
  destruct (render_arg d a); try discriminate. apply IH. assumption.
Qed.

Theorem render_missing : forall d r acc, render (DArg d :: r) [] acc = Err EMissing.
Proof. reflexivity. Qed.

Theorem render_unknown d a r args acc :
  N.eqb d 115 = false -> N.eqb d 83 = false -> N.eqb d 100 = false -> N.eqb d 102 = false ->
  render (DArg d :: r) (a :: args) acc = Err ESyntax.
Proof. intros H1 H2 H3 H4. simpl. unfold render_arg. rewrite H1, H2, H3, H4. reflexivity. Qed.

(* arguments are consumed in order: the output is the concatenation *)
Theorem render_step_lit c r args acc : render (DLit c :: r) args acc = render r args (acc ++ [c]).
Proof. reflexivity. Qed.
Theorem render_step_arg d r a args acc t : render_arg d a = Ok t ->
  render (DArg d :: r) (a :: args) acc = render r args (acc ++ t).
Proof. intros H. simpl. rewrite H. reflexivity. Qed.

End Fmt.

(* ---- gensym ------------------------------------------------------------ *)
Definition gensym_name (prefix : text) (count : Z) : text := prefix ++ print_Z count.

Theorem gensym_names_distinct p c1 c2 : c1 <> c2 -> gensym_name p c1 <> gensym_name p c2.
Proof.
  intros Hc H. unfold gensym_name in H. apply app_inv_head in H. apply print_Z_inj in H. contradiction.
Qed.

(* one call of (gensym): the name is made from the counter, the counter is *)
(* incremented, the symbol is uninterned with a fresh serial                *)
Definition counter_key : key := key_of_name (s2t "gensym-counter").

Theorem gensym_step F rec load s c rest :
  bitems (sget s counter_key) = Int c :: rest -> in_i64 (c + 1)%Z = true ->
  exists s', apply_prim F rec load PGensym Nil s
             = (Ok (USym (gensym_name (s2t "g") c) (next_id s)), s') /\
             bitems (sget s' counter_key) = Int (c + 1)%Z :: rest /\
             next_id s' = Pos.succ (next_id s).
Proof.
  intros Hb Hr. cbn [apply_prim]. unfold arg_opt, bind, ret, sym_boundp, sym_get.
  change (key_of (S_ "gensym-counter")) with (Some counter_key).
  change (keywordp (S_ "gensym-counter")) with false. cbv iota.
  unfold depth. rewrite !Hb. cbn [List.length Nat.eqb negb]. cbv beta iota. rewrite Hb. cbv beta iota. rewrite Hr.
  unfold sym_set, with_key.
  change (key_of (S_ "gensym-counter")) with (Some counter_key).
  change (is_constant (S_ "gensym-counter")) with false. cbv iota.
  unfold fresh_id. eexists. split; [reflexivity|]. split; [|reflexivity].
  cbn [next_id store]. unfold sget at 1. cbn [store sput]. rewrite PositiveMap.gss.
  unfold b_set. rewrite Hb. reflexivity.
Qed.
