(* Continuity of the evaluator in its recursive instance: a computation that *)
(* gets its answers from an instance rec1 is reproduced by the fuelled         *)
(* interpreter for every sufficiently large fuel, provided rec1's answers are. *)
(* Used to prove that the definitional semantics of Spec/CoreSem refines to     *)
(* the model (C01) and that trampolined calls equal ordinary recursion (C04).   *)
From TL Require Import Base.Base Model.Reader Model.Printer Model.Store Model.Eval.
From TL Require Import Proofs.ReaderTotal Proofs.EvalRel Proofs.Lists Proofs.Backquote.
Local Open Scope nat_scope.

Definition Cont {A} (m1 : M A) (m2 : nat -> M A) : Prop :=
  forall s r s', m1 s = (r, s') -> r <> Fuel ->
                 exists f0, forall f, f0 <= f -> m2 f s = (r, s').

Lemma Cont_const {A} (m : M A) : Cont m (fun _ => m).
Proof. intros s r s' H _. exists 0. intros f _. exact H. Qed.

Lemma Cont_ret {A} (a : A) : Cont (ret a) (fun _ => ret a).
Proof. apply Cont_const. Qed.

Lemma Cont_bind {A B} (m1 : M A) (m2 : nat -> M A) (k1 : A -> M B) (k2 : nat -> A -> M B) :
  Cont m1 m2 -> (forall a, Cont (k1 a) (fun f => k2 f a)) ->
  Cont (bind m1 k1) (fun f => bind (m2 f) (k2 f)).
Proof.
  intros Hm Hk s r s' H Hr. unfold bind in H.
  destruct (m1 s) as [r1 s1] eqn:E1.
  destruct r1 as [a|e|n|].
  - destruct (Hm _ _ _ E1) as [f1 H1]; [discriminate|].
    destruct (Hk a _ _ _ H Hr) as [f2 H2].
    exists (Nat.max f1 f2). intros f Hf. unfold bind. rewrite H1 by lia. apply H2. lia.
  - inversion H; subst. destruct (Hm _ _ _ E1) as [f1 H1]; [discriminate|].
    exists f1. intros f Hf. unfold bind. rewrite H1 by lia. reflexivity.
  - inversion H; subst. destruct (Hm _ _ _ E1) as [f1 H1]; [discriminate|].
    exists f1. intros f Hf. unfold bind. rewrite H1 by lia. reflexivity.
  - inversion H; subst. congruence.
Qed.

Lemma Cont_catch {A B} (m1 : M A) (m2 : nat -> M A) (k1 : res A -> M B) (k2 : nat -> res A -> M B) :
  Cont m1 m2 -> (forall r, r <> Fuel -> Cont (k1 r) (fun f => k2 f r)) ->
  Cont (catch m1 k1) (fun f => catch (m2 f) (k2 f)).
Proof.
  intros Hm Hk s r s' H Hr. unfold catch in H.
  destruct (m1 s) as [r1 s1] eqn:E1.
  assert (Hr1 : r1 <> Fuel) by (intros ->; inversion H; subst; congruence).
  destruct (Hm _ _ _ E1 Hr1) as [f1 H1].
  assert (H' : k1 r1 s1 = (r, s')) by (destruct r1; auto; congruence).
  destruct (Hk r1 Hr1 _ _ _ H' Hr) as [f2 H2].
  exists (Nat.max f1 f2). intros f Hf. unfold catch. rewrite H1 by lia.
  rewrite <- (H2 f) by lia. destruct r1; auto; congruence.
Qed.

Lemma Cont_shift {A} k (m1 : M A) (m2 : nat -> M A) :
  Cont m1 m2 -> Cont m1 (fun f => m2 (f - k)).
Proof.
  intros Hm s r s' H Hr. destruct (Hm _ _ _ H Hr) as [f0 H0].
  exists (f0 + k). intros f Hf. apply H0. lia.
Qed.

Lemma Cont_ext {A} (m1 : M A) (m2 m2' : nat -> M A) f0 :
  (forall f s, f0 <= f -> m2 f s = m2' f s) -> Cont m1 m2 -> Cont m1 m2'.
Proof.
  intros He Hm s r s' H Hr. destruct (Hm _ _ _ H Hr) as [f1 H1].
  exists (Nat.max f0 f1). intros f Hf. rewrite <- He by lia. apply H1. lia.
Qed.

Lemma Cont_left {A} (m1 m1' : M A) (m2 : nat -> M A) :
  (forall s, m1' s = m1 s) -> Cont m1 m2 -> Cont m1' m2.
Proof. intros He Hm s r s' H Hr. rewrite He in H. eapply Hm; eassumption. Qed.

(* ------------------------------------------------------------------ *)
(* The helpers of the evaluator are continuous                          *)

Section ContStep.
Variable F : fops.
Variable rec1 : task -> M sx.
Variable recm : nat -> task -> M sx.
Variable load1 : text -> M sx.
Variable loadm : nat -> text -> M sx.
Hypothesis Hrec : forall t, Cont (rec1 t) (fun f => recm f t).
Hypothesis Hload : forall t, Cont (load1 t) (fun f => loadm f t).

Ltac c0 :=
  repeat first
    [ match goal with
      | |- Cont (ret _) _ => apply Cont_const
      | |- Cont (fail _) _ => apply Cont_const
      | |- Cont (lift _) _ => apply Cont_const
      | |- Cont (panic _) _ => apply Cont_const
      | |- Cont (bind _ _) (fun f => bind _ _) => apply Cont_bind; [ | intros ? ]
      | |- Cont (catch _ _) (fun f => catch _ _) => apply Cont_catch; [ | intros ? ? ]
      | |- Cont (match ?x with _ => _ end) _ => tryif has_fix then fail else destruct x
      | |- Cont (if ?x then _ else _) _ => destruct x
      end
    | solve [auto with c0]
    | solve [apply Cont_const] ].

Lemma ev_C x : Cont (ev rec1 x) (fun f => ev (recm f) x).
Proof. apply Hrec. Qed.
Lemma call_C e fn a : Cont (call rec1 e fn a) (fun f => call (recm f) e fn a).
Proof. apply Hrec. Qed.
Lemma expand_C x : Cont (expand rec1 x) (fun f => expand (recm f) x).
Proof. apply Hrec. Qed.
Lemma rec_C t : Cont (rec1 t) (fun f => recm f t).
Proof. apply Hrec. Qed.
Hint Resolve ev_C call_C expand_C rec_C : c0.
Hint Extern 1 (Cont (load1 _) _) => apply Hload : c0.

Lemma eval_progn_l_C : forall l last,
  Cont (eval_progn_l rec1 l last) (fun f => eval_progn_l (recm f) l last).
Proof. induction l as [|x l IH]; intros; simpl; c0. Qed.
Hint Resolve eval_progn_l_C : c0.
Lemma eval_progn_C b : Cont (eval_progn rec1 b) (fun f => eval_progn (recm f) b).
Proof. unfold eval_progn. c0. Qed.
Hint Resolve eval_progn_C : c0.
Lemma eval_each_C : forall l, Cont (eval_each rec1 l) (fun f => eval_each (recm f) l).
Proof. induction l as [|x l IH]; simpl; c0. Qed.
Hint Resolve eval_each_C : c0.
Lemma arg_req_C e a : Cont (arg_req rec1 e a) (fun f => arg_req (recm f) e a).
Proof. unfold arg_req. c0. Qed.
Lemma arg_opt_C e a : Cont (arg_opt rec1 e a) (fun f => arg_opt (recm f) e a).
Proof. unfold arg_opt. c0. Qed.
Lemma arg_rest_C e a : Cont (arg_rest rec1 e a) (fun f => arg_rest (recm f) e a).
Proof. unfold arg_rest. c0. Qed.
Hint Resolve arg_req_C arg_opt_C arg_rest_C : c0.
Lemma zip_args_C e : forall ps args,
  Cont (zip_args rec1 e ps args) (fun f => zip_args (recm f) e ps args).
Proof. induction ps as [|p ps IH]; intros args; simpl; c0. Qed.
Hint Resolve zip_args_C : c0.

Lemma eval_function_C e ps body args :
  Cont (eval_function rec1 e ps body args) (fun f => eval_function (recm f) e ps body args).
Proof.
  unfold eval_function. c0.
Qed.
Hint Resolve eval_function_C : c0.

Lemma bq_spine_C n :
  (forall x, sx_size x <= n -> Cont (eval_bq rec1 x) (fun f => eval_bq (recm f) x)) ->
  forall l acc, sx_size l <= S n ->
  Cont (bq_spine rec1 l acc) (fun f => bq_spine (recm f) l acc).
Proof.
  intros IH. induction l; intros acc Hl; simpl in Hl; cbn [bq_spine]; try solve [c0].
  apply Cont_bind.
  - destruct l1; simpl in Hl; c0; apply IH; simpl; lia.
  - intros acc1. destruct l2; try solve [c0]. apply IHl2. simpl in *. lia.
Qed.

Lemma eval_bq_C : forall n x, sx_size x <= n -> Cont (eval_bq rec1 x) (fun f => eval_bq (recm f) x).
Proof.
  induction n as [|n IH]; intros x Hx; [destruct x; simpl in Hx; lia|].
  destruct x; simpl in Hx; try solve [cbn [eval_bq]; c0].
  - change (eval_bq rec1 (Cons x1 x2)) with (bq_spine rec1 (Cons x1 x2) Nil).
    eapply Cont_ext with (f0 := 0); [|apply (bq_spine_C n IH); simpl; lia].
    intros f s _. reflexivity.
  - cbn [eval_bq]. apply Cont_bind; [apply IH; lia|intros; c0].
Qed.
Hint Extern 2 (Cont (eval_bq _ _) _) => eapply eval_bq_C; apply Nat.le_refl : c0.

Lemma apply_pmac_C m args : Cont (apply_pmac rec1 m args) (fun f => apply_pmac (recm f) m args).
Proof. destruct m; cbn [apply_pmac]; c0. Qed.
Hint Resolve apply_pmac_C : c0.

Lemma merge_fuel_C pred : forall fuel l r acc,
  Cont (merge_fuel rec1 fuel pred l r acc) (fun f => merge_fuel (recm f) fuel pred l r acc).
Proof. induction fuel as [|fuel IH]; intros; simpl; c0. Qed.
Hint Resolve merge_fuel_C : c0.
Lemma msort_C pred : forall fuel l,
  Cont (msort rec1 fuel pred l) (fun f => msort (recm f) fuel pred l).
Proof. induction fuel as [|fuel IH]; intros; simpl; c0. Qed.
Hint Resolve msort_C : c0.

Lemma assoc_find_C (t1 : sx -> M bool) (t2 : nat -> sx -> M bool) :
  (forall k, Cont (t1 k) (fun f => t2 f k)) ->
  forall al, Cont (assoc_find t1 al) (fun f => assoc_find (t2 f) al).
Proof. intros Ht. induction al; simpl; try solve [c0]. Qed.
Lemma assoc_C k al tf : Cont (assoc F rec1 k al tf) (fun f => assoc F (recm f) k al tf).
Proof.
  unfold assoc. c0.
  apply (assoc_find_C (fun k0 => bind (call rec1 false a (of_list [k0; k] Nil)) (fun v => ret (truthy v)))
                      (fun f k0 => bind (call (recm f) false a (of_list [k0; k] Nil)) (fun v => ret (truthy v)))).
  intros. c0.
Qed.
Hint Resolve assoc_C : c0.

Lemma reduce_rest_C op : forall rest acc,
  Cont (reduce_rest rec1 op acc rest) (fun f => reduce_rest (recm f) op acc rest).
Proof. induction rest; intros acc; simpl; c0. Qed.
Hint Resolve reduce_rest_C : c0.
Lemma reduce_with_C op args : Cont (reduce_with rec1 op args) (fun f => reduce_with (recm f) op args).
Proof. unfold reduce_with. c0. Qed.
Hint Resolve reduce_with_C : c0.
Lemma compare_chain_C c : forall l prev holds,
  Cont (compare_chain F rec1 c l prev holds) (fun f => compare_chain F (recm f) c l prev holds).
Proof. induction l as [|x l IH]; intros; simpl; c0. Qed.
Hint Resolve compare_chain_C : c0.
Lemma predicate_C args (p : sx -> M bool) :
  Cont (predicate rec1 args p) (fun f => predicate (recm f) args p).
Proof. unfold predicate. c0. Qed.
Hint Resolve predicate_C : c0.
Lemma string_cmp_C args p : Cont (string_cmp rec1 args p) (fun f => string_cmp (recm f) args p).
Proof. unfold string_cmp. c0. Qed.
Hint Resolve string_cmp_C : c0.
Lemma and_l_C : forall l last, Cont (and_l rec1 l last) (fun f => and_l (recm f) l last).
Proof. induction l as [|x l IH]; intros; simpl; c0. Qed.
Lemma or_l_C : forall l, Cont (or_l rec1 l) (fun f => or_l (recm f) l).
Proof. induction l as [|x l IH]; intros; simpl; c0. Qed.
Lemma cond_l_C : forall l, Cont (cond_l rec1 l) (fun f => cond_l (recm f) l).
Proof. induction l as [|x l IH]; intros; simpl; c0. Qed.
Lemma map_l_C fn : forall l, Cont (map_l rec1 fn l) (fun f => map_l (recm f) fn l).
Proof. induction l as [|x l IH]; intros; simpl; c0. Qed.
Lemma filter_l_C fn : forall l, Cont (filter_l rec1 fn l) (fun f => filter_l (recm f) fn l).
Proof. induction l as [|x l IH]; intros; simpl; c0. Qed.
Lemma reduce_l_C fn : forall l acc, Cont (reduce_l rec1 fn l acc) (fun f => reduce_l (recm f) fn l acc).
Proof. induction l as [|x l IH]; intros; simpl; c0. Qed.
Lemma find_l_C fn : forall l, Cont (find_l rec1 fn l) (fun f => find_l (recm f) fn l).
Proof. induction l as [|x l IH]; intros; simpl; c0. Qed.
Hint Resolve and_l_C or_l_C cond_l_C map_l_C filter_l_C reduce_l_C find_l_C : c0.

Lemma let_bind_C : forall vars bound,
  Cont (let_bind rec1 vars bound) (fun f => let_bind (recm f) vars bound).
Proof.
  induction vars as [|v vars IH]; intros bound; cbn [let_bind]; c0.
Qed.
Hint Resolve let_bind_C : c0.
Lemma do_let_C args : Cont (do_let rec1 args) (fun f => do_let (recm f) args).
Proof. unfold do_let. c0. Qed.
Hint Resolve do_let_C : c0.
Lemma dolist_loop_C var body : forall n lst,
  Cont (dolist_loop rec1 n var lst body) (fun f => dolist_loop (recm f) n var lst body).
Proof. induction n as [|n IH]; intros lst; simpl; c0. Qed.
Hint Resolve dolist_loop_C : c0.

Lemma apply_prim_C p args :
  Cont (apply_prim F rec1 load1 p args) (fun f => apply_prim F (recm f) (loadm f) p args).
Proof.
  destruct p; cbn [apply_prim].
  all: try solve [c0].
  destruct (items args) as [|a rest]; [c0|].
  apply Cont_bind; [c0|intros first]. apply Cont_bind; [c0|intros ds]. apply Cont_const.
Qed.
Hint Resolve apply_prim_C : c0.

Definition expand_spine (rec : task -> M sx) :=
  fix spine (a d : sx) (acc : list sx) {struct d} : M sx :=
    bind (expand rec a) (fun a' =>
    match d with
    | Nil => ret (of_list (acc ++ [a']) Nil)
    | Cons a2 d2 => spine a2 d2 (acc ++ [a'])
    | o => ret (of_list (acc ++ [a']) o)
    end).

Lemma expand_spine_C : forall d a acc,
  Cont (expand_spine rec1 a d acc) (fun f => expand_spine (recm f) a d acc).
Proof.
  induction d; intros a acc; cbn [expand_spine]; (apply Cont_bind; [c0|intros a']); solve [c0].
Qed.

Lemma step_C t : Cont (step F rec1 load1 t) (fun f => step F (recm f) (loadm f) t).
Proof.
  destruct t; cbn [step]; try solve [c0].
  - (* TExpand *)
    destruct x; try solve [c0].
    apply Cont_bind.
    { apply Cont_catch; [c0|]. intros r0 _. destruct r0; c0. }
    intros value. apply Cont_bind; [c0|]. intros x.
    destruct x; try solve [c0]. apply expand_spine_C.
Qed.

End ContStep.

Section ContTop.
Variable F : fops.
Variable rec1 : task -> M sx.
Variable recm : nat -> task -> M sx.
Hypothesis Hrec : forall t, Cont (rec1 t) (fun f => recm f t).

Lemma readtime_C : forall n x, ax_size x <= n ->
  Cont (readtime rec1 x) (fun f => readtime (recm f) x).
Proof.
  induction n as [|n IH]; intros x Hx; [destruct x; simpl in Hx; lia|].
  destruct x; cbn [readtime]; try solve [apply Cont_const];
    try solve [simpl in Hx; apply Cont_bind; [apply IH; lia|intros; apply Cont_const]].
  change (ax_size (AList xs tl sp)) with
    (S (axs_size xs + match tl with Some t => ax_size t | None => 0 end)) in Hx.
  apply Cont_bind.
  - assert (Hg : axs_size xs <= n) by lia. clear Hx. revert Hg.
    induction xs as [|a xs IHxs]; intros Hg; [apply Cont_const|].
    change (axs_size (a :: xs)) with (ax_size a + axs_size xs) in Hg.
    apply Cont_bind; [apply IH; lia|]. intros v.
    apply Cont_bind; [apply IHxs; lia|]. intros vs. apply Cont_const.
  - intros elems. apply Cont_bind.
    + destruct tl; [|apply Cont_const]. apply Cont_bind; [apply IH; lia|intros; apply Cont_const].
    + intros tlv. destruct (of_list elems tlv) as [| | | | | | | |hd tl2| | | | | | | | | | |];
        try apply Cont_const.
      destruct hd as [| | | | |nm| | | | | | | | | | | | | |]; try apply Cont_const.
      destruct (text_eqb nm n_defun || text_eqb nm n_defmacro); [|apply Cont_const].
      apply Cont_bind; [apply Hrec|]. intros e.
      apply Cont_bind; [apply Hrec|]. intros _. apply Cont_const.
Qed.

Lemma readtime_all_C : forall l, Cont (readtime_all rec1 l) (fun f => readtime_all (recm f) l).
Proof.
  induction l as [|a l IH]; simpl; [apply Cont_const|].
  apply Cont_bind; [eapply readtime_C; apply Nat.le_refl|]. intros v.
  apply Cont_bind; [apply IH|]. intros vs. apply Cont_const.
Qed.

Lemma parse_body_C t : Cont (parse_body F rec1 t) (fun f => parse_body F (recm f) t).
Proof.
  intros s r s' H Hr. unfold parse_body in H.
  destruct (read_ax F (flags s) t) as [forms|e|n|] eqn:E.
  - assert (HC : Cont (bind (readtime_all rec1 forms)
                            (fun forms' => rec1 (TExpand (of_list forms' Nil))))
                      (fun f => bind (readtime_all (recm f) forms)
                                     (fun forms' => recm f (TExpand (of_list forms' Nil))))).
    { apply Cont_bind; [apply readtime_all_C|]. intros. apply Hrec. }
    destruct (HC s r s' H Hr) as [f0 H0]. exists f0. intros f Hf. cbv beta. unfold parse_body. rewrite E. apply H0. assumption.
  - exists 0. intros f _. cbv beta. unfold parse_body. rewrite E. assumption.
  - exists 0. intros f _. cbv beta. unfold parse_body. rewrite E. assumption.
  - exists 0. intros f _. cbv beta. unfold parse_body. rewrite E. assumption.
Qed.

Lemma run_body_C t : Cont (run_body F rec1 t) (fun f => run_body F (recm f) t).
Proof.
  unfold run_body. apply Cont_bind; [apply parse_body_C|]. intros out.
  apply (eval_progn_C rec1 recm Hrec).
Qed.
End ContTop.
