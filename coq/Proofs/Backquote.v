(* C07: eval_back_quote of Model/Eval.v as a left-to-right fold over the     *)
(* template, and the list it builds.                                          *)
From TL Require Import Base.Base Model.Reader Model.Printer Model.Store Model.Eval.
From TL Require Import Proofs.Lists.
Local Open Scope list_scope.

Section Bq.
Variable rec : task -> M sx.

(* one element of a template list, given the list built so far *)
Definition bq_elem (acc a : sx) : M sx :=
  match a with
  | Unq v => r <- ev rec v ;; lift (push2 acc r)
  | Splice v => r <- ev rec v ;; lift (append2 acc r)
  | _ => r <- eval_bq rec a ;; lift (push2 acc r)
  end.

(* what follows the last element: nil, an atom after a dot, or `. ,x` *)
Definition bq_tail (acc tl : sx) : M sx :=
  match tl with
  | Unq v => r <- ev rec v ;; lift (append2 acc r)
  | o => lift (append2 acc o)
  end.

Fixpoint bq_fold (es : list sx) (tl acc : sx) : M sx :=
  match es with
  | [] => ret acc
  | [e] => acc1 <- bq_elem acc e ;; bq_tail acc1 tl
  | e :: es' => acc1 <- bq_elem acc e ;; bq_fold es' tl acc1
  end.

Definition bq_spine :=
  fix spine (l : sx) (acc : sx) {struct l} : M sx :=
    match l with
    | Cons a d =>
        acc1 <- match a with
                | Unq v => r <- ev rec v ;; lift (push2 acc r)
                | Splice v => r <- ev rec v ;; lift (append2 acc r)
                | _ => r <- eval_bq rec a ;; lift (push2 acc r)
                end ;;
        match d with
        | Unq v => r <- ev rec v ;; lift (append2 acc1 r)
        | Cons _ _ => spine d acc1
        | o => lift (append2 acc1 o)
        end
    | _ => ret acc
    end.

Lemma eval_bq_cons a d : eval_bq rec (Cons a d) = bq_spine (Cons a d) Nil.
Proof. reflexivity. Qed.

(* the template list is processed element by element, left to right, each  *)
(* unquoted expression evaluated exactly once: a monadic fold                *)
Lemma bind_ext {A B} (m : M A) (k1 k2 : A -> M B) s :
  (forall a s', k1 a s' = k2 a s') -> bind m k1 s = bind m k2 s.
Proof. intros H. unfold bind. destruct (m s) as [[a|e|n|] s1]; auto. Qed.

Theorem bq_spine_is_fold : forall es tl acc s, es <> [] -> consp tl = false ->
  bq_spine (of_list es tl) acc s = bq_fold es tl acc s.
Proof.
  induction es as [|e es IH]; intros tl acc s Hne Htl; [congruence|].
  destruct es as [|e2 es].
  - cbn [of_list bq_spine bq_fold]. unfold bq_elem. apply bind_ext.
    intros a s'. destruct tl; try discriminate; reflexivity.
  - change (of_list (e :: e2 :: es) tl) with (Cons e (Cons e2 (of_list es tl))).
    cbn [bq_spine]. cbn [bq_fold]. fold bq_spine. unfold bq_elem. apply bind_ext.
    intros a s'. change (Cons e2 (of_list es tl)) with (of_list (e2 :: es) tl).
    apply IH; [discriminate|assumption].
Qed.

Theorem eval_bq_is_fold es tl s : es <> [] -> consp tl = false ->
  eval_bq rec (of_list es tl) s = bq_fold es tl Nil s.
Proof.
  intros Hne Htl. destruct es as [|e es]; [congruence|].
  change (of_list (e :: es) tl) with (Cons e (of_list es tl)). rewrite eval_bq_cons.
  change (Cons e (of_list es tl)) with (of_list (e :: es) tl). apply bq_spine_is_fold; assumption.
Qed.

(* the atom cases *)
Theorem eval_bq_unquote v : eval_bq rec (Unq v) = ev rec v.
Proof. reflexivity. Qed.
Theorem eval_bq_atom o : consp o = false ->
  (forall v, o <> Unq v) -> (forall v, o <> Splice v) -> (forall v, o <> Quote v) ->
  eval_bq rec o = ret o.
Proof.
  intros H1 H2 H3 H4. destruct o; try reflexivity; try discriminate.
  - exfalso; eapply H4; reflexivity. - exfalso; eapply H2; reflexivity. - exfalso; eapply H3; reflexivity.
Qed.
Theorem eval_bq_nested_quote v :
  eval_bq rec (Quote v) = bind (eval_bq rec v) (fun r => ret (Quote r)).
Proof. reflexivity. Qed.

(* ---- the value: the list/append construction ---------------------------- *)
Variable val : sx -> sx.          (* the value of each unquoted expression *)
Variable sub : sx -> sx.          (* the value of each nested template     *)
Hypothesis ev_pure : forall v s, rec (TEval v) s = (Ok (val v), s).

Definition is_unq (a : sx) : bool := match a with Unq _ | Splice _ => true | _ => false end.

Definition seg (a : sx) : list sx :=
  match a with
  | Unq v => [val v]
  | Splice v => items (val v)
  | _ => [sub a]
  end.

Definition tail_value (tl : sx) : sx := match tl with Unq v => val v | o => o end.

Definition wf_elem (a : sx) : Prop :=
  match a with
  | Splice v => tail_of (val v) = Nil            (* a spliced value is a proper list *)
  | Unq _ => True
  | _ => forall s, eval_bq rec a s = (Ok (sub a), s)
  end.

Lemma push2_proper xs r : push2 (of_list xs Nil) r = Ok (of_list (xs ++ [r]) Nil).
Proof.
  destruct xs as [|x xs]; [reflexivity|]. simpl.
  rewrite tail_of_list by (intros a d H; discriminate). rewrite items_proper.
  f_equal. f_equal. clear. induction xs as [|y xs IH]; simpl; [reflexivity|]. rewrite IH. reflexivity.
Qed.

Lemma proper_value v : tail_of v = Nil -> v = of_list (items v) Nil.
Proof. intros H. rewrite <- H. symmetry. apply of_list_items. Qed.

Lemma bq_elem_pure xs a s : wf_elem a ->
  bq_elem (of_list xs Nil) a s = (Ok (of_list (xs ++ seg a) Nil), s).
Proof.
  intros Hw.
  destruct a; cbn [wf_elem] in Hw; unfold bq_elem, bind, ev, lift;
    try (rewrite Hw; rewrite push2_proper; reflexivity).
  - rewrite ev_pure, push2_proper. reflexivity.
  - rewrite ev_pure. rewrite (proper_value (val a) Hw) at 1. rewrite append2_app. reflexivity.
Qed.

(* the tail: nil, or a dotted tail when something precedes it *)
Lemma bq_tail_pure xs tl s : consp tl = false -> (forall v, tl <> Splice v) ->
  (xs <> [] \/ listp (tail_value tl) = true) ->
  bq_tail (of_list xs Nil) tl s = (Ok (of_list xs (tail_value tl)), s).
Proof.
  intros Hc Hs Hx. unfold bq_tail, bind, ev, lift.
  assert (Ha : forall t, (xs <> [] \/ listp t = true) ->
               append2 (of_list xs Nil) t = Ok (of_list xs t)).
  { intros t Ht. destruct xs as [|x xs].
    - destruct Ht as [Ht|Ht]; [congruence|]. destruct t; try discriminate; reflexivity.
    - simpl. rewrite tail_of_list by (intros a d H; discriminate). rewrite items_proper.
      reflexivity. }
  destruct tl; try discriminate Hc; simpl in *; try (rewrite Ha by assumption; reflexivity).
  - rewrite ev_pure. rewrite Ha by assumption. reflexivity.
Qed.

Theorem bq_fold_value : forall es tl xs s,
  Forall wf_elem es -> consp tl = false -> (forall v, tl <> Splice v) ->
  (xs ++ List.concat (map seg es) <> [] \/ listp (tail_value tl) = true) ->
  es <> [] ->
  bq_fold es tl (of_list xs Nil) s =
  (Ok (of_list (xs ++ List.concat (map seg es)) (tail_value tl)), s).
Proof.
  induction es as [|e es IH]; intros tl xs s Hw Hc Hs Hx Hne; [congruence|].
  inversion Hw as [|? ? He Hes]; subst.
  destruct es as [|e2 es].
  - cbn [bq_fold]. unfold bind. rewrite bq_elem_pure by assumption.
    simpl in Hx |- *. rewrite app_nil_r in *. apply bq_tail_pure; assumption.
  - change (bq_fold (e :: e2 :: es) tl (of_list xs Nil) s)
      with (bind (bq_elem (of_list xs Nil) e) (fun acc1 => bq_fold (e2 :: es) tl acc1) s).
    unfold bind. rewrite bq_elem_pure by assumption.
    rewrite IH; try assumption; try discriminate.
    + simpl. rewrite <- app_assoc. reflexivity.
    + simpl in Hx |- *. rewrite <- app_assoc. assumption.
Qed.

End Bq.
