(* C17: the merge sort of Model/Eval.v (msort / merge_fuel).                 *)
From TL Require Import Base.Base Model.Reader Model.Printer Model.Store Model.Eval.
From Coq Require Import Permutation Sorted.
Local Open Scope nat_scope.
Local Open Scope list_scope.

Section Sort.
Variable rec : task -> M sx.
Variable pred : sx.

Definition pcall (y x : sx) : M sx := call rec false pred (of_list [y; x] Nil).

(* ---- permutation: for every predicate, however inconsistent ---------- *)
Lemma merge_perm : forall fuel l r acc s out s',
  merge_fuel rec fuel pred l r acc s = (Ok out, s') -> Permutation out (rev acc ++ l ++ r).
Proof.
  induction fuel as [|fuel IH]; intros l r acc s out s' H; [discriminate|].
  cbn [merge_fuel] in H. destruct l as [|x l'].
  - inversion H; subst. reflexivity.
  - destruct r as [|y r'].
    + inversion H; subst. rewrite app_nil_r. reflexivity.
    + unfold bind in H. destruct (call rec false pred (of_list [y; x] Nil) s) as [[v|e|n|] s1];
        try discriminate.
      destruct (truthy v).
      * apply IH in H. rewrite H. simpl. rewrite <- !app_assoc. simpl.
        apply Permutation_app_head. 
        change (x :: l' ++ y :: r') with ((x :: l') ++ y :: r').
        rewrite <- Permutation_middle. reflexivity.
      * apply IH in H. rewrite H. simpl. rewrite <- !app_assoc. reflexivity.
Qed.

Lemma msort_perm : forall fuel l s out s',
  msort rec fuel pred l s = (Ok out, s') -> Permutation out l.
Proof.
  induction fuel as [|fuel IH]; intros l s out s' H; [discriminate|].
  cbn [msort] in H. destruct (Nat.ltb (List.length l) 2).
  - inversion H; subst. reflexivity.
  - unfold bind in H.
    destruct (msort rec fuel pred (skipn (Nat.div (List.length l) 2) l) s) as [[sr|e|n|] s1] eqn:Er;
      try discriminate.
    destruct (msort rec fuel pred (firstn (Nat.div (List.length l) 2) l) s1) as [[sl|e|n|] s2] eqn:El;
      try discriminate.
    apply merge_perm in H. apply IH in Er. apply IH in El. simpl in H.
    rewrite H, El, Er. rewrite firstn_skipn. reflexivity.
Qed.

(* ---- totality: the sort itself never gives up and never panics -------- *)
Hypothesis pred_total : forall args s, fst (rec (TCall false pred args) s) <> Fuel.

Lemma merge_nofuel : forall fuel l r acc s,
  List.length l + List.length r < fuel -> fst (merge_fuel rec fuel pred l r acc s) <> Fuel.
Proof.
  induction fuel as [|fuel IH]; intros l r acc s Hf; [lia|].
  cbn [merge_fuel]. destruct l as [|x l']; [discriminate|].
  destruct r as [|y r']; [discriminate|].
  unfold bind. pose proof (pred_total (of_list [y; x] Nil) s) as Hp. unfold call.
  destruct (rec (TCall false pred (of_list [y; x] Nil)) s) as [[v|e|n|] s1]; simpl in *;
    try discriminate; try congruence.
  destruct (truthy v); apply IH; simpl in *; lia.
Qed.

Lemma msort_nofuel : forall fuel l s,
  List.length l < fuel -> fst (msort rec fuel pred l s) <> Fuel.
Proof.
  induction fuel as [|fuel IH]; intros l s Hf; [lia|].
  cbn [msort]. destruct (Nat.ltb (List.length l) 2) eqn:E2; [discriminate|].
  apply Nat.ltb_ge in E2.
  set (n := List.length l) in *. set (h := Nat.div n 2).
  assert (Hh : 1 <= h /\ h < n).
  { unfold h. split.
    - apply Nat.div_le_lower_bound; lia.
    - apply Nat.div_lt; lia. }
  unfold bind.
  assert (Hr : List.length (skipn h l) < fuel) by (rewrite skipn_length; fold n; lia).
  assert (Hl : List.length (firstn h l) < fuel) by (rewrite firstn_length; fold n; lia).
  pose proof (IH (skipn h l) s Hr) as Nr.
  destruct (msort rec fuel pred (skipn h l) s) as [[sr|e|k|] s1] eqn:Er; cbn [fst] in *;
    try discriminate; try congruence.
  pose proof (IH (firstn h l) s1 Hl) as Nl.
  destruct (msort rec fuel pred (firstn h l) s1) as [[sl|e|k|] s2] eqn:El; cbn [fst] in *;
    try discriminate; try congruence.
  apply merge_nofuel.
  apply msort_perm in Er. apply msort_perm in El.
  apply Permutation_length in Er. apply Permutation_length in El.
  rewrite Er, El, skipn_length, firstn_length. fold n. lia.
Qed.

Theorem sort_terminates l s : fst (msort rec (S (List.length l)) pred l s) <> Fuel.
Proof. apply msort_nofuel. lia. Qed.

End Sort.

(* ---- a failure of the sort is a failure of a predicate call ----------- *)
Section SortFail.
Variable rec : task -> M sx.
Variable pred : sx.
Variable Q : ekind -> Prop.
Hypothesis pred_errs : forall args s e s', rec (TCall false pred args) s = (Err e, s') -> Q e.
Hypothesis pred_np : forall args s n s', rec (TCall false pred args) s <> (Panic n, s').

Lemma merge_fail : forall fuel l r acc s,
  match fst (merge_fuel rec fuel pred l r acc s) with
  | Err e => Q e | Panic _ => False | _ => True end.
Proof.
  induction fuel as [|fuel IH]; intros l r acc s; [exact I|].
  cbn [merge_fuel]. destruct l as [|x l']; [exact I|]. destruct r as [|y r']; [exact I|].
  unfold bind, call.
  destruct (rec (TCall false pred (of_list [y; x] Nil)) s) as [[v|e|n|] s1] eqn:E; simpl.
  - destruct (truthy v); apply IH.
  - eapply pred_errs; eassumption.
  - eapply pred_np; eassumption.
  - exact I.
Qed.

Lemma msort_fail : forall fuel l s,
  match fst (msort rec fuel pred l s) with
  | Err e => Q e | Panic _ => False | _ => True end.
Proof.
  induction fuel as [|fuel IH]; intros l s; [exact I|].
  cbn [msort]. destruct (Nat.ltb (List.length l) 2); [exact I|].
  unfold bind.
  pose proof (IH (skipn (Nat.div (List.length l) 2) l) s) as Hr.
  destruct (msort rec fuel pred (skipn (Nat.div (List.length l) 2) l) s) as [[sr|e|k|] s1];
    cbn [fst] in *; auto.
  pose proof (IH (firstn (Nat.div (List.length l) 2) l) s1) as Hl.
  destruct (msort rec fuel pred (firstn (Nat.div (List.length l) 2) l) s1) as [[sl|e|k|] s2];
    cbn [fst] in *; auto.
  apply merge_fail.
Qed.
End SortFail.

(* ---- a pure predicate: the sort is a function of the list ------------- *)
Section SortPure.
Variable rec : task -> M sx.
Variable pred : sx.
Variable lt : sx -> sx -> bool.
Hypothesis pred_pure : forall y x s,
  rec (TCall false pred (of_list [y; x] Nil)) s = (Ok (of_bool (lt y x)), s).

Fixpoint mrg (l : list sx) : list sx -> list sx :=
  match l with
  | [] => fun r => r
  | x :: l' =>
      fix aux (r : list sx) : list sx :=
        match r with
        | [] => x :: l'
        | y :: r' => if lt y x then y :: aux r' else x :: mrg l' r
        end
  end.

Lemma mrg_nil_r l : mrg l [] = l.
Proof. destruct l; reflexivity. Qed.

Lemma truthy_of_bool b : truthy (of_bool b) = b.
Proof. destruct b; reflexivity. Qed.

Lemma merge_pure : forall fuel l r acc s,
  List.length l + List.length r < fuel ->
  merge_fuel rec fuel pred l r acc s = (Ok (rev acc ++ mrg l r), s).
Proof.
  induction fuel as [|fuel IH]; intros l r acc s Hf; [lia|].
  cbn [merge_fuel]. destruct l as [|x l']; [reflexivity|].
  destruct r as [|y r']; [reflexivity|].
  unfold bind, call. rewrite pred_pure, truthy_of_bool.
  cbn [mrg]. destruct (lt y x).
  - rewrite IH by (simpl in *; lia). simpl. rewrite <- app_assoc. reflexivity.
  - rewrite IH by (simpl in *; lia). simpl. rewrite <- app_assoc. reflexivity.
Qed.

Fixpoint psort (fuel : nat) (l : list sx) : list sx :=
  match fuel with
  | O => l
  | S fuel' =>
      let n := List.length l in
      if Nat.ltb n 2 then l
      else mrg (psort fuel' (firstn (Nat.div n 2) l)) (psort fuel' (skipn (Nat.div n 2) l))
  end.

Lemma mrg_perm : forall l r, Permutation (mrg l r) (l ++ r).
Proof.
  induction l as [|x l IHl]; intros r; [reflexivity|].
  induction r as [|y r IHr]; [rewrite app_nil_r; reflexivity|].
  cbn [mrg]. destruct (lt y x).
  - change ((x :: l) ++ y :: r) with ((x :: l) ++ y :: r).
    rewrite <- Permutation_middle. constructor. exact IHr.
  - simpl. constructor. apply IHl.
Qed.

Lemma psort_perm : forall fuel l, Permutation (psort fuel l) l.
Proof.
  induction fuel as [|fuel IH]; intros l; [reflexivity|].
  cbn [psort]. destruct (Nat.ltb (List.length l) 2); [reflexivity|].
  rewrite mrg_perm, !IH, firstn_skipn. reflexivity.
Qed.

Lemma msort_pure : forall fuel l s, List.length l < fuel ->
  msort rec fuel pred l s = (Ok (psort fuel l), s).
Proof.
  induction fuel as [|fuel IH]; intros l s Hf; [lia|].
  cbn [msort psort]. destruct (Nat.ltb (List.length l) 2) eqn:E2; [reflexivity|].
  apply Nat.ltb_ge in E2.
  set (n := List.length l) in *. set (h := Nat.div n 2).
  assert (Hh : 1 <= h /\ h < n).
  { unfold h. split; [apply Nat.div_le_lower_bound; lia|apply Nat.div_lt; lia]. }
  unfold bind.
  rewrite IH by (rewrite skipn_length; fold n; lia).
  rewrite IH by (rewrite firstn_length; fold n; lia).
  rewrite merge_pure; [reflexivity|].
  rewrite (Permutation_length (psort_perm fuel _)), (Permutation_length (psort_perm fuel _)).
  rewrite skipn_length, firstn_length. fold n. lia.
Qed.

(* ---- a strict weak ordering: sorted and stable ------------------------- *)
Hypothesis lt_asym : forall a b, lt a b = true -> lt b a = false.
Hypothesis lt_negtrans : forall a c, lt a c = true -> forall b, lt a b = true \/ lt b c = true.

(* "b is not ordered ahead of a" *)
Definition le (a b : sx) : Prop := lt b a = false.
Definition eqv (a b : sx) : bool := negb (lt a b) && negb (lt b a).

Lemma le_trans a b c : le a b -> le b c -> le a c.
Proof.
  unfold le. intros H1 H2. destruct (lt c a) eqn:E; [|reflexivity].
  destruct (lt_negtrans c a E b) as [H|H]; congruence.
Qed.

Lemma Forall_mrg P : forall l r, Forall P l -> Forall P r -> Forall P (mrg l r).
Proof.
  intros l r Hl Hr. eapply Permutation_Forall; [symmetry; apply mrg_perm|].
  apply Forall_app. split; assumption.
Qed.

Lemma mrg_sorted : forall l r, StronglySorted le l -> StronglySorted le r ->
  StronglySorted le (mrg l r).
Proof.
  induction l as [|x l IHl]; intros r Hl Hr; [assumption|].
  induction r as [|y r IHr]; [assumption|].
  cbn [mrg]. inversion Hl as [|? ? Hl' Hxl]; subst. inversion Hr as [|? ? Hr' Hyr]; subst.
  destruct (lt y x) eqn:E.
  - constructor; [apply IHr; assumption|].
    change ((fix aux (r0 : list sx) : list sx :=
               match r0 with
               | [] => x :: l
               | y0 :: r' => if lt y0 x then y0 :: aux r' else x :: mrg l r0
               end) r) with (mrg (x :: l) r).
    apply Forall_mrg; [|assumption].
    assert (Hyx : le y x) by (unfold le; apply lt_asym; assumption).
    constructor; [assumption|].
    eapply Forall_impl; [|exact Hxl]. intros z Hz. eapply le_trans; eassumption.
  - constructor; [apply IHl; assumption|].
    apply Forall_mrg; [assumption|].
    constructor; [exact E|].
    eapply Forall_impl; [|exact Hyr]. intros z Hz. eapply le_trans; [exact E|exact Hz].
Qed.

Lemma psort_sorted : forall fuel l, List.length l < fuel -> StronglySorted le (psort fuel l).
Proof.
  induction fuel as [|fuel IH]; intros l Hf; [lia|].
  cbn [psort]. destruct (Nat.ltb (List.length l) 2) eqn:E2.
  - apply Nat.ltb_lt in E2. destruct l as [|a [|b l]]; simpl in E2; try lia.
    + constructor.
    + constructor; constructor.
  - apply Nat.ltb_ge in E2.
    set (n := List.length l) in *. set (h := Nat.div n 2).
    assert (Hh : 1 <= h /\ h < n).
    { unfold h. split; [apply Nat.div_le_lower_bound; lia|apply Nat.div_lt; lia]. }
    apply mrg_sorted; apply IH.
    + rewrite firstn_length. fold n. lia.
    + rewrite skipn_length. fold n. lia.
Qed.

(* stability: the elements of each class of indistinguishable elements keep *)
(* their original relative order                                            *)
Lemma eqv_sym a b : eqv a b = eqv b a.
Proof. unfold eqv. apply andb_comm. Qed.

Lemma eqv_blocks x0 y z : eqv x0 y = true -> eqv x0 z = true -> lt y z = false.
Proof.
  unfold eqv. intros H1 H2. apply andb_true_iff in H1 as [A1 A2]. apply andb_true_iff in H2 as [B1 B2].
  apply negb_true_iff in A1, A2, B1, B2.
  destruct (lt y z) eqn:E; [|reflexivity].
  destruct (lt_negtrans y z E x0) as [H|H]; congruence.
Qed.

Lemma mrg_stable x0 : forall l r, StronglySorted le l ->
  filter (eqv x0) (mrg l r) = filter (eqv x0) l ++ filter (eqv x0) r.
Proof.
  induction l as [|x l IHl]; intros r Hl; [reflexivity|].
  induction r as [|y r IHr]; [rewrite app_nil_r; reflexivity|].
  cbn [mrg]. inversion Hl as [|? ? Hl' Hxl]; subst.
  destruct (lt y x) eqn:E.
  - change ((fix aux (r0 : list sx) : list sx :=
               match r0 with
               | [] => x :: l
               | y0 :: r' => if lt y0 x then y0 :: aux r' else x :: mrg l r0
               end) r) with (mrg (x :: l) r).
    assert (Hc : forall a t, filter (eqv x0) (a :: t) =
                 if eqv x0 a then a :: filter (eqv x0) t else filter (eqv x0) t) by reflexivity.
    rewrite (Hc y (mrg (x :: l) r)), (Hc y r), IHr. destruct (eqv x0 y) eqn:Ey; [|reflexivity].
    (* y is in the class of x0: no element of x :: l is *)
    assert (Hnone : filter (eqv x0) (x :: l) = []).
    { assert (Hall : Forall (fun z => le x z) (x :: l)).
      { constructor; [|assumption]. unfold le. destruct (lt x x) eqn:Exx; [|reflexivity].
        pose proof (lt_asym x x Exx). congruence. }
      clear - Hall Ey E lt_negtrans lt_asym.
      induction Hall as [|z zs Hz _ IH]; [reflexivity|].
      cbn [filter]. destruct (eqv x0 z) eqn:Ez; [|exact IH].
      exfalso. pose proof (eqv_blocks x0 y z Ey Ez) as Hyz.
      destruct (lt_negtrans y x E z) as [H|H]; [congruence|]. unfold le in Hz. congruence. }
    rewrite Hnone. reflexivity.
  - cbn [filter]. rewrite IHl by assumption.
    destruct (eqv x0 x); reflexivity.
Qed.

Lemma psort_stable x0 : forall fuel l, List.length l < fuel ->
  filter (eqv x0) (psort fuel l) = filter (eqv x0) l.
Proof.
  induction fuel as [|fuel IH]; intros l Hf; [lia|].
  cbn [psort]. destruct (Nat.ltb (List.length l) 2) eqn:E2; [reflexivity|].
  apply Nat.ltb_ge in E2.
  set (n := List.length l) in *. set (h := Nat.div n 2).
  assert (Hh : 1 <= h /\ h < n).
  { unfold h. split; [apply Nat.div_le_lower_bound; lia|apply Nat.div_lt; lia]. }
  assert (Hl : List.length (firstn h l) < fuel) by (rewrite firstn_length; fold n; lia).
  assert (Hr : List.length (skipn h l) < fuel) by (rewrite skipn_length; fold n; lia).
  rewrite mrg_stable by (apply psort_sorted; assumption).
  rewrite !IH by assumption. rewrite <- filter_app, firstn_skipn. reflexivity.
Qed.

End SortPure.
