(* The evaluator: src/eval.rs, src/context.rs and the built-ins of        *)
(* src/builtin, as repaired (see DESIGN.md section 7).                    *)
From TL Require Import Base.Base Model.Reader Model.Printer Model.Store.

(* ------------------------------------------------------------------ *)
(* Pure helpers                                                        *)

Definition car_of (x : sx) : res sx :=
  match x with Cons a _ => Ok a | Nil => Ok Nil | _ => Err EType end.
Definition cdr_of (x : sx) : res sx :=
  match x with Cons _ d => Ok d | Nil => Ok Nil | _ => Err EType end.

Fixpoint cxr (path : list bool) (x : sx) : res sx :=
  match path with
  | [] => Ok x
  | b :: r => match cxr r x with
              | Ok v => if b then car_of v else cdr_of v
              | e => e
              end
  end.

Definition truthy (x : sx) : bool := negb (null x).
Definition of_bool (b : bool) : sx := if b then T else Nil.

(* TulispObject::push on a list value *)
Definition push2 (l x : sx) : res sx :=
  match l with
  | Nil => Ok (Cons x Nil)
  | Cons _ _ => match tail_of l with
                | Nil => Ok (of_list (items l) (Cons x Nil))
                | _ => Err EType
                end
  | _ => Err EType
  end.

(* TulispObject::append (after D28/D33): the argument is copied *)
Definition append2 (l v : sx) : res sx :=
  match l with
  | Nil => match v with
           | Nil => Ok Nil
           | Cons _ _ => Ok v
           | _ => Ok (Cons v Nil)
           end
  | Cons _ _ => match tail_of l with
                | Nil => Ok (of_list (items l) v)
                | _ => Err EType
                end
  | _ => Err EType
  end.

Definition is_bounced (x : sx) : bool :=
  match x with Cons Bounce _ => true | _ => false end.

Definition self_evaluating (x : sx) : bool :=
  match x with
  | Int _ | Flt _ | Str _ | Lam _ _ | Prim _ | PMac _ | Mac _ _ | Any _
  | Bounce | Nil | T => true
  | _ => false
  end.

Definition quote_arg (x : sx) : sx := if self_evaluating x then x else Quote x.

(* eq: identity.  Symbols are identified by name / serial; nil and t are *)
(* eq to themselves (D23).  For two heap values of equal structure the  *)
(* pure model cannot know whether they are one object: [None].          *)
Definition sym_eq (a b : sx) : bool :=
  match a, b with
  | Sym n, Sym m => text_eqb n m
  | USym _ i, USym _ j => Pos.eqb i j
  | Cell _ i r, Cell _ j q => Pos.eqb i j || Pos.eqb r q
  | Cell _ _ r, Sym m | Sym m, Cell _ _ r => Pos.eqb r (key_of_name m)
  | Cell _ _ r, USym _ j | USym _ j, Cell _ _ r => Pos.eqb r (key_of_id j)
  | _, _ => false
  end.

Section WithFloat.
Variable F : fops.

(* equal: PartialEq for TulispValue behind TulispObject::equal *)
Fixpoint equal (a b : sx) : bool :=
  if symbolp a then sym_eq a b else
  match a, b with
  | Int x, Int y => Z.eqb x y
  | Flt x, Flt y => f_eq F x y
  | Str x, Str y => text_eqb x y
  | Cons a1 d1, Cons a2 d2 => equal a1 a2 && equal d1 d2
  | Quote x, Quote y | Sharp x, Sharp y | Bq x, Bq y | Unq x, Unq y
  | Splice x, Splice y => equal x y
  | Int x, Flt y => f_eq F (f_of_int F x) y
  | Flt x, Int y => f_eq F x (f_of_int F y)
  | Nil, Nil | T, T | Bounce, Bounce => true
  | Any _, Any _ => true
  | Prim _, Prim _ | PMac _, PMac _ => true
  | Lam _ _, Lam _ _ | Mac _ _, Mac _ _ => true
  | _, _ => false
  end.

Definition is_heap (x : sx) : bool :=
  match x with
  | Int _ | Flt _ | Str _ | Cons _ _ | Quote _ | Sharp _ | Bq _ | Unq _
  | Splice _ | Lam _ _ | Mac _ _ | Prim _ | PMac _ | Bounce | Any _ => true
  | _ => false
  end.

(* structural identity of representation (stronger than equal) *)
Fixpoint same_repr (a b : sx) : bool :=
  match a, b with
  | Nil, Nil | T, T | Bounce, Bounce => true
  | Int x, Int y => Z.eqb x y
  | Flt x, Flt y => Z.eqb x y
  | Str x, Str y => text_eqb x y
  | Sym _, Sym _ | USym _ _, USym _ _ | Cell _ _ _, Cell _ _ _ => sym_eq a b
  | Cons a1 d1, Cons a2 d2 => same_repr a1 a2 && same_repr d1 d2
  | Quote x, Quote y | Sharp x, Sharp y | Bq x, Bq y | Unq x, Unq y
  | Splice x, Splice y => same_repr x y
  | Lam p1 b1, Lam p2 b2 | Mac p1 b1, Mac p2 b2 => same_repr p1 p2 && same_repr b1 b2
  | Prim _, Prim _ | PMac _, PMac _ => true
  | Any x, Any y => match x, y with
                    | Some i, Some j => Pos.eqb i j
                    | None, None => true
                    | _, _ => false
                    end
  | _, _ => false
  end.

Definition eq_model (a b : sx) : option bool :=
  match a, b with
  | Nil, Nil | T, T => Some true
  | _, _ =>
      if symbolp a || symbolp b then Some (sym_eq a b)
      else match a, b with
           | Any (Some i), Any (Some j) => Some (Pos.eqb i j)
           | _, _ => if is_heap a && is_heap b && same_repr a b then None
                     else Some false
           end
  end.

Definition eql_model (a b : sx) : option bool :=
  match a, b with
  | Int x, Int y => Some (Z.eqb x y)
  | Flt x, Flt y => Some (Z.eqb x y)
  | _, _ => eq_model a b
  end.

(* ------------------------------------------------------------------ *)
(* Numbers                                                             *)

Definition try_float (x : sx) : res Z :=
  match x with Flt b => Ok b | Int z => Ok (f_of_int F z) | _ => Err EType end.
Definition as_int (x : sx) : res Z :=
  match x with Int z => Ok z | _ => Err EType end.
Definition try_int (x : sx) : res Z :=
  match x with Int z => Ok z | Flt b => Ok (f_to_int F b) | _ => Err EType end.

Definition checked (z : Z) : res sx := if in_i64 z then Ok (Int z) else Err ERange.

Inductive arith := OAdd | OSub | OMul | ODiv | OMod.

(* sign-of-divisor modulo on i64 as written in impl_mod::int_mod *)
Definition int_mod (s o : Z) : res sx :=
  if Z.eqb o (-1) then Ok (Int 0)
  else if Z.eqb o 0 then Err ERange
  else
    let r := Z.rem s o in
    if negb (Z.eqb r 0) && negb (Bool.eqb (r <? 0) (o <? 0)) then Ok (Int (r + o))
    else Ok (Int r).

Definition float_mod (s o : Z) : Z :=
  let r := f_rem F s o in
  let zero := f_of_int F 0 in
  if negb (f_eq F r zero) && negb (Bool.eqb (f_lt F r zero) (f_lt F o zero))
  then f_add F r o else r.

Definition int_op (op : arith) (s o : Z) : res sx :=
  match op with
  | OAdd => checked (s + o)
  | OSub => checked (s - o)
  | OMul => checked (s * o)
  | ODiv => if Z.eqb o 0 then Err ERange else checked (Z.quot s o)
  | OMod => int_mod s o
  end.

Definition float_op (op : arith) (s o : Z) : Z :=
  match op with
  | OAdd => f_add F s o | OSub => f_sub F s o | OMul => f_mul F s o
  | ODiv => f_div F s o | OMod => float_mod s o
  end.

(* binary_ops! : three-way dispatch on the operand types *)
Definition binop (op : arith) (a b : sx) : res sx :=
  match a with
  | Flt s => match try_float b with
             | Ok o => Ok (Flt (float_op op s o)) | Err e => Err e
             | Panic n => Panic n | Fuel => Fuel end
  | _ => match b with
         | Flt o => match try_float a with
                    | Ok s => Ok (Flt (float_op op s o)) | Err e => Err e
                    | Panic n => Panic n | Fuel => Fuel end
         | _ => match as_int a with
                | Ok s => match as_int b with
                          | Ok o => int_op op s o
                          | Err e => Err e | Panic n => Panic n | Fuel => Fuel end
                | Err e => Err e | Panic n => Panic n | Fuel => Fuel end
         end
  end.

Definition maxmin (is_max : bool) (a b : sx) : res sx :=
  match a with
  | Flt s => match try_float b with
             | Ok o => Ok (Flt ((if is_max then f_max F else f_min F) s o))
             | Err e => Err e | Panic n => Panic n | Fuel => Fuel end
  | _ => match b with
         | Flt o => match try_float a with
                    | Ok s => Ok (Flt ((if is_max then f_max F else f_min F) s o))
                    | Err e => Err e | Panic n => Panic n | Fuel => Fuel end
         | _ => match as_int a with
                | Ok s => match as_int b with
                          | Ok o => Ok (Int (if is_max then Z.max s o else Z.min s o))
                          | Err e => Err e | Panic n => Panic n | Fuel => Fuel end
                | Err e => Err e | Panic n => Panic n | Fuel => Fuel end
         end
  end.

Inductive cmp := CLt | CLe | CGt | CGe.

Definition cmp_int (c : cmp) (a b : Z) : bool :=
  match c with CLt => a <? b | CLe => a <=? b | CGt => b <? a | CGe => b <=? a end.
Definition cmp_flt (c : cmp) (a b : Z) : bool :=
  match c with CLt => f_lt F a b | CLe => f_le F a b
          | CGt => f_lt F b a | CGe => f_le F b a end.

(* compare_ops! on two numbers *)
Definition compare2 (c : cmp) (a b : sx) : res bool :=
  match a, b with
  | Int x, Int y => Ok (cmp_int c x y)
  | Flt x, Flt y => Ok (cmp_flt c x y)
  | Flt x, Int y => Ok (cmp_flt c x (f_of_int F y))
  | Int x, Flt y => Ok (cmp_flt c (f_of_int F x) y)
  | _, _ => Err EType
  end.

(* ------------------------------------------------------------------ *)
(* Lists                                                               *)

Fixpoint nthcdr_nat (n : nat) (l : sx) : res sx :=
  match n with
  | O => Ok l
  | S n' => match l with
            | Nil => Ok Nil
            | Cons _ d => nthcdr_nat n' d
            | _ => Err EType
            end
  end.

(* the counted loop only ever takes as many steps as the list is long *)
Definition nthcdr (n : Z) (l : sx) : res sx :=
  if n <=? 0 then Ok l
  else nthcdr_nat (Z.to_nat (Z.min n (Z.of_nat (S (List.length (items l)))))) l.

Definition nth (n : Z) (l : sx) : res sx :=
  match nthcdr n l with Ok x => car_of x | e => e end.

Definition length_z (l : sx) : Z := Z.of_nat (List.length (items l)).

Definition last (l : sx) (n : option Z) : res sx :=
  match l with
  | Nil => Ok Nil
  | Cons _ _ =>
      let len := length_z l in
      match n with
      | Some n => if n <? 0 then Err ERange
                  else if n <? len then nthcdr (len - n) l else Ok l
      | None => nthcdr (len - 1) l
      end
  | _ => Err EType
  end.

Fixpoint plist_get (pl : sx) (prop : sx) : res sx :=
  match pl with
  | Nil => Ok Nil
  | Cons k rest =>
      match eq_model k prop with
      | None => Err ENotImpl               (* identity of two heap values: outside the pure model *)
      | Some true =>
          match rest with
          | Cons v _ => Ok v | Nil => Ok Nil | _ => Err EType
          end
      | Some false =>
          match rest with
          | Cons _ rest2 => plist_get rest2 prop
          | Nil => Ok Nil
          | _ => Err EType
          end
      end
  | _ => Err EType
  end.

(* ------------------------------------------------------------------ *)
(* Strings                                                             *)

Fixpoint text_ltb (a b : text) : bool :=
  match a, b with
  | [], [] => false
  | [], _ :: _ => true
  | _ :: _, [] => false
  | x :: a', y :: b' => if N.ltb x y then true
                        else if N.ltb y x then false else text_ltb a' b'
  end.

Definition c_pct : cp := 37%N.

(* the directive loop of `format` *)
Fixpoint format_loop (inp : text) (args : list sx) (acc : text) : res text :=
  match inp with
  | [] => Ok acc
  | c :: r =>
      if negb (N.eqb c c_pct) then format_loop r args (acc ++ [c])
      else match r with
           | [] => Ok acc
           | d :: r2 =>
               if N.eqb d c_pct then format_loop r2 args (acc ++ [d])
               else match args with
                    | [] => Err EMissing
                    | a :: args' =>
                        if N.eqb d 115%N then format_loop r2 args' (acc ++ princ F a)
                        else if N.eqb d 83%N then format_loop r2 args' (acc ++ print F a)
                        else if N.eqb d 100%N then
                          match try_int a with
                          | Ok z => format_loop r2 args' (acc ++ print_Z z)
                          | Err e => Err e | Panic n => Panic n | Fuel => Fuel end
                        else if N.eqb d 102%N then
                          match try_float a with
                          | Ok b => format_loop r2 args' (acc ++ f_to_dec F b)
                          | Err e => Err e | Panic n => Panic n | Fuel => Fuel end
                        else Err ESyntax
                    end
           end
  end.

(* ------------------------------------------------------------------ *)
(* Store access                                                        *)

Definition is_constant (x : sx) : bool :=
  match x with Sym n | USym n _ => name_constant n | _ => false end.

Definition sym_get (x : sx) : M sx :=
  match key_of x with
  | None => fail EType
  | Some k =>
      if keywordp x then ret x
      else fun s => match bitems (sget s k) with
                    | v :: _ => (Ok v, s)
                    | [] => (Err EType, s)
                    end
  end.

Definition with_key (x : sx) (f : key -> M unit) : M unit :=
  match key_of x with
  | None => fail EType
  | Some k => if is_constant x then fail EUndef else f k
  end.

Definition sym_set (x v : sx) : M unit :=
  with_key x (fun k s => (Ok tt, sput s k (b_set (sget s k) v))).
Definition note_global (k : key) (s : st) : st :=
  {| store := store s; next_id := next_id s; log := log s; steps := steps s;
     fail_at := fail_at s; htabs := htabs s; flags := flags s; files := files s;
     nfiles := nfiles s; mlog := mlog s; glog := k :: glog s |}.
Definition sym_set_global (x v : sx) : M unit :=
  with_key x (fun k s => (Ok tt, note_global k (sput s k (b_set_global (sget s k) v)))).
Definition sym_set_scope (x v : sx) : M unit :=
  with_key x (fun k s => (Ok tt, sput s k (b_set_scope (sget s k) v))).
Definition sym_unset (x : sx) : M unit :=
  match key_of x with
  | None => fail EType
  | Some k => fun s => match b_unset (sget s k) with
                       | Some b => (Ok tt, sput s k b)
                       | None => (Err EUninit, s)
                       end
  end.
(* set_unchecked: items.last_mut().unwrap() *)
Definition sym_set_unchecked (x v : sx) : M unit :=
  match key_of x with
  | None => ret tt
  | Some k => fun s => match bitems (sget s k) with
                       | [] => (Panic 20%N, s)
                       | _ => (Ok tt, sput s k (b_set (sget s k) v))
                       end
  end.
Definition sym_boundp (x : sx) : M bool :=
  match key_of x with
  | None => ret false
  | Some k => fun s => (Ok (negb (Nat.eqb (depth s k) 0)), s)
  end.
Definition lex_bound (x : sx) : M bool :=
  match x with
  | Cell _ _ _ => ret true
  | _ => match key_of x with
         | None => ret false
         | Some k => fun s => (Ok (b_lex_bound (sget s k)), s)
         end
  end.

Definition fresh_id : M positive :=
  fun s => (Ok (next_id s),
            {| store := store s; next_id := Pos.succ (next_id s); log := log s;
               steps := steps s; fail_at := fail_at s; htabs := htabs s;
               flags := flags s; files := files s; nfiles := nfiles s; mlog := mlog s; glog := glog s |}).

(* ghost: remember that a defmacro pushed a permanent entry on this symbol *)
Definition note_defmacro (x : sx) : M unit :=
  fun s => (Ok tt,
            {| store := store s; next_id := next_id s; log := log s;
               steps := steps s; fail_at := fail_at s; htabs := htabs s;
               flags := flags s; files := files s; nfiles := nfiles s;
               mlog := match key_of x with Some k => k :: mlog s | None => mlog s end;
               glog := glog s |}).

(* ------------------------------------------------------------------ *)
(* DefunParams                                                         *)

Record param := { p_sym : sx; p_opt : bool; p_rest : bool }.

Definition n_optional := s2t "&optional".
Definition n_rest := s2t "&rest".

Fixpoint parse_params_loop (ps : list sx) (opt rest : bool) (acc : list param)
  : res (list param) :=
  match ps with
  | [] => Ok (rev acc)
  | p :: r =>
      match sym_name p with
      | None => Err EType
      | Some n =>
          if text_eqb n n_optional then parse_params_loop r true rest acc
          else if text_eqb n n_rest then parse_params_loop r false true acc
          else
            let acc' := {| p_sym := p; p_opt := opt; p_rest := rest |} :: acc in
            if rest then match r with [] => Ok (rev acc') | _ => Err EType end
            else parse_params_loop r opt rest acc'
      end
  end.

Definition parse_params (ps : sx) : res (list param) :=
  if listp ps then parse_params_loop (items ps) false false [] else Err ESyntax.

(* ------------------------------------------------------------------ *)
(* Tasks: every unbounded loop of the interpreter re-enters here.      *)

Inductive task :=
| TEval (x : sx)
| TCall (evalp : bool) (fn args : sx)
| TWhile (c body : sx) (last : sx)
| TTramp (ps body r : sx)
| TDotimes (var : sx) (i n : Z) (body : sx)
| TExpand (x : sx).

Section Step.
Variable rec : task -> M sx.

Definition ev (x : sx) : M sx := rec (TEval x).
Definition call (evalp : bool) (fn args : sx) : M sx := rec (TCall evalp fn args).
Definition expand (x : sx) : M sx := rec (TExpand x).

Fixpoint eval_progn_l (l : list sx) (last : sx) : M sx :=
  match l with
  | [] => ret last
  | x :: r => v <- ev x ;; eval_progn_l r v
  end.
Definition eval_progn (body : sx) : M sx := eval_progn_l (items body) Nil.

Fixpoint eval_each (l : list sx) : M (list sx) :=
  match l with
  | [] => ret []
  | x :: r => v <- ev x ;; vs <- eval_each r ;; ret (v :: vs)
  end.

(* ---- argument extraction generated by crate_fn -------------------- *)
Definition arg_req (evalp : bool) (args : sx) : M (sx * sx) :=
  match args with
  | Cons a d => v <- (if evalp then ev a else ret a) ;; ret (v, d)
  | Nil => v <- (if evalp then ev Nil else ret Nil) ;; ret (v, Nil)
  | _ => fail EMissing
  end.
Definition arg_opt (evalp : bool) (args : sx) : M (option sx * sx) :=
  match args with
  | Cons a d => v <- (if evalp then ev a else ret a) ;;
                ret (if null v then None else Some v, d)
  | _ => ret (None, Nil)
  end.
Definition arg_rest (evalp : bool) (args : sx) : M sx :=
  if evalp then vs <- eval_each (items args) ;; ret (of_list vs Nil) else ret args.

(* ---- zip_function_args / eval_function ---------------------------- *)
Fixpoint zip_args (evalp : bool) (ps : list param) (args : list sx)
  : M (list sx * list sx) :=
  match ps with
  | [] => ret ([], args)
  | p :: ps' =>
      if p_opt p then
        match args with
        | a :: args' => v <- (if evalp then ev a else ret a) ;;
                        '(vs, rest) <- zip_args evalp ps' args' ;; ret (v :: vs, rest)
        | [] => '(vs, rest) <- zip_args evalp ps' [] ;; ret (Nil :: vs, rest)
        end
      else if p_rest p then
        vs0 <- (if evalp then eval_each args else ret args) ;;
        '(vs, rest) <- zip_args evalp ps' [] ;; ret (of_list vs0 Nil :: vs, rest)
      else
        match args with
        | a :: args' => v <- (if evalp then ev a else ret a) ;;
                        '(vs, rest) <- zip_args evalp ps' args' ;; ret (v :: vs, rest)
        | [] => fail EType
        end
  end.

Fixpoint unbind_all (ps : list sx) : M unit :=
  match ps with
  | [] => ret tt
  | p :: r => _ <- sym_unset p ;; unbind_all r
  end.

Fixpoint bind_all (ps : list sx) (vs : list sx) (done : list sx) : M unit :=
  match ps, vs with
  | p :: ps', v :: vs' =>
      catch (sym_set_scope p v)
            (fun r => match r with
                      | Ok _ => bind_all ps' vs' (done ++ [p])
                      | Err e => _ <- unbind_all done ;; fail e
                      | Panic n => panic n
                      | Fuel => lift Fuel
                      end)
  | _, _ => ret tt
  end.

Definition eval_function (evalp : bool) (psx body args : sx) : M sx :=
  ps <- lift (parse_params psx) ;;
  '(vs, rest) <- zip_args evalp ps (items args) ;;
  match rest with
  | _ :: _ => fail EType
  | [] =>
      let syms := map p_sym ps in
      _ <- bind_all syms vs [] ;;
      catch (eval_progn body)
            (fun r => _ <- unbind_all syms ;; lift r)
  end.

(* ---- backquote ---------------------------------------------------- *)
Fixpoint eval_bq (x : sx) : M sx :=
  match x with
  | Unq v => ev v
  | Splice v => ev v
  | Quote v => r <- eval_bq v ;; ret (Quote r)
  | Cons _ _ =>
      (fix spine (l : sx) (acc : sx) {struct l} : M sx :=
         match l with
         | Cons a d =>
             acc1 <- match a with
                     | Unq v => r <- ev v ;; lift (push2 acc r)
                     | Splice v => r <- ev v ;; lift (append2 acc r)
                     | _ => r <- eval_bq a ;; lift (push2 acc r)
                     end ;;
             match d with
             | Unq v => r <- ev v ;; lift (append2 acc1 r)
             | Cons _ _ => spine d acc1
             | o => lift (append2 acc1 o)
             end
         | _ => ret acc
         end) x Nil
  | o => ret o
  end.

(* ---- mark_tail_calls ---------------------------------------------- *)
Definition n_progn := s2t "progn". Definition n_let := s2t "let".
Definition n_letstar := s2t "let*". Definition n_if := s2t "if".
Definition n_cond := s2t "cond". Definition n_list := s2t "list".

Definition nil_append (v : sx) : sx :=
  match v with Nil => Nil | Cons _ _ => v | o => Cons o Nil end.

(* list!(,@xs ...) splice of a value at the end of a proper prefix *)
Definition splice_tail (pre : list sx) (v : sx) : sx := of_list pre v.

Fixpoint last_and_init (l : list sx) : option (list sx * sx) :=
  match l with
  | [] => None
  | [x] => Some ([], x)
  | x :: r => match last_and_init r with
              | Some (i, t) => Some (x :: i, t)
              | None => None
              end
  end.

Fixpoint mark_tail (fuel : nat) (name body : sx) : res sx :=
  match fuel with
  | O => Fuel
  | S fuel' =>
      match body with
      | Cons _ _ =>
          match last_and_init (items body) with
          | None => Ok body
          | Some (init, tail) =>
              match tail with
              | Cons tail_ident tail_cdr =>
                  match sym_name tail_ident with
                  | None => Ok body
                  | Some tn =>
                      let fin (new_tail : sx) := Ok (of_list (init ++ [new_tail]) Nil) in
                      if sym_eq tail_ident name then
                        fin (Cons (Sym n_list) (Cons Bounce (nil_append tail_cdr)))
                      else if text_eqb tn n_progn || text_eqb tn n_let || text_eqb tn n_letstar then
                        match mark_tail fuel' name tail_cdr with
                        | Ok m => fin (Cons tail_ident m)
                        | e => e
                        end
                      else if text_eqb tn n_if then
                        match cdr_of tail_cdr with
                        | Ok r1 =>
                          match car_of tail_cdr, car_of r1, cdr_of r1 with
                          | Ok condition, Ok then_body, Ok else_body =>
                              match mark_tail fuel' name (Cons then_body Nil) with
                              | Ok mt =>
                                  match car_of mt, mark_tail fuel' name else_body with
                                  | Ok mt1, Ok me => fin (Cons tail_ident (Cons condition (Cons mt1 me)))
                                  | Err e, _ | _, Err e => Err e
                                  | Panic n, _ | _, Panic n => Panic n
                                  | _, _ => Fuel
                                  end
                              | e => e
                              end
                          | Err e, _, _ | _, Err e, _ | _, _, Err e => Err e
                          | _, _, _ => Fuel
                          end
                        | e => e
                        end
                      else if text_eqb tn n_cond then
                        (fix clauses (cs : list sx) (acc : list sx) : res sx :=
                           match cs with
                           | [] => fin (Cons tail_ident (of_list acc Nil))
                           | c :: cs' =>
                               match car_of c, cdr_of c with
                               | Ok condition, Ok cbody =>
                                   match mark_tail fuel' name cbody with
                                   | Ok mb => clauses cs' (acc ++ [Cons condition mb])
                                   | e => e
                                   end
                               | Err e, _ | _, Err e => Err e
                               | _, _ => Fuel
                               end
                           end) (items tail_cdr) []
                      else Ok (of_list (init ++ [tail]) Nil)
                  end
              | _ => Ok body
              end
          end
      | _ => Ok body
      end
  end.

Fixpoint sx_size (x : sx) : nat :=
  match x with
  | Cons a d => S (sx_size a + sx_size d)
  | Quote v | Bq v | Unq v | Splice v | Sharp v => S (sx_size v)
  | Lam a b | Mac a b => S (sx_size a + sx_size b)
  | _ => 1%nat
  end.

(* ---- lambda: the capture walk ------------------------------------- *)
Definition cap_list := list (sx * sx).

Definition in_excl (excl : list sx) (x : sx) : bool := existsb (fun e => sym_eq e x) excl.

Fixpoint find_cap (caps : cap_list) (x : sx) : option sx :=
  match caps with
  | [] => None
  | (from, to) :: r => if sym_eq x from then Some to else find_cap r x
  end.

Definition cell_root (x : sx) : key :=
  match x with
  | Cell _ _ r => r
  | _ => match key_of x with Some k => k | None => xH end
  end.

Definition capture_symbol (excl : list sx) (caps : cap_list) (x : sx)
  : M (sx * cap_list) :=
  lb <- lex_bound x ;;
  if negb lb then ret (x, caps)
  else if in_excl excl x then ret (x, caps)
  else match find_cap caps x with
       | Some c => ret (c, caps)
       | None =>
           v <- sym_get x ;;
           id <- fresh_id ;;
           let c := Cell (match sym_name x with Some n => n | None => [] end)
                         id (cell_root x) in
           _ <- sym_set c v ;;
           ret (c, caps ++ [(x, c)])
       end.

Fixpoint capture (excl : list sx) (caps : cap_list) (x : sx) : M (sx * cap_list) :=
  match x with
  | Cons _ _ =>
      (fix spine (l : sx) (caps : cap_list) (acc : list sx) {struct l}
         : M (sx * cap_list) :=
         match l with
         | Cons a d =>
             '(a', caps1) <- match a with
                             | Cons _ _ => capture excl caps a
                             | _ => if symbolp a then capture_symbol excl caps a
                                    else capture excl caps a
                             end ;;
             match d with
             | Nil => ret (of_list (acc ++ [a']) Nil, caps1)
             | Cons _ _ => spine d caps1 (acc ++ [a'])
             | o => '(o', caps2) <- (if symbolp o then capture_symbol excl caps1 o
                                     else capture excl caps1 o) ;;
                    ret (of_list (acc ++ [a']) o', caps2)
             end
         | _ => ret (of_list acc Nil, caps)
         end) x caps []
  | Bq v => '(v', c) <- capture excl caps v ;; ret (Bq v', c)
  | Unq v => '(v', c) <- capture excl caps v ;; ret (Unq v', c)
  | Splice v => '(v', c) <- capture excl caps v ;; ret (Splice v', c)
  | Sharp v => '(v', c) <- capture excl caps v ;; ret (Sharp v', c)
  | Quote v => '(v', c) <- capture excl caps v ;; ret (Quote v', c)
  | o => if symbolp o then capture_symbol excl caps o else ret (o, caps)
  end.

(* body of defun / lambda / defmacro after an optional docstring *)
Definition fn_body (rest : sx) : res sx :=
  match car_of rest with
  | Ok (Str _) => match cdr_of rest with
                  | Ok (Cons a d) => Ok (Cons a d)
                  | Ok _ => Ok rest
                  | e => e
                  end
  | Ok _ => Ok rest
  | Err e => Err e | Panic n => Panic n | Fuel => Fuel
  end.

(* ---- built-in macros ---------------------------------------------- *)
Definition S_ (s : string) : sx := Sym (s2t s).

Definition build_binding (b prev : sx) : M sx :=
  b2 <- (if symbolp b then ret (of_list [b; b] Nil)
         else d <- lift (cdr_of b) ;;
              if null d then
                id <- fresh_id ;; a <- lift (car_of b) ;;
                ret (of_list [USym (s2t "s") id; a] Nil)
              else ret b) ;;
  if Nat.ltb 2 (List.length (items b2)) then fail ESyntax
  else
    var <- lift (car_of b2) ;;
    val <- lift (cxr [true; false] b2) ;;
    ret (of_list [var; of_list [S_ "and"; prev; val] Nil] Nil).

Fixpoint build_bindings (bs : list sx) (prev : sx) (acc : list sx) : M sx :=
  match bs with
  | [] => ret (of_list acc Nil)
  | b :: r => nb <- build_binding b prev ;;
              p <- lift (car_of nb) ;;
              build_bindings r p (acc ++ [nb])
  end.

Definition progn_on_rest (rest : sx) : res sx :=
  match cdr_of rest with
  | Ok d => if truthy d then Ok (Cons (S_ "progn") rest) else car_of rest
  | e => e
  end.

Fixpoint thread (first : bool) (fuel : nat) (x : sx) (forms : list sx) : res sx :=
  match fuel with
  | O => Fuel
  | S fuel' =>
      match forms with
      | [] => Ok x
      | form :: more =>
          if null form then Ok x
          else
            let one :=
                match form with
                | Cons h t =>
                    if first then Ok (Cons h (Cons x t))
                    else match append2 (nil_append form) (Cons x Nil) with
                         | Ok v => Ok v
                         | e => e
                         end
                | _ => Ok (of_list [form; x] Nil)
                end in
            match more with
            | [] => one
            | _ => match one with
                   | Ok inner => thread first fuel' inner more
                   | e => e
                   end
            end
      end
  end.

Definition apply_pmac (m : pmac) (args : sx) : M sx :=
  let req (a : sx) : M (sx * sx) := arg_req false a in
  match m with
  | MWhen => '(c, rest) <- req args ;;
             ret (of_list [S_ "if"; c; Cons (S_ "progn") rest] Nil)
  | MUnless => '(c, rest) <- req args ;;
               ret (Cons (S_ "if") (Cons c (Cons Nil rest)))
  | MIfLetStar =>
      '(varlist, r1) <- req args ;; '(thn, rest) <- req r1 ;;
      if null varlist then ret (of_list [S_ "let*"; varlist; thn] Nil)
      else
        vl <- build_bindings (items varlist) T [] ;;
        lst <- lift (last vl None) ;;
        cnd <- lift (cxr [true; true] lst) ;;
        body <- lift (append2 (of_list [S_ "if"; cnd; thn] Nil) (nil_append rest)) ;;
        ret (of_list [S_ "let*"; vl; body] Nil)
  | MIfLet =>
      '(spec, r1) <- req args ;; '(thn, rest) <- req r1 ;;
      c <- lift (car_of spec) ;;
      let spec' := if (length_z spec <=? 2) && negb (listp c)
                   then Cons spec Nil else spec in
      pr <- lift (progn_on_rest rest) ;;
      ret (of_list [S_ "if-let*"; spec'; thn; pr] Nil)
  | MWhenLet =>
      '(spec, rest) <- req args ;;
      pr <- lift (progn_on_rest rest) ;;
      ret (of_list [S_ "if-let"; spec; pr] Nil)
  | MWhileLet =>
      '(spec, rest) <- req args ;;
      body <- lift (append2 (Cons (S_ "progn") (nil_append rest)) (Cons T Nil)) ;;
      ret (of_list [S_ "while"; of_list [S_ "if-let"; spec; body; Nil] Nil] Nil)
  | MThreadFirst | MThreadLast =>
      match args with
      | Nil => ret Nil
      | Cons x forms =>
          match tail_of forms with
          | Nil => lift (thread (match m with MThreadFirst => true | _ => false end)
                                (S (List.length (items forms))) x (items forms))
          | _ => match items forms with
                 | [] => fail EType
                 | _ => fail EType
                 end
          end
      | _ => fail EType
      end
  | MQuote =>
      match args with
      | Cons a Nil => ret (Quote a)
      | _ => fail EType
      end
  end.

(* ---- merge sort as repaired (right half first, right element taken   *)
(*      only when pred right left is true)                              *)
Fixpoint merge_fuel (fuel : nat) (pred : sx) (l r : list sx) (acc : list sx)
  : M (list sx) :=
  match fuel with
  | O => lift Fuel
  | S fuel' =>
      match l, r with
      | [], _ => ret (rev acc ++ r)
      | _, [] => ret (rev acc ++ l)
      | x :: l', y :: r' =>
          v <- call false pred (of_list [y; x] Nil) ;;
          if truthy v then merge_fuel fuel' pred l r' (y :: acc)
          else merge_fuel fuel' pred l' r (x :: acc)
      end
  end.

Fixpoint msort (fuel : nat) (pred : sx) (l : list sx) : M (list sx) :=
  match fuel with
  | O => lift Fuel
  | S fuel' =>
      let n := List.length l in
      if Nat.ltb n 2 then ret l
      else
        let half := Nat.div n 2 in
        let left := firstn half l in
        let right := skipn half l in
        sr <- msort fuel' pred right ;;
        sl <- msort fuel' pred left ;;
        merge_fuel (S n) pred sl sr []
  end.

(* ---- hash tables --------------------------------------------------- *)
Fixpoint ht_find (l : list (sx * sx)) (k : sx) : res sx :=
  match l with
  | [] => Ok Nil
  | (k', v) :: r => match eql_model k' k with
                    | Some true => Ok v
                    | Some false => ht_find r k
                    | None => Err ENotImpl
                    end
  end.

Fixpoint ht_put (l : list (sx * sx)) (k v : sx) : res (list (sx * sx)) :=
  match l with
  | [] => Ok [(k, v)]
  | (k', v') :: r => match eql_model k' k with
                     | Some true => Ok ((k', v) :: r)
                     | Some false => match ht_put r k v with
                                     | Ok r' => Ok ((k', v') :: r')
                                     | e => e
                                     end
                     | None => Err ENotImpl
                     end
  end.

Definition ht_get_tab (table : sx) : M (positive * list (sx * sx)) :=
  match table with
  | Any (Some h) => fun s => match PositiveMap.find h (htabs s) with
                             | Some l => (Ok (h, l), s)
                             | None => (Err EType, s)
                             end
  | _ => fail EType
  end.

Definition ht_store (h : positive) (l : list (sx * sx)) : M unit :=
  fun s => (Ok tt,
            {| store := store s; next_id := next_id s; log := log s; steps := steps s;
               fail_at := fail_at s; htabs := PositiveMap.add h l (htabs s);
               flags := flags s; files := files s; nfiles := nfiles s; mlog := mlog s; glog := glog s |}).

(* ---- assoc --------------------------------------------------------- *)
Fixpoint assoc_find (test : sx -> M bool) (alist : sx) : M sx :=
  match alist with
  | Nil => ret Nil
  | Cons e rest =>
      match e with
      | Cons k _ => b <- test k ;; if b then ret e else assoc_find test rest
      | _ => assoc_find test rest
      end
  | _ => fail EType
  end.

Definition assoc (key alist : sx) (testfn : option sx) : M sx :=
  if negb (listp alist) then fail EType
  else match testfn with
       | Some tf =>
           pred <- ev tf ;;
           assoc_find (fun k => v <- call false pred (of_list [k; key] Nil) ;;
                                ret (truthy v)) alist
       | None => assoc_find (fun k => ret (equal k key)) alist
       end.

(* ---- reduce_with --------------------------------------------------- *)
Fixpoint reduce_rest (op : sx -> sx -> res sx) (acc : sx) (rest : sx) {struct rest}
  : M sx :=
  match rest with
  | Cons a d => v <- ev a ;; acc' <- lift (op acc v) ;; reduce_rest op acc' d
  | Nil => ret acc
  | _ => fail EType
  end.

Definition reduce_with (op : sx -> sx -> res sx) (args : sx) : M sx :=
  match args with
  | Cons a d =>
      first <- ev a ;;
      if null d && negb (numberp first) then fail EType
      else reduce_rest op first d
  | Nil => first <- ev Nil ;; ret first
  | _ => fail EType
  end.

(* comparison chain: every argument evaluated once, type-checked in order *)
Fixpoint compare_chain (c : cmp) (l : list sx) (prev : option sx) (holds : bool)
  : M sx :=
  match l with
  | [] => ret (of_bool holds)
  | x :: r =>
      v <- ev x ;;
      if negb (numberp v) then fail EType
      else
        h <- match prev with
             | Some p => if holds then b <- lift (compare2 c p v) ;; ret b else ret false
             | None => ret holds
             end ;;
        compare_chain c r (Some v) h
  end.

(* predicate_function! *)
Definition predicate (args : sx) (f : sx -> M bool) : M sx :=
  match args with
  | Cons a Nil => v <- ev a ;; b <- f v ;; ret (of_bool b)
  | _ => fail EType
  end.

Definition string_cmp (args : sx) (f : text -> text -> bool) : M sx :=
  a1 <- lift (car_of args) ;; r1 <- lift (cdr_of args) ;;
  a2 <- lift (car_of r1) ;; r2 <- lift (cdr_of r1) ;;
  if negb (null r2) then fail EType
  else
    s1 <- ev a1 ;; s2 <- ev a2 ;;
    match s1, s2 with
    | Str x, Str y => ret (of_bool (f x y))
    | _, _ => fail EType
    end.

(* let / let*: sequential binding (D1), bindings undone on every exit *)
Fixpoint let_bind (vars : list sx) (bound : list sx) : M (list sx) :=
  match vars with
  | [] => ret bound
  | v :: r =>
      let fail_with (e : ekind) : M (list sx) :=
          _ <- unbind_all bound ;; fail e in
      if symbolp v then
        catch (sym_set_scope v Nil)
              (fun o => match o with
                        | Ok _ => let_bind r (bound ++ [v])
                        | Err e => fail_with e
                        | Panic n => panic n | Fuel => lift Fuel end)
      else match v with
           | Cons name rest1 =>
               let '(value, rest2) := match rest1 with
                                      | Cons vv r2 => (Ok vv, Ok r2)
                                      | Nil => (Ok Nil, Ok Nil)
                                      | _ => (Err EType, Err EType)
                                      end in
               match value, rest2 with
               | Ok value, Ok rest2 =>
                   if null name then fail_with EUndef
                   else if negb (null rest2) then fail_with EUndef
                   else
                     catch (val <- ev value ;; sym_set_scope name val)
                           (fun o => match o with
                                     | Ok _ => let_bind r (bound ++ [name])
                                     | Err e => fail_with e
                                     | Panic n => panic n | Fuel => lift Fuel end)
               | _, _ => fail_with EType
               end
           | _ => fail_with ESyntax
           end
  end.

Definition do_let (args : sx) : M sx :=
  '(varlist, rest) <- arg_req false args ;;
  if negb (listp rest) then fail EType
  else
    bound <- let_bind (items varlist) [] ;;
    catch (eval_progn rest) (fun r => _ <- unbind_all bound ;; lift r).

Fixpoint and_l (l : list sx) (last : sx) : M sx :=
  match l with
  | [] => ret last
  | x :: r => v <- ev x ;; if null v then ret v else and_l r v
  end.
Fixpoint or_l (l : list sx) : M sx :=
  match l with
  | [] => ret Nil
  | x :: r => v <- ev x ;; if null v then or_l r else ret v
  end.

Fixpoint cond_l (l : list sx) : M sx :=
  match l with
  | [] => ret Nil
  | item :: r =>
      match item with
      | Nil => cond_l r
      | Cons c body =>
          test <- ev c ;;
          if truthy test then
            (if null body then ret test else eval_progn body)
          else cond_l r
      | _ => fail EType
      end
  end.

Fixpoint map_l (f : sx) (l : list sx) : M (list sx) :=
  match l with
  | [] => ret []
  | x :: r => v <- call false f (Cons x Nil) ;; vs <- map_l f r ;; ret (v :: vs)
  end.
Fixpoint filter_l (f : sx) (l : list sx) : M (list sx) :=
  match l with
  | [] => ret []
  | x :: r => v <- call false f (Cons x Nil) ;; vs <- filter_l f r ;;
              ret (if truthy v then x :: vs else vs)
  end.
Fixpoint reduce_l (f : sx) (l : list sx) (acc : sx) : M sx :=
  match l with
  | [] => ret acc
  | x :: r => v <- call false f (of_list [acc; x] Nil) ;; reduce_l f r v
  end.
Fixpoint find_l (f : sx) (l : list sx) : M (option sx) :=
  match l with
  | [] => ret None
  | x :: r => v <- call false f (Cons x Nil) ;;
              if truthy v then ret (Some x) else find_l f r
  end.

Fixpoint append_all (acc : sx) (l : list sx) : res sx :=
  match l with
  | [] => Ok acc
  | x :: r => match append2 acc x with
              | Ok a => append_all a r
              | e => e
              end
  end.

Fixpoint concat_l (l : list sx) (acc : text) : res text :=
  match l with
  | [] => Ok acc
  | Str s :: r => concat_l r (acc ++ s)
  | _ :: _ => Err EType
  end.

Definition set_flags (n : text) : M unit :=
  fun s =>
    let fl := flags s in
    let fl' := {| t_interned := t_interned fl || text_eqb n name_t;
                  nil_interned := nil_interned fl || text_eqb n name_nil |} in
    (Ok tt, {| store := store s; next_id := next_id s; log := log s; steps := steps s;
               fail_at := fail_at s; htabs := htabs s; flags := fl';
               files := files s; nfiles := nfiles s; mlog := mlog s; glog := glog s |}).

Definition do_tick (id : sx) (v : sx) : M sx :=
  fun s =>
    let n := N.succ (steps s) in
    let idz := match id with Int z => z | _ => 0 end in
    let s' := {| store := store s; next_id := next_id s;
                 log := (idz, print F v) :: log s; steps := n;
                 fail_at := fail_at s; htabs := htabs s; flags := flags s;
                 files := files s; nfiles := nfiles s; mlog := mlog s; glog := glog s |} in
    match fail_at s with
    | Some k => if N.eqb k n then (Err EHost, s') else (Ok v, s')
    | None => (Ok v, s')
    end.

Definition dolist_step (lst : sx) : res (sx * sx) :=
  match cdr_of lst with
  | Ok next => match car_of next with
               | Ok c => Ok (next, c)
               | Err e => Err e | Panic n => Panic n | Fuel => Fuel end
  | Err e => Err e | Panic n => Panic n | Fuel => Fuel
  end.

(* the loop of dolist: bounded by the list, so structural on its items  *)
Fixpoint dolist_loop (n : nat) (var : sx) (lst : sx) (body : sx) : M unit :=
  match n with
  | O => ret tt
  | S n' =>
      if truthy lst then
        _ <- eval_progn body ;;
        '(next, c) <- lift (dolist_step lst) ;;
        _ <- sym_set_unchecked var c ;;
        dolist_loop n' var next body
      else ret tt
  end.

Variable load_text : text -> M sx.   (* parse + eval_progn of a file body *)

Definition find_file (name : text) : M text :=
  fun s => match find (fun p => text_eqb (fst p) name) (files s) with
           | Some p => (Ok (snd p),
                        {| store := store s; next_id := next_id s; log := log s;
                           steps := steps s; fail_at := fail_at s; htabs := htabs s;
                           flags := flags s; files := files s;
                           nfiles := N.succ (nfiles s); mlog := mlog s; glog := glog s |})
           | None => (Err EUndef, s)
           end.

Definition to_str (x : sx) : res text :=
  match x with Str s => Ok s | _ => Err EType end.

Definition apply_prim (p : prim) (args : sx) : M sx :=
  let req := arg_req true in
  let opt := arg_opt true in
  match p with
  | PAdd => reduce_with (binop OAdd) args
  | PMul => reduce_with (binop OMul) args
  | PSub => match args with
            | Cons a Nil => v <- ev a ;; lift (binop OSub (Int 0) v)
            | Cons _ _ => reduce_with (binop OSub) args
            | _ => fail EMissing
            end
  | PDiv =>
      match items args with
      | [] => fail EMissing
      | a :: rest =>
          first <- ev a ;;
          ds <- eval_each rest ;;
          let '(acc, ds) := match ds with [] => (Int 1, [first]) | _ => (first, ds) end in
          if existsb (fun d => equal d (Int 0) || equal d (Flt (f_of_int F 0))) ds
          then fail EUndef
          else (fix go (acc : sx) (l : list sx) : M sx :=
                  match l with
                  | [] => ret acc
                  | d :: r => acc' <- lift (binop ODiv acc d) ;; go acc' r
                  end) acc ds
      end
  | PGt => if Nat.ltb (List.length (items args)) 2 then fail ERange
           else compare_chain CGt (items args) None true
  | PGe => if Nat.ltb (List.length (items args)) 2 then fail ERange
           else compare_chain CGe (items args) None true
  | PLt => if Nat.ltb (List.length (items args)) 2 then fail ERange
           else compare_chain CLt (items args) None true
  | PLe => if Nat.ltb (List.length (items args)) 2 then fail ERange
           else compare_chain CLe (items args) None true
  | PMax => reduce_with (maxmin true) args
  | PMin => reduce_with (maxmin false) args
  | PFround | PFtruncate =>
      match args with
      | Cons a Nil =>
          v <- ev a ;;
          match v with
          | Flt b => ret (Flt (match p with PFround => f_round F b | _ => f_trunc F b end))
          | _ => fail EType
          end
      | Nil => fail EMissing
      | Cons _ _ => fail EMissing
      | _ => fail EType
      end
  | PIf =>
      match args with
      | Cons c (Cons thn els) =>
          v <- ev c ;; if truthy v then ev thn else eval_progn els
      | Cons _ Nil => fail EMissing
      | Cons _ _ => fail EType
      | _ => fail EMissing
      end
  | PCond => cond_l (items args)
  | PSetq =>
      match args with
      | Nil => ret Nil
      | Cons name (Cons v Nil) => value <- ev v ;; _ <- sym_set name value ;; ret value
      | _ => fail EType
      end
  | PSet =>
      match args with
      | Nil => ret Nil
      | Cons name (Cons v Nil) =>
          n <- ev name ;; value <- ev v ;; _ <- sym_set n value ;; ret value
      | _ => fail EType
      end
  | PCons =>
      match args with
      | Nil => ret (Cons Nil Nil)
      | Cons a (Cons b Nil) => x <- ev a ;; y <- ev b ;; ret (Cons x y)
      | _ => fail EType
      end
  | PDolist =>
      spec <- lift (car_of args) ;; body <- lift (cdr_of args) ;;
      var <- lift (car_of spec) ;; r1 <- lift (cdr_of spec) ;;
      lst <- lift (car_of r1) ;; r2 <- lift (cdr_of r1) ;;
      '(result, r3) <- (if null r2 then ret (Nil, Nil)
                        else a <- lift (car_of r2) ;; d <- lift (cdr_of r2) ;; ret (a, d)) ;;
      if negb (null r3) then fail EType
      else
        l <- ev lst ;;
        c <- lift (car_of l) ;;
        _ <- sym_set_scope var c ;;
        catch (_ <- dolist_loop (S (List.length (items l))) var l body ;;
               _ <- sym_set_unchecked var Nil ;; ev result)
              (fun r => _ <- sym_unset var ;; lift r)
  | PDotimes =>
      spec <- lift (car_of args) ;; body <- lift (cdr_of args) ;;
      var <- lift (car_of spec) ;; r1 <- lift (cdr_of spec) ;;
      cnt <- lift (car_of r1) ;; r2 <- lift (cdr_of r1) ;;
      '(result, r3) <- (if null r2 then ret (Nil, Nil)
                        else a <- lift (car_of r2) ;; d <- lift (cdr_of r2) ;; ret (a, d)) ;;
      if negb (null r3) then fail EType
      else
        cv <- ev cnt ;;
        n <- lift (as_int cv) ;;
        _ <- sym_set_scope var (Int 0) ;;
        catch (_ <- rec (TDotimes var 0 n body) ;;
               _ <- sym_set_unchecked var (Int n) ;; ev result)
              (fun r => _ <- sym_unset var ;; lift r)
  | PList => vs <- eval_each (items args) ;; ret (of_list vs Nil)
  | PConsp => predicate args (fun v => ret (consp v))
  | PListp => predicate args (fun v => ret (listp v))
  | PFloatp => predicate args (fun v => ret (floatp v))
  | PIntegerp => predicate args (fun v => ret (integerp v))
  | PNumberp => predicate args (fun v => ret (numberp v))
  | PStringp => predicate args (fun v => ret (stringp v))
  | PSymbolp => predicate args (fun v => ret (symbolp v))
  | PBoundp => predicate args sym_boundp
  | PKeywordp => predicate args (fun v => ret (keywordp v))
  | PStrLt | PStrLessp => string_cmp args text_ltb
  | PStrGt | PStrGreaterp => string_cmp args (fun a b => text_ltb b a)
  | PStrEq | PStrEqual => string_cmp args text_eqb
  | PLoad =>
      '(f, _) <- req args ;; name <- lift (to_str f) ;;
      body <- find_file name ;; load_text body
  | PIntern =>
      '(n, _) <- req args ;; name <- lift (to_str n) ;;
      _ <- set_flags name ;; ret (Sym name)
  | PMakeSymbol =>
      '(n, _) <- req args ;; name <- lift (to_str n) ;;
      id <- fresh_id ;; ret (USym name id)
  | PGensym =>
      '(pre, _) <- opt args ;;
      prefix <- match pre with
                | Some (Str s) => ret s
                | Some _ => fail EType
                | None => ret (s2t "g")
                end ;;
      let counter := S_ "gensym-counter" in
      b <- sym_boundp counter ;;
      count <- (if b then v <- sym_get counter ;;
                          ret (match v with Int z => z | _ => 0 end)
                else ret 0) ;;
      if in_i64 (count + 1) then
        _ <- sym_set counter (Int (count + 1)) ;;
        id <- fresh_id ;; ret (USym (prefix ++ print_Z count) id)
      else fail ERange
  | PExpt =>
      '(b, r1) <- req args ;; '(e, _) <- req r1 ;;
      x <- lift (try_float b) ;; y <- lift (try_float e) ;;
      ret (Flt (f_pow F x y))
  | PConcat => r <- arg_rest true args ;; s <- lift (concat_l (items r) []) ;; ret (Str s)
  | PFormat =>
      '(inp, r1) <- req args ;; rest <- arg_rest true r1 ;;
      s <- lift (to_str inp) ;;
      out <- lift (format_loop s (items rest) []) ;; ret (Str out)
  | PPrint | PPrinc => '(v, _) <- req args ;; ret v
  | PPrin1ToString => '(v, _) <- req args ;; ret (Str (princ F v))
  | PNull | PNot => '(v, _) <- req args ;; ret (of_bool (null v))
  | PEval => '(v, _) <- req args ;; ev v
  | PMacroexpand => '(v, _) <- req args ;; expand v
  | PAppend =>
      '(first, r1) <- req args ;; rest <- arg_rest true r1 ;;
      lift (append_all first (items rest))
  | PMapcar | PSeqMap =>
      '(f, r1) <- req args ;; '(seq, _) <- req r1 ;;
      fn <- ev f ;; vs <- map_l fn (items seq) ;; ret (of_list vs Nil)
  | PAssoc =>
      '(k, r1) <- req args ;; '(al, r2) <- req r1 ;; '(tf, _) <- opt r2 ;;
      assoc k al tf
  | PAlistGet =>
      '(k, r1) <- req args ;; '(al, r2) <- req r1 ;; '(dflt, r3) <- opt r2 ;;
      '(_, r4) <- opt r3 ;; '(tf, _) <- opt r4 ;;
      x <- assoc k al tf ;;
      if truthy x then lift (cdr_of x)
      else ret (match dflt with Some d => d | None => Nil end)
  | PPlistGet =>
      '(pl, r1) <- req args ;; '(prop, _) <- req r1 ;;
      lift (plist_get pl prop)
  | PXor =>
      '(a, r1) <- req args ;; '(b, _) <- req r1 ;;
      ret (if null a then b else if null b then a else Nil)
  | PEqual => '(a, r1) <- req args ;; '(b, _) <- req r1 ;; ret (of_bool (equal a b))
  | PEq => '(a, r1) <- req args ;; '(b, _) <- req r1 ;;
           match eq_model a b with
           | Some r => ret (of_bool r)
           | None => fail ENotImpl
           end
  | PMakeHashTable => id <- fresh_id ;; _ <- ht_store id [] ;; ret (Any (Some id))
  | PGethash =>
      '(k, r1) <- req args ;; '(tb, _) <- req r1 ;;
      '(_, l) <- ht_get_tab tb ;; lift (ht_find l k)
  | PPuthash =>
      '(k, r1) <- req args ;; '(v, r2) <- req r1 ;; '(tb, _) <- req r2 ;;
      '(h, l) <- ht_get_tab tb ;;
      l' <- lift (ht_put l k v) ;; _ <- ht_store h l' ;; ret Nil
  | PNth =>
      '(n, r1) <- req args ;; nz <- lift (as_int n) ;; '(l, _) <- req r1 ;;
      lift (nth nz l)
  | PNthcdr =>
      '(n, r1) <- req args ;; nz <- lift (as_int n) ;; '(l, _) <- req r1 ;;
      lift (nthcdr nz l)
  | PLast =>
      '(l, r1) <- req args ;; '(n, _) <- opt r1 ;;
      match n with
      | None => lift (last l None)
      | Some nv => nz <- lift (as_int nv) ;; lift (last l (Some nz))
      end
  | PCxr path => '(v, _) <- req args ;; lift (cxr path v)
  | PLength => '(l, _) <- req args ;; ret (Int (length_z l))
  | PSeqReduce =>
      '(f, r1) <- req args ;; '(seq, r2) <- req r1 ;; '(init, _) <- req r2 ;;
      fn <- ev f ;; reduce_l fn (items seq) init
  | PSeqFilter =>
      '(f, r1) <- req args ;; '(seq, _) <- req r1 ;;
      fn <- ev f ;; vs <- filter_l fn (items seq) ;; ret (of_list vs Nil)
  | PSeqFind =>
      '(f, r1) <- req args ;; '(seq, r2) <- req r1 ;; '(dflt, _) <- opt r2 ;;
      fn <- ev f ;; r <- find_l fn (items seq) ;;
      ret (match r with Some x => x
                   | None => match dflt with Some d => d | None => Nil end end)
  | PSort =>
      '(seq, r1) <- req args ;; '(pr, _) <- req r1 ;;
      pred <- ev pr ;;
      let l := items seq in
      vs <- msort (S (List.length l)) pred l ;; ret (of_list vs Nil)
  | P1Plus =>
      '(n, _) <- req args ;;
      match n with
      | Int z => lift (checked (z + 1))
      | Flt b => ret (Flt (f_add F b (f_of_int F 1)))
      | _ => fail EType
      end
  | P1Minus =>
      '(n, _) <- req args ;;
      match n with
      | Int z => lift (checked (z - 1))
      | Flt b => ret (Flt (f_sub F b (f_of_int F 1)))
      | _ => fail EType
      end
  | PMod =>
      '(a, r1) <- req args ;; '(b, _) <- req r1 ;;
      match a, b with
      | Int _, Int 0 => fail EUndef
      | _, _ => lift (binop OMod a b)
      end
  | PWhile => '(c, rest) <- arg_req false args ;; rec (TWhile c rest Nil)
  | PLet | PLetStar => do_let args
  | PProgn => eval_progn args
  | PDefun =>
      '(name, r1) <- arg_req false args ;; '(params, rest) <- arg_req false r1 ;;
      body <- lift (fn_body rest) ;;
      mb <- lift (mark_tail (S (sx_size body)) name body) ;;
      _ <- lift (parse_params params) ;;
      _ <- sym_set_global name (Lam params mb) ;;
      ret Nil
  | PLambda =>
      '(params, rest) <- arg_req false args ;;
      body <- lift (fn_body rest) ;;
      ps <- lift (parse_params params) ;;
      '(b, _) <- capture (map p_sym ps) [] body ;;
      ret (Lam params b)
  | PDefmacro =>
      '(name, r1) <- arg_req false args ;; '(params, rest) <- arg_req false r1 ;;
      body <- lift (fn_body rest) ;;
      _ <- lift (parse_params params) ;;
      _ <- sym_set_scope name (Mac params body) ;;
      _ <- note_defmacro name ;;
      ret Nil
  | PFuncall =>
      '(name, rest) <- arg_req false args ;;
      n1 <- ev name ;; n2 <- ev n1 ;; call true n2 rest
  | PAnd => and_l (items args) T
  | POr => or_l (items args)
  | PDeclare => ret Nil
  | PTick =>
      match args with
      | Cons id (Cons e Nil) => v <- ev e ;; do_tick id v
      | _ => fail EType
      end
  | PProbe => ret Nil
  | PHostBox => ret (Any None)
  | PHostId => '(v, _) <- req args ;; ret v
  | PHostOpt =>
      (* fn host_opt(a: i64, b: Option<i64>, rest: TulispObject) *)
      '(a, r1) <- req args ;; x <- lift (as_int a) ;;
      '(b, r2) <- opt r1 ;;
      y <- match b with
           | None => ret Nil
           | Some bv => z <- lift (as_int bv) ;; ret (Int z)
           end ;;
      rest <- arg_rest true r2 ;;
      ret (of_list [Int x; y; rest] Nil)
  | PHostConv =>
      (* fn host_conv(s: String, f: f64, flag: bool) -> String *)
      '(a, r1) <- req args ;; s <- lift (to_str a) ;;
      '(b, r2) <- req r1 ;; f <- lift (try_float b) ;;
      '(c, _) <- req r2 ;;
      ret (Str (s ++ [124%N] ++ print_Z f ++ [124%N] ++ (if truthy c then s2t "true" else s2t "false")))
  | PHostAdd =>
      '(a, r1) <- req args ;; x <- lift (as_int a) ;;
      '(b, _) <- req r1 ;; y <- lift (as_int b) ;;
      lift (checked (x + y))
  end.

(* ---- one step of the interpreter ---------------------------------- *)
Definition step (t : task) : M sx :=
  match t with
  | TEval x =>
      match x with
      | Cons name args =>
          f <- ev name ;; call true f args
      | Sym _ | USym _ _ => if is_constant x then ret x else sym_get x
      | Cell _ _ _ => sym_get x
      | Quote v | Sharp v => ret v
      | Bq v => eval_bq v
      | Unq _ | Splice _ => fail EType
      | _ => ret x
      end
  | TCall evalp fn args =>
      match fn with
      | Prim p =>
          if evalp then apply_prim p args
          else apply_prim p (of_list (map quote_arg (items args)) Nil)
      | Lam ps body =>
          r <- eval_function evalp ps body args ;;
          rec (TTramp ps body r)
      | PMac _ | Mac _ _ =>
          x <- expand (Cons fn args) ;; ev x
      | _ => fail EUndef
      end
  | TTramp ps body r =>
      if is_bounced r then
        a <- lift (cdr_of r) ;;
        r' <- eval_function false ps body a ;;
        rec (TTramp ps body r')
      else ret r
  | TWhile c body last =>
      v <- ev c ;;
      if null v then ret Nil
      else r <- eval_progn body ;; rec (TWhile c body r)
  | TDotimes var i n body =>
      if i <? n then
        _ <- sym_set_unchecked var (Int i) ;;
        _ <- eval_progn body ;;
        rec (TDotimes var (i + 1) n body)
      else ret Nil
  | TExpand inp =>
      match inp with
      | Cons head args =>
          value <- catch (match key_of head with
                          | Some _ => sym_get head
                          | None => fail EType
                          end)
                         (fun r => match r with
                                   | Ok v => ret v
                                   | Err _ => ret head
                                   | Panic n => panic n | Fuel => lift Fuel end) ;;
          x <- match value with
               | PMac m => e <- apply_pmac m args ;; expand e
               | Mac ps body => e <- eval_function false ps body args ;; expand e
               | _ => ret inp
               end ;;
          match x with
          | Cons a d =>
              (fix spine (a d : sx) (acc : list sx) {struct d} : M sx :=
                 a' <- expand a ;;
                 match d with
                 | Nil => ret (of_list (acc ++ [a']) Nil)
                 | Cons a2 d2 => spine a2 d2 (acc ++ [a'])
                 | o => ret (of_list (acc ++ [a']) o)
                 end) a d []
          | _ => ret x
          end
      | _ => ret inp
      end
  end.

End Step.

(* ------------------------------------------------------------------ *)
(* The read-time pass of parse_list, parsing of a text, and the driver  *)

Definition n_defun := s2t "defun". Definition n_defmacro := s2t "defmacro".

Section Top.
Variable rec : task -> M sx.

(* walk in the order in which parse_list completes lists *)
Fixpoint readtime (x : ax) : M sx :=
  match x with
  | AList xs tl _ =>
      elems <- (fix go (l : list ax) : M (list sx) :=
                  match l with
                  | [] => ret []
                  | a :: r => v <- readtime a ;; vs <- go r ;; ret (v :: vs)
                  end) xs ;;
      tlv <- match tl with
             | None => ret Nil
             | Some t => v <- readtime t ;;
                         ret (match elems, v with
                              | [], Nil => Nil
                              | [], Cons _ _ => v
                              | [], _ => Cons v Nil
                              | _, _ => v
                              end)
             end ;;
      let inner := of_list elems tlv in
      match inner with
      | Cons (Sym n) _ =>
          if text_eqb n n_defun || text_eqb n n_defmacro then
            e <- rec (TExpand inner) ;; _ <- rec (TEval e) ;; ret e
          else ret inner
      | _ => ret inner
      end
  | AQuote v _ => r <- readtime v ;; ret (Quote r)
  | ABq v _ => r <- readtime v ;; ret (Bq r)
  | AUnq v _ => r <- readtime v ;; ret (Unq r)
  | ASplice v _ => r <- readtime v ;; ret (Splice r)
  | o => ret (strip o)
  end.

Fixpoint readtime_all (l : list ax) : M (list sx) :=
  match l with
  | [] => ret []
  | a :: r => v <- readtime a ;; vs <- readtime_all r ;; ret (v :: vs)
  end.

(* parse(ctx, file_id, text): read, read-time definitions, final expansion *)
Definition parse_body (t : text) : M sx :=
  fun s =>
    match read_ax F (flags s) t with
    | Ok forms =>
        (forms' <- readtime_all forms ;;
         rec (TExpand (of_list forms' Nil))) s
    | Err e => (Err e, s)
    | Panic n => (Panic n, s)
    | Fuel => (Fuel, s)
    end.

(* eval_string / eval_file after the file name is resolved *)
Definition run_body (t : text) : M sx :=
  out <- parse_body t ;; eval_progn rec out.

End Top.

Fixpoint run (fuel : nat) (t : task) : M sx :=
  match fuel with
  | O => fun s => (Fuel, s)
  | S f => step (run f) (run_body (run f)) t
  end.

Definition eval_string (fuel : nat) (t : text) : M sx := run_body (run fuel) t.

Definition parse_string (fuel : nat) (t : text) : M sx := parse_body (run fuel) t.

Definition eval_file (fuel : nat) (name : text) : M sx :=
  body <- find_file name ;; run_body (run fuel) body.

End WithFloat.
