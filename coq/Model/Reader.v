(* The reader: tokenizer (character loop with line/column bookkeeping)   *)
(* and recursive-descent parser of src/parse.rs.                         *)
From TL Require Import Base.Base.

Definition c_nl : cp := 10%N.   Definition c_tab : cp := 9%N.
Definition c_cr : cp := 13%N.   Definition c_sp : cp := 32%N.
Definition c_dq : cp := 34%N.   Definition c_sharp : cp := 35%N.
Definition c_quote : cp := 39%N. Definition c_lp : cp := 40%N.
Definition c_rp : cp := 41%N.   Definition c_comma : cp := 44%N.
Definition c_minus : cp := 45%N. Definition c_dot : cp := 46%N.
Definition c_0 : cp := 48%N.    Definition c_9 : cp := 57%N.
Definition c_semi : cp := 59%N. Definition c_at : cp := 64%N.
Definition c_bslash : cp := 92%N. Definition c_btick : cp := 96%N.
Definition c_n : cp := 110%N.   Definition c_t : cp := 116%N.

Record span := { s_l : N; s_c : N; e_l : N; e_c : N }.

Inductive tok :=
| TOpen | TClose | TQuote | TBacktick | TDot | TComma | TSplice | TSharpQuote
| TStr (s : text) | TInt (z : Z) | TFlt (b : Z) | TIdent (s : text)
| TErr.

(* position after consuming character [c] at (line, pos) *)
Definition advance (c : cp) (line pos : N) : N * N :=
  if N.eqb c c_nl then (N.succ line, 1%N) else (line, N.succ pos).

(* usize subtraction: a panic site in debug builds when it underflows   *)
Definition usub (site : N) (a b : N) : res N :=
  if N.ltb a b then Panic site else Ok (a - b)%N.

Definition is_digit (c : cp) : bool := N.leb c_0 c && N.leb c c_9.

(* ---- read_string: called with the opening quote already consumed ---- *)
(* returns the token, the rest and the position; None = the iterator    *)
(* ended (the `?` on next_char after a backslash at end of input)       *)
Fixpoint read_string (cs : text) (line pos : N) (sl sc : N) (acc : text)
  : res (option (tok * span * text * N * N)) :=
  match cs with
  | [] => Ok (Some (TErr, Build_span sl sc line pos, [], line, pos))
  | c :: r =>
      let '(l1, p1) := advance c line pos in
      if N.eqb c c_bslash then
        match r with
        | [] => Ok None
        | e :: r2 =>
            let '(l2, p2) := advance e l1 p1 in
            if N.eqb e c_n then read_string r2 l2 p2 sl sc (c_nl :: acc)
            else if N.eqb e c_t then read_string r2 l2 p2 sl sc (c_tab :: acc)
            else if N.eqb e c_bslash then read_string r2 l2 p2 sl sc (c_bslash :: acc)
            else if N.eqb e c_dq then read_string r2 l2 p2 sl sc (c_dq :: acc)
            else
              match usub 1 p2 1 with
              | Ok p2m => Ok (Some (TErr, Build_span l2 p2m l2 p2, r2, l2, p2))
              | Panic s => Panic s
              | Err e0 => Err e0
              | Fuel => Fuel
              end
        end
      else if N.eqb c c_dq then
        Ok (Some (TStr (rev acc), Build_span sl sc l1 p1, r, l1, p1))
      else read_string r l1 p1 sl sc (c :: acc)
  end.

(* ---- read_num_ident ------------------------------------------------- *)
Definition ident_stop (c : cp) : bool :=
  N.eqb c c_rp || N.eqb c c_sp || N.eqb c c_tab || N.eqb c c_nl || N.eqb c c_cr.

(* scans the token; returns (chars, is_int, is_float, rest, line, pos)  *)
Fixpoint scan_ident (cs : text) (line pos : N) (first is_int is_float : bool)
         (acc : text) : text * bool * bool * text * N * N :=
  match cs with
  | [] => (rev acc, is_int, is_float, [], line, pos)
  | c :: r =>
      if ident_stop c then (rev acc, is_int, is_float, cs, line, pos)
      else
        let '(l1, p1) := advance c line pos in
        if N.eqb c c_minus then
          if first then scan_ident r l1 p1 false is_int is_float (c :: acc)
          else scan_ident r l1 p1 false false false (c :: acc)
        else if is_digit c then scan_ident r l1 p1 false is_int is_float (c :: acc)
        else if N.eqb c c_dot then
          if is_int && negb is_float then scan_ident r l1 p1 false false true (c :: acc)
          else if is_float then scan_ident r l1 p1 false is_int false (c :: acc)
          else scan_ident r l1 p1 false is_int is_float (c :: acc)
        else scan_ident r l1 p1 false false false (c :: acc)
  end.

Fixpoint digits_val (cs : text) (acc : Z) : Z :=
  match cs with
  | [] => acc
  | c :: r => digits_val r (acc * 10 + Z.of_N (c - c_0))
  end.

(* str::parse::<i64> on a string of the shape -?d* produced by the scan *)
Definition parse_i64 (s : text) : option Z :=
  let '(neg, ds) := match s with
                    | c :: r => if N.eqb c c_minus then (true, r) else (false, s)
                    | [] => (false, s)
                    end in
  match ds with
  | [] => None
  | _ => let v := digits_val ds 0 in
         let v := if neg then - v else v in
         if in_i64 v then Some v else None
  end.

Section WithFloat.
Variable F : fops.

Definition read_num_ident (cs : text) (line pos : N)
  : tok * span * text * N * N :=
  let '(out, is_int, is_float, rest, l1, p1) :=
      scan_ident cs line pos true true false [] in
  let sp := Build_span line pos l1 p1 in
  if is_int && negb (text_eqb out [c_minus]) then
    match parse_i64 out with
    | Some v => (TInt v, sp, rest, l1, p1)
    | None => (TErr, sp, rest, l1, p1)
    end
  else if is_float then
    match f_of_dec F out with
    | Some b => (TFlt b, sp, rest, l1, p1)
    | None => (TErr, sp, rest, l1, p1)
    end
  else (TIdent out, sp, rest, l1, p1).

(* skip a comment: consume up to and including the newline; None when   *)
(* the input ends first (the iterator ends)                              *)
Fixpoint skip_comment (cs : text) (line pos : N) : option (text * N * N) :=
  match cs with
  | [] => None
  | c :: r =>
      let '(l1, p1) := advance c line pos in
      if N.eqb c c_nl then Some (r, l1, p1) else skip_comment r l1 p1
  end.

(* one-character tokens: span is (pos-1 .. pos) after consuming *)
Definition tok1 (t : tok) (r : text) (l1 p1 : N)
  : res (option (tok * span * text * N * N)) :=
  match usub 2 p1 1 with
  | Ok pm => Ok (Some (t, Build_span l1 pm l1 p1, r, l1, p1))
  | Panic s => Panic s | Err e => Err e | Fuel => Fuel
  end.

Definition tok2 (t : tok) (r : text) (l1 p1 : N)
  : res (option (tok * span * text * N * N)) :=
  match usub 3 p1 2 with
  | Ok pm => Ok (Some (t, Build_span l1 pm l1 p1, r, l1, p1))
  | Panic s => Panic s | Err e => Err e | Fuel => Fuel
  end.

(* Tokenizer::next *)
Fixpoint next_tok (fuel : nat) (cs : text) (line pos : N)
  : res (option (tok * span * text * N * N)) :=
  match fuel with
  | O => Fuel
  | S fuel' =>
      match cs with
      | [] => Ok None
      | c :: r =>
          let '(l1, p1) := advance c line pos in
          if N.eqb c c_nl || N.eqb c c_sp || N.eqb c c_cr || N.eqb c c_tab then
            next_tok fuel' r l1 p1
          else if N.eqb c c_lp then tok1 TOpen r l1 p1
          else if N.eqb c c_rp then tok1 TClose r l1 p1
          else if N.eqb c c_quote then tok1 TQuote r l1 p1
          else if N.eqb c c_btick then tok1 TBacktick r l1 p1
          else if N.eqb c c_dot then tok1 TDot r l1 p1
          else if N.eqb c c_sharp then
            match r with
            | [] => Ok None
            | c2 :: r2 =>
                if N.eqb c2 c_quote then
                  let '(l2, p2) := advance c2 l1 p1 in tok2 TSharpQuote r2 l2 p2
                else tok1 TErr r l1 p1
            end
          else if N.eqb c c_comma then
            match r with
            | [] => Ok None
            | c2 :: r2 =>
                if N.eqb c2 c_at then
                  let '(l2, p2) := advance c2 l1 p1 in tok2 TSplice r2 l2 p2
                else tok1 TComma r l1 p1
            end
          else if N.eqb c c_dq then read_string r l1 p1 l1 p1 []
          else if N.eqb c c_semi then
            match skip_comment r l1 p1 with
            | None => Ok None
            | Some (r2, l2, p2) => next_tok fuel' r2 l2 p2
            end
          else Ok (Some (read_num_ident cs line pos))
      end
  end.

(* the whole token stream *)
Fixpoint tokenize (fuel : nat) (cs : text) (line pos : N)
  : res (list (tok * span)) :=
  match fuel with
  | O => Fuel
  | S fuel' =>
      match next_tok (S (List.length cs)) cs line pos with
      | Ok None => Ok []
      | Ok (Some (t, sp, r, l, p)) =>
          match tokenize fuel' r l p with
          | Ok ts => Ok ((t, sp) :: ts)
          | Err e => Err e | Panic s => Panic s | Fuel => Fuel
          end
      | Err e => Err e | Panic s => Panic s | Fuel => Fuel
      end
  end.

(* ------------------------------------------------------------------ *)
(* Parser: annotated syntax                                            *)

Inductive ax :=
| ANil (sp : span) | AT (sp : span)
| AInt (z : Z) (sp : span) | AFlt (b : Z) (sp : span)
| AStr (s : text) (sp : span) | ASym (n : text) (sp : span)
| AList (xs : list ax) (tl : option ax) (sp : span)
| AQuote (x : ax) (sp : span) | ABq (x : ax) (sp : span)
| AUnq (x : ax) (sp : span) | ASplice (x : ax) (sp : span).

Definition toks := list (tok * span).

(* obarray flags: whether "t" / "nil" have been interned as symbols *)
Record rflags := { t_interned : bool; nil_interned : bool }.

Definition name_t : text := [c_t].
Definition name_nil : text := [c_n; 105%N; 108%N].

Section Parse.
Variable fl : rflags.

Definition ident_value (s : text) (sp : span) : ax :=
  if text_eqb s name_t && negb (t_interned fl) then AT sp
  else if text_eqb s name_nil && negb (nil_interned fl) then ANil sp
  else ASym s sp.

(* parse_value: None = end of the token stream *)
Fixpoint parse_value (fuel : nat) (ts : toks) : res (option (ax * toks)) :=
  match fuel with
  | O => Fuel
  | S fuel' =>
      match ts with
      | [] => Ok None
      | (t, sp) :: r =>
          let wrap (mk : ax -> span -> ax) :=
              match parse_value fuel' r with
              | Ok (Some (x, r2)) => Ok (Some (mk x sp, r2))
              | Ok None => Err EParse
              | Err e => Err e | Panic s => Panic s | Fuel => Fuel
              end in
          match t with
          | TOpen => 
              match parse_list fuel' r sp [] with
              | Ok (x, r2) => Ok (Some (x, r2))
              | Err e => Err e | Panic s => Panic s | Fuel => Fuel
              end
          | TClose => Err EParse
          | TSharpQuote | TQuote => wrap AQuote
          | TBacktick => wrap ABq
          | TDot => Err EParse
          | TComma => wrap AUnq
          | TSplice => wrap ASplice
          | TStr s => Ok (Some (AStr s sp, r))
          | TInt z => Ok (Some (AInt z sp, r))
          | TFlt b => Ok (Some (AFlt b sp, r))
          | TIdent s => Ok (Some (ident_value s sp, r))
          | TErr => Err EParse
          end
      end
  end
with parse_list (fuel : nat) (ts : toks) (start : span) (acc : list ax)
  : res (ax * toks) :=
  match fuel with
  | O => Fuel
  | S fuel' =>
      match ts with
      | [] => Err EParse                              (* Unclosed list *)
      | (TClose, esp) :: r =>
          Ok (AList (rev acc) None
                    (Build_span (s_l start) (s_c start) (e_l esp) (e_c esp)), r)
      | (TDot, _) :: r =>
          match parse_value fuel' r with
          | Ok (Some (x, r2)) =>
              match r2 with
              | (TClose, esp) :: r3 =>
                  Ok (AList (rev acc) (Some x)
                        (Build_span (s_l start) (s_c start) (e_l esp) (e_c esp)), r3)
              | _ => Err EParse
              end
          | Ok None => Err EParse
          | Err e => Err e | Panic s => Panic s | Fuel => Fuel
          end
      | _ =>
          match parse_value fuel' ts with
          | Ok (Some (x, r2)) => parse_list fuel' r2 start (x :: acc)
          | Ok None => Panic 10%N            (* parse_value()?.unwrap() *)
          | Err e => Err e | Panic s => Panic s | Fuel => Fuel
          end
      end
  end.

Fixpoint parse_all (fuel : nat) (ts : toks) (acc : list ax) : res (list ax) :=
  match fuel with
  | O => Fuel
  | S fuel' =>
      match parse_value (S (2 * List.length ts)) ts with
      | Ok None => Ok (rev acc)
      | Ok (Some (x, r)) => parse_all fuel' r (x :: acc)
      | Err e => Err e | Panic s => Panic s | Fuel => Fuel
      end
  end.

Definition read_ax (t : text) : res (list ax) :=
  match tokenize (S (List.length t)) t 1%N 1%N with
  | Ok ts => parse_all (S (List.length ts)) ts []
  | Err e => Err e | Panic s => Panic s | Fuel => Fuel
  end.

End Parse.
End WithFloat.

(* ------------------------------------------------------------------ *)
(* Erasing annotations.  `( . x)` reads as x when x is a list and as    *)
(* (x) otherwise: TulispValue::append on nil adopts a list argument.    *)

Fixpoint strip (x : ax) : sx :=
  match x with
  | ANil _ => Nil | AT _ => T
  | AInt z _ => Int z | AFlt b _ => Flt b
  | AStr s _ => Str s | ASym n _ => Sym n
  | AList xs tl _ =>
      let tlv := match tl with
                 | None => Nil
                 | Some t => match xs, strip t with
                             | [], Nil => Nil
                             | [], (Cons _ _ as v) => v
                             | [], v => Cons v Nil
                             | _, v => v
                             end
                 end in
      (fix go (l : list ax) : sx :=
         match l with [] => tlv | a :: r => Cons (strip a) (go r) end) xs
  | AQuote x _ => Quote (strip x)
  | ABq x _ => Bq (strip x)
  | AUnq x _ => Unq (strip x)
  | ASplice x _ => Splice (strip x)
  end.

Definition ax_span (x : ax) : span :=
  match x with
  | ANil sp | AT sp | AInt _ sp | AFlt _ sp | AStr _ sp | ASym _ sp
  | AList _ _ sp | AQuote _ sp | ABq _ sp | AUnq _ sp | ASplice _ sp => sp
  end.
