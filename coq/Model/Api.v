(* The object-level embedding API (src/object.rs, src/cons.rs, src/value.rs, *)
(* src/lists.rs, src/macros.rs): objects are mutable cells with identity.    *)
From TL Require Import Base.Base Model.Reader Model.Printer.

Inductive hval :=
| HNil | HT | HInt (z : Z) | HFlt (b : Z) | HStr (s : text) | HSym (n : text)
| HCons (car cdr : positive).

Record heap := { cells : PositiveMap.t hval; hnext : positive }.

Definition hget (h : heap) (i : positive) : hval :=
  match PositiveMap.find i (cells h) with Some v => v | None => HNil end.
Definition hset (h : heap) (i : positive) (v : hval) : heap :=
  {| cells := PositiveMap.add i v (cells h); hnext := hnext h |}.
Definition halloc (h : heap) (v : hval) : heap * positive :=
  ({| cells := PositiveMap.add (hnext h) v (cells h); hnext := Pos.succ (hnext h) |}, hnext h).

Definition h_consp (h : heap) (i : positive) : bool :=
  match hget h i with HCons _ _ => true | _ => false end.
Definition h_null (h : heap) (i : positive) : bool :=
  match hget h i with HNil => true | _ => false end.

(* car / cdr: nil yields a *new* nil object *)
Definition h_car (h : heap) (i : positive) : res (heap * positive) :=
  match hget h i with
  | HCons a _ => Ok (h, a)
  | HNil => Ok (halloc h HNil)
  | _ => Err EType
  end.
Definition h_cdr (h : heap) (i : positive) : res (heap * positive) :=
  match hget h i with
  | HCons _ d => Ok (h, d)
  | HNil => Ok (halloc h HNil)
  | _ => Err EType
  end.

(* the object at the end of the cdr chain starting at [i] *)
Fixpoint walk_last (fuel : nat) (h : heap) (i : positive) (prev : option positive)
  : res (positive * option positive) :=
  match fuel with
  | O => Fuel
  | S f => match hget h i with
           | HCons _ d => walk_last f h d (Some i)
           | _ => Ok (i, prev)
           end
  end.

Definition hsize (h : heap) : nat := S (Pos.to_nat (hnext h)).

(* TulispObject::push *)
Definition h_push (h : heap) (a v : positive) : res heap :=
  match hget h a with
  | HCons _ d =>
      match walk_last (hsize h) h d None with
      | Ok (last, _) =>
          if h_null h last then
            let '(h1, n) := halloc h HNil in Ok (hset h1 last (HCons v n))
          else Err EType
      | Err e => Err e | Panic n => Panic n | Fuel => Fuel
      end
  | HNil => let '(h1, n) := halloc h HNil in Ok (hset h1 a (HCons v n))
  | _ => Err EType
  end.

(* deep_copy: new spine; elements that are conses get a new head cell that *)
(* shares car and cdr; other elements are shared; symbols are shared       *)
Fixpoint copy_spine (fuel : nat) (h : heap) (i : positive) : res (heap * positive) :=
  match fuel with
  | O => Fuel
  | S f =>
      match hget h i with
      | HCons a d =>
          let '(h1, a') := match hget h a with
                           | HCons x y => halloc h (HCons x y)
                           | _ => (h, a)
                           end in
          match hget h1 d with
          | HCons _ _ =>
              match copy_spine f h1 d with
              | Ok (h2, d') => Ok (halloc h2 (HCons a' d'))
              | e => e
              end
          | HNil => let '(h2, n) := halloc h1 HNil in Ok (halloc h2 (HCons a' n))
          | HSym _ => Ok (halloc h1 (HCons a' d))      (* improper tail: a symbol is shared *)
          | tv => let '(h2, t') := halloc h1 tv in Ok (halloc h2 (HCons a' t'))
          end
      | _ => Ok (h, i)
      end
  end.

Definition h_deep_copy (h : heap) (i : positive) : res (heap * positive) :=
  match hget h i with
  | HSym _ => Ok (h, i)
  | HCons _ _ => copy_spine (hsize h) h i
  | v => Ok (halloc h v)
  end.

(* TulispObject::append (as repaired) *)
Definition h_append (h : heap) (a v : positive) : res heap :=
  match hget h a with
  | HCons car0 d =>
      match walk_last (hsize h) h d None with
      | Ok (last, lbo) =>
          if h_null h last then
            match h_deep_copy h v with
            | Ok (h1, c) =>
                match lbo with
                | Some l => match hget h1 l with
                            | HCons lc _ => Ok (hset h1 l (HCons lc c))
                            | _ => Err EType
                            end
                | None => Ok (hset h1 a (HCons car0 c))
                end
            | Err e => Err e | Panic n => Panic n | Fuel => Fuel
            end
          else Err EType
      | Err e => Err e | Panic n => Panic n | Fuel => Fuel
      end
  | HNil =>
      if h_null h v then Ok h
      else match h_deep_copy h v with
           | Ok (h1, c) =>
               match hget h1 c with
               | HCons x y => Ok (hset h1 a (HCons x y))
               | _ => let '(h2, n) := halloc h1 HNil in Ok (hset h2 a (HCons c n))
               end
           | Err e => Err e | Panic n => Panic n | Fuel => Fuel
           end
  | _ => Err EType
  end.

(* abstraction of an object to a value (depth-bounded by fuel: car cycles) *)
Fixpoint abs (fuel : nat) (h : heap) (i : positive) : option sx :=
  match fuel with
  | O => None
  | S f =>
      match hget h i with
      | HNil => Some Nil | HT => Some T | HInt z => Some (Int z) | HFlt b => Some (Flt b)
      | HStr s => Some (Str s) | HSym n => Some (Sym n)
      | HCons a d => match abs f h a, abs f h d with
                     | Some x, Some y => Some (Cons x y)
                     | _, _ => None
                     end
      end
  end.

(* is cell [target] reachable from [i]? (to keep generated structures acyclic) *)
Fixpoint reaches (fuel : nat) (h : heap) (i target : positive) : bool :=
  Pos.eqb i target ||
  match fuel with
  | O => true
  | S f => match hget h i with
           | HCons a d => reaches f h a target || reaches f h d target
           | _ => false
           end
  end.

(* ------------------------------------------------------------------ *)
(* Symbol bindings as stacks of object handles                         *)
Record sbind := { sb_global : bool; sb_items : list positive }.

Record world := {
  hp : heap;
  regs : PositiveMap.t positive;       (* register -> object *)
  syms : PositiveMap.t positive;       (* interned name key -> object *)
  binds : PositiveMap.t sbind          (* symbol object -> binding stack *)
}.

Inductive op :=
| ONil (d : positive) | OTrue (d : positive) | OInt (z : Z) (d : positive)
| OFlt (b : Z) (d : positive) | OStr (s : text) (d : positive) | OSym (n : text) (d : positive)
| OCons (a b d : positive) | OCopy (a d : positive) | OCar (a d : positive) | OCdr (a d : positive)
| OPush (a b : positive) | OAppend (a b : positive) | ODeep (a d : positive)
| OShow (a : positive) | OEq (a b : positive) | OEqual (a b : positive)
| OSet (s a : positive) | OSetScope (s a : positive) | OUnset (s : positive)
| OGet (s d : positive) | OBoundp (s : positive)
| OToInt (a : positive) | OToFlt (a : positive) | OToStr (a : positive) | OToBool (a : positive)
| OIter (a : positive) | OList3 (a b c d : positive).

Inductive out :=
| RUnit | RErr | RBool (b : bool) | RVal (v : sx) | RInt (z : Z) | RFlt (b : Z) | RStr (s : text)
| RVals (l : list sx) | RUnmodelled.

Definition reg (w : world) (r : positive) : positive :=
  match PositiveMap.find r (regs w) with Some i => i | None => xH end.
Definition set_reg (w : world) (r i : positive) (h : heap) : world :=
  {| hp := h; regs := PositiveMap.add r i (regs w); syms := syms w; binds := binds w |}.
Definition set_heap (w : world) (h : heap) : world :=
  {| hp := h; regs := regs w; syms := syms w; binds := binds w |}.

Definition is_const_sym (h : heap) (i : positive) : bool :=
  match hget h i with HSym n => name_constant n | _ => false end.
Definition is_sym (h : heap) (i : positive) : bool :=
  match hget h i with HSym _ => true | _ => false end.

Definition get_bind (w : world) (s : positive) : sbind :=
  match PositiveMap.find s (binds w) with Some b => b | None => {| sb_global := false; sb_items := [] |} end.
Definition put_bind (w : world) (s : positive) (b : sbind) : world :=
  {| hp := hp w; regs := regs w; syms := syms w; binds := PositiveMap.add s b (binds w) |}.

Definition depth_bound (h : heap) : nat := hsize h.

Definition h_equal (h : heap) (a b : positive) : option bool :=
  match abs (depth_bound h) h a, abs (depth_bound h) h b with
  | Some x, Some y =>
      (* structural; numbers by value across int/float is decided by the float oracle: not needed here *)
      Some (match x, y with
            | _, _ => (fix eqb (u v : sx) : bool :=
                         match u, v with
                         | Nil, Nil | T, T => true
                         | Int p, Int q => Z.eqb p q
                         | Flt p, Flt q => Z.eqb p q
                         | Str p, Str q => text_eqb p q
                         | Sym p, Sym q => text_eqb p q
                         | Cons a1 d1, Cons a2 d2 => eqb a1 a2 && eqb d1 d2
                         | _, _ => false
                         end) x y
            end)
  | _, _ => None
  end.

Fixpoint h_items (fuel : nat) (h : heap) (i : positive) : list positive :=
  match fuel with
  | O => []
  | S f => match hget h i with
           | HCons a d => a :: h_items f h d
           | _ => []
           end
  end.

Definition step_op (w : world) (o : op) : world * out :=
  let h := hp w in
  let mk (v : hval) (d : positive) := let '(h1, i) := halloc h v in (set_reg w d i h1, RUnit) in
  match o with
  | ONil d => mk HNil d
  | OTrue d => mk HT d
  | OInt z d => mk (HInt z) d
  | OFlt b d => mk (HFlt b) d
  | OStr s d => mk (HStr s) d
  | OSym n d =>
      match PositiveMap.find (key_of_name n) (syms w) with
      | Some i => (set_reg w d i h, RUnit)
      | None => let '(h1, i) := halloc h (HSym n) in
                ({| hp := h1; regs := PositiveMap.add d i (regs w);
                    syms := PositiveMap.add (key_of_name n) i (syms w); binds := binds w |}, RUnit)
      end
  | OCons a b d => mk (HCons (reg w a) (reg w b)) d
  | OCopy a d => (set_reg w d (reg w a) h, RUnit)
  | OCar a d => match h_car h (reg w a) with
                | Ok (h1, i) => (set_reg w d i h1, RUnit)
                | _ => (w, RErr)
                end
  | OCdr a d => match h_cdr h (reg w a) with
                | Ok (h1, i) => (set_reg w d i h1, RUnit)
                | _ => (w, RErr)
                end
  | OPush a b =>
      if reaches (depth_bound h) h (reg w b) (reg w a) then (w, RUnmodelled)
      else match h_push h (reg w a) (reg w b) with
           | Ok h1 => (set_heap w h1, RUnit)
           | _ => (w, RErr)
           end
  | OAppend a b =>
      match h_append h (reg w a) (reg w b) with
      | Ok h1 => (set_heap w h1, RUnit)
      | _ => (w, RErr)
      end
  | ODeep a d => match h_deep_copy h (reg w a) with
                 | Ok (h1, i) => (set_reg w d i h1, RUnit)
                 | _ => (w, RErr)
                 end
  | OShow a => match abs (depth_bound h) h (reg w a) with
               | Some v => (w, RVal v)
               | None => (w, RUnmodelled)
               end
  | OEq a b =>
      let x := reg w a in let y := reg w b in
      (w, RBool (Pos.eqb x y || (h_null h x && h_null h y) ||
                 match hget h x, hget h y with HT, HT => true | _, _ => false end))
  | OEqual a b => match h_equal h (reg w a) (reg w b) with
                  | Some r => (w, RBool r)
                  | None => (w, RUnmodelled)
                  end
  | OSet s a =>
      let i := reg w s in
      if negb (is_sym h i) || is_const_sym h i then (w, RErr)
      else let b := get_bind w i in
           (put_bind w i (match sb_items b with
                          | [] => {| sb_global := true; sb_items := [reg w a] |}
                          | _ :: r => {| sb_global := sb_global b; sb_items := reg w a :: r |}
                          end), RUnit)
  | OSetScope s a =>
      let i := reg w s in
      if negb (is_sym h i) || is_const_sym h i then (w, RErr)
      else let b := get_bind w i in
           (put_bind w i {| sb_global := sb_global b; sb_items := reg w a :: sb_items b |}, RUnit)
  | OUnset s =>
      let i := reg w s in
      if negb (is_sym h i) then (w, RErr)
      else let b := get_bind w i in
           match sb_items b with
           | [] => (w, RErr)
           | _ :: r => (put_bind w i {| sb_global := sb_global b; sb_items := r |}, RUnit)
           end
  | OGet s d =>
      let i := reg w s in
      if negb (is_sym h i) then (w, RErr)
      else if is_const_sym h i then (set_reg w d i h, RUnit)
      else match sb_items (get_bind w i) with
           | v :: _ => (set_reg w d v h, RUnit)
           | [] => (w, RErr)
           end
  | OBoundp s =>
      let i := reg w s in
      (w, RBool (is_sym h i && negb (Nat.eqb (List.length (sb_items (get_bind w i))) 0)))
  | OToInt a => match hget h (reg w a) with HInt z => (w, RInt z) | _ => (w, RErr) end
  | OToFlt a => match hget h (reg w a) with
                | HFlt b => (w, RFlt b)
                | HInt z => (w, RInt z)        (* try_float accepts integers: printed as the integer converted by the driver *)
                | _ => (w, RErr)
                end
  | OToStr a => match hget h (reg w a) with HStr s => (w, RStr s) | _ => (w, RErr) end
  | OToBool a => (w, RBool (negb (h_null h (reg w a))))
  | OIter a =>
      let ids := h_items (depth_bound h) h (reg w a) in
      let vs := map (abs (depth_bound h) h) ids in
      if forallb (fun o => match o with Some _ => true | None => false end) vs
      then (w, RVals (map (fun o => match o with Some v => v | None => Nil end) vs))
      else (w, RUnmodelled)
  | OList3 a b c d =>
      (* list!(,a ,@b ,c) *)
      let '(h0, r) := halloc h HNil in
      match h_push h0 r (reg w a) with
      | Ok h1 =>
          match h_deep_copy h1 (reg w b) with
          | Ok (h2, cp) =>
              match h_append h2 r cp with
              | Ok h3 => match h_push h3 r (reg w c) with
                         | Ok h4 => (set_reg w d r h4, RUnit)
                         | _ => (w, RErr)
                         end
              | _ => (w, RErr)
              end
          | _ => (w, RErr)
          end
      | _ => (w, RErr)
      end
  end.

(* does some cell lie on a cycle?  (cells are numbered below hnext) *)
Definition on_cycle (h : heap) (i : positive) : bool :=
  match hget h i with
  | HCons a d => reaches (hsize h) h a i || reaches (hsize h) h d i
  | _ => false
  end.

Fixpoint any_cycle (n : nat) (h : heap) (i : positive) : bool :=
  match n with
  | O => false
  | S n' => on_cycle h i || any_cycle n' h (Pos.succ i)
  end.

Definition has_cycle (h : heap) : bool := any_cycle (hsize h) h xH.

(* operations that create a structure containing itself are outside the sequence model *)
Definition step_op_acyclic (w : world) (o : op) : world * out :=
  let '(w', r) := step_op w o in
  match o with
  | OPush _ _ | OAppend _ _ | OList3 _ _ _ _ =>
      if has_cycle (hp w') then (w', RUnmodelled) else (w', r)
  | _ => (w', r)
  end.

Definition init_world : world :=
  {| hp := {| cells := PositiveMap.empty _; hnext := 2%positive |};
     regs := PositiveMap.empty _; syms := PositiveMap.empty _; binds := PositiveMap.empty _ |}.

Fixpoint run_ops (w : world) (ops : list op) : list out :=
  match ops with
  | [] => []
  | o :: r => let '(w', x) := step_op_acyclic w o in x :: run_ops w' r
  end.
