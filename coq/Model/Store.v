(* SymbolBindings (src/value.rs) and the interpreter state.               *)
From TL Require Import Base.Base Model.Reader.

Record binding := { has_global : bool; bitems : list sx (* innermost first *) }.

Definition empty_binding := {| has_global := false; bitems := [] |}.

Definition b_set (b : binding) (v : sx) : binding :=
  match bitems b with
  | [] => {| has_global := true; bitems := [v] |}
  | _ :: r => {| has_global := has_global b; bitems := v :: r |}
  end.

Fixpoint replace_last (l : list sx) (v : sx) : list sx :=
  match l with
  | [] => [v]
  | [_] => [v]
  | x :: r => x :: replace_last r v
  end.

Definition b_set_global (b : binding) (v : sx) : binding :=
  {| has_global := true; bitems := replace_last (bitems b) v |}.

Definition b_set_scope (b : binding) (v : sx) : binding :=
  {| has_global := has_global b; bitems := v :: bitems b |}.

Definition b_unset (b : binding) : option binding :=
  match bitems b with
  | [] => None
  | _ :: r => Some {| has_global := has_global b; bitems := r |}
  end.

Definition b_lex_bound (b : binding) : bool :=
  if has_global b then Nat.ltb 1 (List.length (bitems b))
  else negb (Nat.eqb (List.length (bitems b)) 0).

Record st := {
  store : PositiveMap.t binding;
  next_id : positive;
  log : list (Z * text);            (* tick log, most recent first *)
  steps : N;
  fail_at : option N;
  htabs : PositiveMap.t (list (sx * sx));
  flags : rflags;
  files : list (text * text);       (* virtual file system *)
  nfiles : N;                       (* filenames.len() *)
  mlog : list key;                  (* ghost: keys pushed by executed defmacro forms;
                                       never read by the evaluator, only by the theorems *)
  glog : list key                   (* ghost: keys whose global slot was written by defun *)
}.

Definition sget (s : st) (k : key) : binding :=
  match PositiveMap.find k (store s) with Some b => b | None => empty_binding end.

Definition sput (s : st) (k : key) (b : binding) : st :=
  {| store := PositiveMap.add k b (store s); next_id := next_id s; log := log s;
     steps := steps s; fail_at := fail_at s; htabs := htabs s; flags := flags s;
     files := files s; nfiles := nfiles s; mlog := mlog s; glog := glog s |}.

Lemma sget_sput_same s k b : sget (sput s k b) k = b.
Proof. unfold sget, sput; simpl. rewrite PositiveMap.gss. reflexivity. Qed.

Lemma sget_sput_other s k k' b : k <> k' -> sget (sput s k b) k' = sget s k'.
Proof. intros H. unfold sget, sput; simpl. rewrite PositiveMap.gso; auto. Qed.

Definition depth (s : st) (k : key) : nat := List.length (bitems (sget s k)).

(* state monad with outcomes *)
Definition M (A : Type) := st -> res A * st.
Definition ret {A} (a : A) : M A := fun s => (Ok a, s).
Definition fail {A} (e : ekind) : M A := fun s => (Err e, s).
Definition panic {A} (site : N) : M A := fun s => (Panic site, s).
Definition bind {A B} (m : M A) (f : A -> M B) : M B :=
  fun s => match m s with
           | (Ok a, s') => f a s'
           | (Err e, s') => (Err e, s')
           | (Panic n, s') => (Panic n, s')
           | (Fuel, s') => (Fuel, s')
           end.
Notation "x <- m ;; f" := (bind m (fun x => f))
  (at level 61, m at next level, right associativity).
Notation "' pat <- m ;; f" := (bind m (fun x => match x with pat => f end))
  (at level 61, pat pattern, m at next level, right associativity).

Definition lift {A} (r : res A) : M A := fun s => (r, s).

(* run [m]; whatever its outcome, continue with [k] on that outcome *)
(* [Fuel] is not an outcome of tulisp but the model giving up: it is never *)
(* handed to a handler                                                     *)
Definition catch {A B} (m : M A) (k : res A -> M B) : M B :=
  fun s => match m s with
           | (Fuel, s') => (Fuel, s')
           | (r, s') => k r s'
           end.

Definition get_st : M st := fun s => (Ok s, s).
Definition put_st (s' : st) : M unit := fun _ => (Ok tt, s').
