(* Display for TulispValue (src/value.rs) and fmt_string.                 *)
From TL Require Import Base.Base Model.Reader.

Fixpoint pos_digits (fuel : nat) (n : N) (acc : text) : text :=
  match fuel with
  | O => acc
  | S f => let d := (c_0 + N.modulo n 10)%N in
           let q := N.div n 10 in
           if N.eqb q 0 then d :: acc else pos_digits f q (d :: acc)
  end.

Definition print_N (n : N) : text := pos_digits (S (N.to_nat (N.log2 n))) n [].

Definition print_Z (z : Z) : text :=
  match z with
  | Z0 => [c_0]
  | Zpos p => print_N (Npos p)
  | Zneg p => c_minus :: print_N (Npos p)
  end.

Section WithFloat.
Variable F : fops.

(* after the repair of D14: a finite float whose shortest decimal has no *)
(* point gets ".0" appended                                               *)
Definition print_float (b : Z) : text :=
  let r := f_to_dec F b in
  if f_is_finite F b && negb (existsb (N.eqb c_dot) r) then r ++ [c_dot; c_0] else r.

Fixpoint escape_string (s : text) : text :=
  match s with
  | [] => []
  | c :: r => if N.eqb c c_dq || N.eqb c c_bslash
              then c_bslash :: c :: escape_string r
              else c :: escape_string r
  end.

Definition space := [c_sp].

Fixpoint print (x : sx) : text :=
  match x with
  | Nil => s2t "nil" | T => s2t "t"
  | Int z => print_Z z
  | Flt b => print_float b
  | Str s => c_dq :: escape_string s ++ [c_dq]
  | Sym n | USym n _ | Cell n _ _ => n
  | Cons a d =>
      c_lp :: print a ++
      (fix tl (d : sx) : text :=
         match d with
         | Nil => [c_rp]
         | Cons a' d' => c_sp :: print a' ++ tl d'
         | o => s2t " . " ++ print o ++ [c_rp]
         end) d
  | Quote v => c_quote :: print v
  | Bq v => c_btick :: print v
  | Unq v => c_comma :: print v
  | Splice v => c_comma :: c_at :: print v
  | Sharp v => c_sharp :: c_quote :: print v
  | Lam _ _ => s2t "Defun"
  | Mac _ _ => s2t "Defmacro"
  | Prim _ => s2t "Func"
  | PMac _ => s2t "Macro"
  | Bounce => s2t "Bounce"
  | Any _ => s2t "BoxedValue"
  end.

(* fmt_string: princ *)
Definition princ (x : sx) : text :=
  match x with Str s => s | _ => print x end.

End WithFloat.
