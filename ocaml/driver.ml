(* Driver for the extracted model: reads cases, prints canonical transcripts. *)
open Tlmodel

(* ---- numeric conversions ------------------------------------------------ *)
let rec pos_of_int (i : int) : positive =
  if i <= 1 then XH
  else if i land 1 = 1 then XI (pos_of_int (i lsr 1)) else XO (pos_of_int (i lsr 1))
let n_of_int i = if i <= 0 then N0 else Npos (pos_of_int i)
let rec int_of_pos = function
  | XH -> 1 | XO p -> 2 * int_of_pos p | XI p -> 2 * int_of_pos p + 1
let int_of_n = function N0 -> 0 | Npos p -> int_of_pos p
let rec nat_of_int i acc = if i <= 0 then acc else nat_of_int (i - 1) (S acc)

(* unsigned 64-bit patterns as z in [0, 2^64) *)
let rec pos_of_u64 (x : int64) : positive =
  (* x <> 0, treated as unsigned *)
  if Int64.equal x 1L then XH
  else
    let half = Int64.shift_right_logical x 1 in
    if Int64.equal (Int64.logand x 1L) 1L then XI (pos_of_u64 half) else XO (pos_of_u64 half)
let z_of_bits (x : int64) : z = if Int64.equal x 0L then Z0 else Zpos (pos_of_u64 x)
let rec u64_of_pos = function
  | XH -> 1L
  | XO p -> Int64.shift_left (u64_of_pos p) 1
  | XI p -> Int64.logor (Int64.shift_left (u64_of_pos p) 1) 1L
let bits_of_z = function Z0 -> 0L | Zpos p -> u64_of_pos p | Zneg _ -> 0L

(* signed i64 <-> z *)
let z_of_i64 (x : int64) : z =
  if Int64.equal x 0L then Z0
  else if Int64.compare x 0L > 0 then Zpos (pos_of_u64 x)
  else Zneg (pos_of_u64 (Int64.neg x))   (* min_int negates to itself: same bits, unsigned 2^63 *)
let i64_of_z = function
  | Z0 -> 0L | Zpos p -> u64_of_pos p | Zneg p -> Int64.neg (u64_of_pos p)

(* decimal string of an arbitrary z *)
let z_to_string (v : z) : Stdlib.String.t =
  let t = print_Z v in
  String.concat "" (List.map (fun c -> String.make 1 (Char.chr (int_of_n c))) t)

(* ---- text --------------------------------------------------------------- *)
let utf8_decode (s : Stdlib.String.t) : n list =
  let out = ref [] in
  let i = ref 0 in
  let len = String.length s in
  let byte k = if k < len then Char.code s.[k] else 0 in
  while !i < len do
    let c = byte !i in
    let (cp, l) =
      if c < 0x80 then (c, 1)
      else if c < 0xE0 then (((c land 0x1F) lsl 6) lor (byte (!i + 1) land 0x3F), 2)
      else if c < 0xF0 then
        (((c land 0x0F) lsl 12) lor ((byte (!i + 1) land 0x3F) lsl 6)
         lor (byte (!i + 2) land 0x3F), 3)
      else
        (((c land 0x07) lsl 18) lor ((byte (!i + 1) land 0x3F) lsl 12)
         lor ((byte (!i + 2) land 0x3F) lsl 6) lor (byte (!i + 3) land 0x3F), 4) in
    out := n_of_int cp :: !out;
    i := !i + l
  done;
  List.rev !out
let utf8_encode (t : n list) : Stdlib.String.t =
  let b = Buffer.create 64 in
  List.iter (fun c ->
      let i = int_of_n c in
      if Uchar.is_valid i then Buffer.add_utf_8_uchar b (Uchar.of_int i)
      else Buffer.add_utf_8_uchar b Uchar.rep) t;
  Buffer.contents b
let hex_decode (h : Stdlib.String.t) : Stdlib.String.t =
  if h = "-" then "" else
  String.init (String.length h / 2) (fun i ->
      Char.chr (int_of_string ("0x" ^ String.sub h (2 * i) 2)))
let hex_encode (s : Stdlib.String.t) : Stdlib.String.t =
  if s = "" then "-" else
  String.concat "" (List.init (String.length s) (fun i -> Printf.sprintf "%02x" (Char.code s.[i])))

(* ---- float oracle ------------------------------------------------------- *)
let fl (v : z) : float = Int64.float_of_bits (bits_of_z v)
let zf (f : float) : z = z_of_bits (Int64.bits_of_float f)
let bin op a b = zf (op (fl a) (fl b))

(* f64::max / f64::min: a NaN operand is ignored; for equal operands (signed zeros) the
   result is unspecified by Rust and the generators avoid it *)
let rust_max a b = if Float.is_nan a then b else if Float.is_nan b then a else if b > a then b else a
let rust_min a b = if Float.is_nan a then b else if Float.is_nan b then a else if b < a then b else a

let to_i64_sat (f : float) : int64 =
  if Float.is_nan f then 0L
  else if f >= 9223372036854775808.0 then Int64.max_int
  else if f <= -9223372036854775808.0 then Int64.min_int
  else Int64.of_float f

(* Rust's Display for f64: shortest digits that round-trip, plain decimal *)
let rust_display (f : float) : Stdlib.String.t =
  if Float.is_nan f then "NaN"
  else if f = Float.infinity then "inf"
  else if f = Float.neg_infinity then "-inf"
  else begin
    let neg = Float.sign_bit f in
    let a = Float.abs f in
    if a = 0.0 then (if neg then "-0" else "0") else begin
      let rec find p =
        let s = Printf.sprintf "%.*e" (p - 1) a in
        if p >= 17 || float_of_string s = a then s else find (p + 1) in
      let s = find 1 in
      (* s = d.ddddde[+-]XX *)
      let epos = String.index s 'e' in
      let mant = String.sub s 0 epos in
      let exp = int_of_string (String.sub s (epos + 1) (String.length s - epos - 1)) in
      let digits = String.concat "" (String.split_on_char '.' mant) in
      (* strip trailing zeros of digits *)
      let digits =
        let l = ref (String.length digits) in
        while !l > 1 && digits.[!l - 1] = '0' do decr l done;
        String.sub digits 0 !l in
      let nd = String.length digits in
      (* value = 0.digits * 10^(exp+1) ; decimal point after (exp+1) digits *)
      let pointpos = exp + 1 in
      let body =
        if pointpos <= 0 then "0." ^ String.make (- pointpos) '0' ^ digits
        else if pointpos >= nd then digits ^ String.make (pointpos - nd) '0'
        else String.sub digits 0 pointpos ^ "." ^ String.sub digits pointpos (nd - pointpos) in
      (if neg then "-" else "") ^ body
    end
  end

let rust_parse_f64 (s : Stdlib.String.t) : float option =
  (* only called on strings of the shape -?d*.d* *)
  let has_digit = ref false in
  String.iter (fun c -> if c >= '0' && c <= '9' then has_digit := true) s;
  if not !has_digit then None
  else match float_of_string_opt s with Some f -> Some f | None -> None

let fops : fops = {
  f_add = bin ( +. ); f_sub = bin ( -. ); f_mul = bin ( *. ); f_div = bin ( /. );
  f_rem = bin Float.rem; f_pow = bin Float.pow;
  f_max = bin rust_max; f_min = bin rust_min;
  f_of_int = (fun v -> zf (Int64.to_float (i64_of_z v)));
  f_to_int = (fun v -> z_of_i64 (to_i64_sat (Float.trunc (fl v))));
  f_round = (fun v -> zf (Float.round (fl v)));
  f_trunc = (fun v -> zf (Float.trunc (fl v)));
  f_lt = (fun a b -> fl a < fl b); f_le = (fun a b -> fl a <= fl b);
  f_eq = (fun a b -> fl a = fl b);
  f_is_finite = (fun v -> Float.is_finite (fl v));
  f_to_dec = (fun v -> utf8_decode (rust_display (fl v)));
  f_of_dec = (fun t -> match rust_parse_f64 (utf8_encode t) with
                       | Some f -> Some (zf f) | None -> None);
}

(* ---- canonical output ---------------------------------------------------- *)
let kind_name = function
  | ENotImpl -> "unmodelled" | EParse -> "parse" | EType -> "type" | EUndef -> "undef"
  | EUninit -> "uninit" | ESyntax -> "syntax" | EMissing -> "missing"
  | ERange -> "range" | EHost -> "host"

let show_text t = hex_encode (utf8_encode t)

let sp_str (sp : span) =
  Printf.sprintf "%d.%d-%d.%d" (int_of_n sp.s_l) (int_of_n sp.s_c) (int_of_n sp.e_l) (int_of_n sp.e_c)

let rec show_ax (x : ax) : Stdlib.String.t =
  match x with
  | ANil sp -> "nil@" ^ sp_str sp
  | AT sp -> "t@" ^ sp_str sp
  | AInt (v, _) -> "i" ^ z_to_string v
  | AFlt (b, sp) -> Printf.sprintf "f%Lx@%s" (bits_of_z b) (sp_str sp)
  | AStr (s, _) -> "s" ^ show_text s
  | ASym (s, sp) -> "y" ^ show_text s ^ "@" ^ sp_str sp
  | AList (xs, tl, sp) ->
      (* canonical form: what strip makes of it *)
      (match xs, tl with
       | [], None -> "nil@" ^ sp_str sp
       | [], Some t ->
           (match t with
            | AList ((_ :: _ as xs2), tl2, _) -> show_ax (AList (xs2, tl2, sp))
            | _ ->
              (match strip t with
               | Nil -> "nil@" ^ sp_str sp
               | Cons (_, _) -> "(?" ^ show_ax t ^ ")@" ^ sp_str sp
               | _ -> "(" ^ show_ax t ^ ")@" ^ sp_str sp))
       | _, _ ->
           "(" ^ String.concat " " (List.map show_ax xs)
           ^ (match tl with
              | None -> ""
              | Some t -> (match strip t with Nil -> "" | _ -> " . " ^ show_ax t))
           ^ ")@" ^ sp_str sp)
  | AQuote (v, sp) -> "'" ^ show_ax v ^ "@" ^ sp_str sp
  | ABq (v, sp) -> "`" ^ show_ax v ^ "@" ^ sp_str sp
  | AUnq (v, sp) -> "," ^ show_ax v ^ "@" ^ sp_str sp
  | ASplice (v, sp) -> ",@" ^ show_ax v ^ "@" ^ sp_str sp

(* ---- contexts and the command loop --------------------------------------- *)
let fuel_n = ref 300000
let fuel = ref (nat_of_int !fuel_n O)

let () =
  (match Sys.getenv_opt "TL_FUEL" with
   | Some s -> fuel_n := int_of_string s; fuel := nat_of_int !fuel_n O
   | None -> ());
  let ctxs : (int, st) Hashtbl.t = Hashtbl.create 4 in
  let cur = ref 0 in
  let case_id = ref "?" in
  let idx = ref 0 in
  let failat : n option ref = ref None in
  let files : (text * text) list ref = ref [] in
  let get_ctx () =
    match Hashtbl.find_opt ctxs !cur with
    | Some s -> s
    | None -> let s = init_state !files None in Hashtbl.replace ctxs !cur s; s in
  let set_ctx s = Hashtbl.replace ctxs !cur s in
  let out_result (r : sx res) (s : st) =
    let ticks =
      String.concat ","
        (List.rev_map (fun (id, t) -> z_to_string id ^ ":" ^ show_text t) s.log) in
    let body = match r with
      | Ok v -> "V " ^ show_text (print fops v)
      | Err k -> "E " ^ kind_name k
      | Panic n -> "P " ^ string_of_int (int_of_n n)
      | Fuel -> "F" in
    Printf.printf "%s %d %s T %s\n" !case_id !idx body (if ticks = "" then "-" else ticks) in
  (try
     while true do
       let line = input_line stdin in
       let parts = String.split_on_char ' ' (String.trim line) in
       (match parts with
        | ["case"; id] ->
            Hashtbl.reset ctxs; cur := 0; case_id := id; idx := 0; failat := None; files := []
        | ["ctx"; k] -> cur := int_of_string k
        | ["file"; name; body] ->
            let n = utf8_decode (hex_decode name) and b = utf8_decode (hex_decode body) in
            files := (n, b) :: !files;
            Hashtbl.iter (fun k s -> Hashtbl.replace ctxs k (add_file s n b)) (Hashtbl.copy ctxs)
        | ["failat"; k] ->
            failat := (if k = "-" then None else Some (n_of_int (int_of_string k)))
        | ["eval"; h] ->
            let s = reset_request (get_ctx ()) !failat in
            let (r, s') = eval_string fops !fuel (utf8_decode (hex_decode h)) s in
            set_ctx s'; out_result r s'; incr idx
        | ["load"; h] ->
            let s = reset_request (get_ctx ()) !failat in
            let (r, s') = eval_file fops !fuel (utf8_decode (hex_decode h)) s in
            set_ctx s'; out_result r s'; incr idx
        | "vars" :: names ->
            let s = get_ctx () in
            let one h =
              let nm = utf8_decode (hex_decode h) in
              let its = var_items s nm in
              h ^ "=" ^ string_of_int (List.length its) ^ ":"
              ^ String.concat "," (List.map (fun v -> show_text (print fops v)) its) in
            Printf.printf "%s %d VARS %s\n" !case_id !idx (String.concat ";" (List.map one names));
            incr idx
        | ["parse"; h] ->
            let s = get_ctx () in
            (match read_ax fops s.flags (utf8_decode (hex_decode h)) with
             | Ok forms ->
                 Printf.printf "%s %d PARSE ok %s\n" !case_id !idx
                   (hex_encode (String.concat " " (List.map show_ax forms)))
             | Err _ -> Printf.printf "%s %d PARSE err\n" !case_id !idx
             | Panic n -> Printf.printf "%s %d PARSE panic %d\n" !case_id !idx (int_of_n n)
             | Fuel -> Printf.printf "%s %d PARSE fuel\n" !case_id !idx);
            incr idx
        | ["parsex"; h] ->
            let s = reset_request (get_ctx ()) !failat in
            let (r, s') = parse_string fops !fuel (utf8_decode (hex_decode h)) s in
            set_ctx s';
            (match r with
             | Ok v -> Printf.printf "%s %d PARSE ok %s\n" !case_id !idx (show_text (print fops v))
             | Err EParse -> Printf.printf "%s %d PARSE err\n" !case_id !idx
             | Err k -> Printf.printf "%s %d PARSE err-other\n" !case_id !idx
             | Panic n -> Printf.printf "%s %d PARSE panic %d\n" !case_id !idx (int_of_n n)
             | Fuel -> Printf.printf "%s %d PARSE fuel\n" !case_id !idx);
            incr idx
        | "api" :: toks ->
            let pi x = pos_of_int (int_of_string x) in
            let parse_op t =
              match String.split_on_char ':' t with
              | ["nil"; d] -> ONil (pi d) | ["true"; d] -> OTrue (pi d)
              | ["int"; z; d] -> OInt (z_of_i64 (Int64.of_string z), pi d)
              | ["flt"; b; d] -> OFlt (z_of_bits (Int64.of_string ("0x" ^ b)), pi d)
              | ["str"; h; d] -> OStr (utf8_decode (hex_decode h), pi d)
              | ["sym"; h; d] -> OSym (utf8_decode (hex_decode h), pi d)
              | ["cons"; a; b; d] -> OCons (pi a, pi b, pi d)
              | ["copy"; a; d] -> OCopy (pi a, pi d)
              | ["car"; a; d] -> OCar (pi a, pi d) | ["cdr"; a; d] -> OCdr (pi a, pi d)
              | ["push"; a; b] -> OPush (pi a, pi b) | ["append"; a; b] -> OAppend (pi a, pi b)
              | ["deep"; a; d] -> ODeep (pi a, pi d)
              | ["show"; a] -> OShow (pi a) | ["eq"; a; b] -> OEq (pi a, pi b) | ["equal"; a; b] -> OEqual (pi a, pi b)
              | ["set"; s; a] -> OSet (pi s, pi a) | ["setscope"; s; a] -> OSetScope (pi s, pi a)
              | ["unset"; s] -> OUnset (pi s) | ["get"; s; d] -> OGet (pi s, pi d) | ["boundp"; s] -> OBoundp (pi s)
              | ["toint"; a] -> OToInt (pi a) | ["toflt"; a] -> OToFlt (pi a) | ["tostr"; a] -> OToStr (pi a)
              | ["tobool"; a] -> OToBool (pi a) | ["iter"; a] -> OIter (pi a)
              | ["list3"; a; b; c; d] -> OList3 (pi a, pi b, pi c, pi d)
              | _ -> failwith ("bad op " ^ t) in
            let ops = List.map parse_op (List.filter (fun x -> x <> "") toks) in
            let outs = run_ops init_world ops in
            let show_out (o, r) = match r with
              | RUnit -> "u" | RErr -> "e" | RBool b -> if b then "b1" else "b0"
              | RVal v -> "v" ^ show_text (print fops v)
              | RInt z -> (match o with
                           | OToFlt _ -> Printf.sprintf "f%Lx" (bits_of_z (fops.f_of_int z))
                           | _ -> "i" ^ z_to_string z)
              | RFlt b -> Printf.sprintf "f%Lx" (bits_of_z b)
              | RStr s -> "s" ^ show_text s
              | RVals l -> "l" ^ show_text (List.concat (List.map (fun v -> print fops v @ [n_of_int 32]) l))
              | RUnmodelled -> "x" in
            Printf.printf "%s %d API %s\n" !case_id !idx (String.concat "|" (List.map show_out (List.combine ops outs)));
            incr idx
        | ["sweep"; alpha; len; first] ->
            (* all strings of the given length over the alphabet, optionally with a fixed first character *)
            let al = Array.of_list (utf8_decode (hex_decode alpha)) in
            let n = int_of_string len and f = int_of_string first in
            let k = Array.length al in
            let s = get_ctx () in
            let idxs = Array.make n 0 in
            if f >= 0 && n > 0 then idxs.(0) <- f;
            let continue = ref true in
            while !continue do
              let t = Array.to_list (Array.map (fun i -> al.(i)) idxs) in
              let body = match read_ax fops s.flags t with
                | Ok forms -> "ok " ^ hex_encode (String.concat " " (List.map show_ax forms))
                | Err _ -> "err" | Panic n -> "panic" | Fuel -> "fuel" in
              Printf.printf "%s %d SW %s %s\n" !case_id !idx (show_text t) body;
              (* increment *)
              let rec inc p =
                if p < (if f >= 0 then 1 else 0) then continue := false
                else if idxs.(p) + 1 < k then idxs.(p) <- idxs.(p) + 1
                else (idxs.(p) <- 0; inc (p - 1)) in
              if n = 0 then continue := false else inc (n - 1)
            done;
            incr idx
        | ["end"] -> ()
        | [""] -> ()
        | _ -> Printf.printf "%s %d BADCMD %s\n" !case_id !idx line)
     done
   with End_of_file -> ());
  flush stdout
