// Harness around the implementation: reads the same case files as the
// extracted model and prints the same canonical transcript.
use std::cell::RefCell;
use std::io::{BufRead, Write};
use std::panic::{catch_unwind, AssertUnwindSafe};
use std::any::Any;
use std::rc::Rc;

use tulisp::{destruct_bind, list, tulisp_fn, Error, ErrorKind, TulispContext, TulispObject, TulispValue};

fn hex_decode(h: &str) -> String {
    if h == "-" {
        return String::new();
    }
    let bytes: Vec<u8> = (0..h.len() / 2)
        .map(|i| u8::from_str_radix(&h[2 * i..2 * i + 2], 16).unwrap())
        .collect();
    String::from_utf8_lossy(&bytes).into_owned()
}

fn hex_encode(s: &str) -> String {
    if s.is_empty() {
        return "-".to_string();
    }
    s.bytes().map(|b| format!("{:02x}", b)).collect()
}

#[derive(Default)]
struct Probe {
    log: Vec<(i64, String)>,
    steps: u64,
    fail_at: Option<u64>,
    stack_min: usize,
    stack_max: usize,
}

struct Ctx {
    ctx: TulispContext,
    probe: Rc<RefCell<Probe>>,
}

fn kind_name(k: ErrorKind) -> &'static str {
    match k {
        ErrorKind::NotImplemented => "notimpl",
        ErrorKind::ParsingError => "parse",
        ErrorKind::TypeMismatch => "type",
        ErrorKind::Undefined => "undef",
        ErrorKind::Uninitialized => "uninit",
        ErrorKind::SyntaxError => "syntax",
        ErrorKind::MissingArgument => "missing",
        ErrorKind::OutOfRange => "range",
    }
}

fn new_ctx() -> Ctx {
    let mut ctx = TulispContext::new();
    let probe = Rc::new(RefCell::new(Probe::default()));
    let p = probe.clone();
    ctx.add_special_form("tick", move |ctx, args| {
        let id = args.car()?;
        let rest = args.cdr()?;
        if !rest.consp() || !rest.cdr()?.null() {
            return Err(Error::new(
                ErrorKind::TypeMismatch,
                "tick: expected (tick ID EXPR)".to_string(),
            ));
        }
        let v = ctx.eval(&rest.car()?)?;
        let mut pr = p.borrow_mut();
        pr.steps += 1;
        let idz = id.as_int().unwrap_or(0);
        pr.log.push((idz, v.to_string()));
        if pr.fail_at == Some(pr.steps) {
            return Err(Error::new(
                ErrorKind::Undefined,
                "host failure injected by tick".to_string(),
            ));
        }
        Ok(v)
    });
    let p2 = probe.clone();
    ctx.add_special_form("probe", move |_ctx, _args| {
        let marker = 0u8;
        let addr = &marker as *const u8 as usize;
        let mut pr = p2.borrow_mut();
        if pr.stack_min == 0 || addr < pr.stack_min {
            pr.stack_min = addr;
        }
        if addr > pr.stack_max {
            pr.stack_max = addr;
        }
        Ok(TulispObject::nil())
    });
    #[tulisp_fn(add_func = "ctx", name = "host-add")]
    fn host_add(a: i64, b: i64) -> Result<i64, Error> {
        a.checked_add(b)
            .ok_or_else(|| Error::new(ErrorKind::OutOfRange, "overflow".to_string()))
    }
    #[tulisp_fn(add_func = "ctx", name = "host-box")]
    fn host_box() -> Rc<dyn Any> {
        Rc::new(42u8)
    }
    #[tulisp_fn(add_func = "ctx", name = "host-opt")]
    fn host_opt(a: i64, b: Option<i64>, rest: TulispObject) -> Result<TulispObject, Error> {
        let bv = match b {
            Some(v) => TulispObject::from(v),
            None => TulispObject::nil(),
        };
        list!(,TulispObject::from(a) ,bv ,rest)
    }
    #[tulisp_fn(add_func = "ctx", name = "host-conv")]
    fn host_conv(s: String, f: f64, flag: TulispObject) -> String {
        format!("{}|{}|{}", s, f.to_bits(), flag.is_truthy())
    }
    // a host function that modifies the list of its rest arguments: that list is its own
    #[tulisp_fn(add_func = "ctx", name = "host-collect")]
    fn host_collect(rest: TulispObject) -> Result<TulispObject, Error> {
        rest.push(TulispObject::from(99))?;
        Ok(rest)
    }
    #[tulisp_fn(add_func = "ctx", name = "host-id")]
    fn host_id(x: TulispObject) -> TulispObject {
        x
    }
    // a host macro: receives the unevaluated argument forms, returns (list FORMn ... FORM1)
    ctx.add_macro("host-rev", |ctx, args| {
        let mut forms: Vec<TulispObject> = args.base_iter().collect();
        forms.reverse();
        let out = TulispObject::nil();
        out.push(ctx.intern("list"))?;
        for f in forms {
            out.push(f)?;
        }
        Ok(out)
    });
    Ctx { ctx, probe }
}

fn span_str(o: &TulispObject) -> String {
    match o.span() {
        Some(sp) => format!("{}.{}-{}.{}", sp.start.0, sp.start.1, sp.end.0, sp.end.1),
        None => "-".to_string(),
    }
}

// canonical annotated form of a parsed object (see ocaml/driver.ml show_ax)
fn show_obj(o: &TulispObject, out: &mut String) {
    match o.verif_value() {
        TulispValue::Nil => {
            out.push_str("nil@");
            out.push_str(&span_str(o));
        }
        TulispValue::T => {
            out.push_str("t@");
            out.push_str(&span_str(o));
        }
        TulispValue::Int { value } => out.push_str(&format!("i{}", value)),
        TulispValue::Float { value } => {
            out.push_str(&format!("f{:x}@{}", value.to_bits(), span_str(o)))
        }
        TulispValue::String { value } => {
            out.push('s');
            out.push_str(&hex_encode(&value));
        }
        TulispValue::Symbol { .. } | TulispValue::LexicalBinding { .. } => {
            out.push('y');
            out.push_str(&hex_encode(&o.as_symbol().unwrap_or_default()));
            out.push('@');
            out.push_str(&span_str(o));
        }
        TulispValue::List { .. } => {
            out.push('(');
            let mut cur = o.clone();
            let mut first = true;
            loop {
                if !first {
                    out.push(' ');
                }
                first = false;
                show_obj(&cur.car().unwrap(), out);
                let rest = cur.cdr().unwrap();
                if rest.null() {
                    break;
                }
                if !rest.consp() {
                    out.push_str(" . ");
                    show_obj(&rest, out);
                    break;
                }
                cur = rest;
            }
            out.push_str(")@");
            out.push_str(&span_str(o));
        }
        TulispValue::Quote { value } => {
            out.push('\'');
            show_obj(&value, out);
            out.push('@');
            out.push_str(&span_str(o));
        }
        TulispValue::Sharpquote { value } => {
            out.push_str("#'");
            show_obj(&value, out);
            out.push('@');
            out.push_str(&span_str(o));
        }
        TulispValue::Backquote { value } => {
            out.push('`');
            show_obj(&value, out);
            out.push('@');
            out.push_str(&span_str(o));
        }
        TulispValue::Unquote { value } => {
            out.push(',');
            show_obj(&value, out);
            out.push('@');
            out.push_str(&span_str(o));
        }
        TulispValue::Splice { value } => {
            out.push_str(",@");
            show_obj(&value, out);
            out.push('@');
            out.push_str(&span_str(o));
        }
        other => out.push_str(&format!("?{}", other)),
    }
}

// Interpreter of object / symbol API operations over a small register file.
fn run_api(ops: &[String]) -> Vec<String> {
    use std::collections::HashMap;
    let mut ctx = TulispContext::new();
    let mut regs: HashMap<usize, TulispObject> = HashMap::new();
    let mut outs = vec![];
    let g = |regs: &HashMap<usize, TulispObject>, r: &str| -> TulispObject {
        regs.get(&r.parse::<usize>().unwrap()).cloned().unwrap_or_else(TulispObject::nil)
    };
    for op in ops {
        let f: Vec<&str> = op.split(':').collect();
        let r = match f[0] {
            "nil" => { regs.insert(f[1].parse().unwrap(), TulispObject::from(false)); "u".to_string() }
            "true" => { regs.insert(f[1].parse().unwrap(), TulispObject::from(true)); "u".to_string() }
            "int" => { regs.insert(f[2].parse().unwrap(), TulispObject::from(f[1].parse::<i64>().unwrap())); "u".to_string() }
            "flt" => { regs.insert(f[2].parse().unwrap(), TulispObject::from(f64::from_bits(u64::from_str_radix(f[1], 16).unwrap()))); "u".to_string() }
            "str" => { regs.insert(f[2].parse().unwrap(), TulispObject::from(hex_decode(f[1]))); "u".to_string() }
            "sym" => { let o = ctx.intern(&hex_decode(f[1])); regs.insert(f[2].parse().unwrap(), o); "u".to_string() }
            "cons" => { let o = TulispObject::cons(g(&regs, f[1]), g(&regs, f[2])); regs.insert(f[3].parse().unwrap(), o); "u".to_string() }
            "copy" => { let o = g(&regs, f[1]); regs.insert(f[2].parse().unwrap(), o); "u".to_string() }
            "car" => match g(&regs, f[1]).car() { Ok(o) => { regs.insert(f[2].parse().unwrap(), o); "u".to_string() } Err(_) => "e".to_string() },
            "cdr" => match g(&regs, f[1]).cdr() { Ok(o) => { regs.insert(f[2].parse().unwrap(), o); "u".to_string() } Err(_) => "e".to_string() },
            "push" => match g(&regs, f[1]).push(g(&regs, f[2])) { Ok(_) => "u".to_string(), Err(_) => "e".to_string() },
            "append" => match g(&regs, f[1]).append(g(&regs, f[2])) { Ok(_) => "u".to_string(), Err(_) => "e".to_string() },
            "deep" => match g(&regs, f[1]).deep_copy() { Ok(o) => { regs.insert(f[2].parse().unwrap(), o); "u".to_string() } Err(_) => "e".to_string() },
            "show" => format!("v{}", hex_encode(&g(&regs, f[1]).to_string())),
            "eq" => if g(&regs, f[1]).eq(&g(&regs, f[2])) { "b1".to_string() } else { "b0".to_string() },
            "equal" => if g(&regs, f[1]).equal(&g(&regs, f[2])) { "b1".to_string() } else { "b0".to_string() },
            "set" => match g(&regs, f[1]).set(g(&regs, f[2])) { Ok(_) => "u".to_string(), Err(_) => "e".to_string() },
            "setscope" => match g(&regs, f[1]).set_scope(g(&regs, f[2])) { Ok(_) => "u".to_string(), Err(_) => "e".to_string() },
            "unset" => match g(&regs, f[1]).unset() { Ok(_) => "u".to_string(), Err(_) => "e".to_string() },
            "get" => match g(&regs, f[1]).get() { Ok(o) => { regs.insert(f[2].parse().unwrap(), o); "u".to_string() } Err(_) => "e".to_string() },
            "boundp" => if g(&regs, f[1]).boundp() { "b1".to_string() } else { "b0".to_string() },
            "toint" => match i64::try_from(g(&regs, f[1])) { Ok(v) => format!("i{}", v), Err(_) => "e".to_string() },
            "toflt" => match f64::try_from(g(&regs, f[1])) { Ok(v) => format!("f{:x}", v.to_bits()), Err(_) => "e".to_string() },
            "tostr" => match String::try_from(g(&regs, f[1])) { Ok(v) => format!("s{}", hex_encode(&v)), Err(_) => "e".to_string() },
            "tobool" => if bool::from(g(&regs, f[1])) { "b1".to_string() } else { "b0".to_string() },
            "iter" => {
                let mut t = String::new();
                for item in g(&regs, f[1]).base_iter() {
                    t.push_str(&item.to_string());
                    t.push(' ');
                }
                format!("l{}", hex_encode(&t))
            }
            "assoc" => match tulisp::lists::assoc(&mut ctx, &g(&regs, f[1]), &g(&regs, f[2]), None) { Ok(o) => { regs.insert(f[3].parse().unwrap(), o); "u".to_string() } Err(_) => "e".to_string() },
            "alistget" => {
                let dflt = if f[3] == "0" { None } else { Some(g(&regs, f[3])) };
                match tulisp::lists::alist_get(&mut ctx, &g(&regs, f[1]), &g(&regs, f[2]), dflt, None, None) { Ok(o) => { regs.insert(f[4].parse().unwrap(), o); "u".to_string() } Err(_) => "e".to_string() }
            }
            "plistget" => match tulisp::lists::plist_get(&g(&regs, f[1]), &g(&regs, f[2])) { Ok(o) => { regs.insert(f[3].parse().unwrap(), o); "u".to_string() } Err(_) => "e".to_string() },
            "len" => match tulisp::lists::length(&g(&regs, f[1])) { Ok(v) => format!("i{}", v), Err(_) => "e".to_string() },
            "nth" => match tulisp::lists::nth(f[1].parse().unwrap(), g(&regs, f[2])) { Ok(o) => { regs.insert(f[3].parse().unwrap(), o); "u".to_string() } Err(_) => "e".to_string() },
            "nthcdr" => match tulisp::lists::nthcdr(f[1].parse().unwrap(), g(&regs, f[2])) { Ok(o) => { regs.insert(f[3].parse().unwrap(), o); "u".to_string() } Err(_) => "e".to_string() },
            "last" => match tulisp::lists::last(&g(&regs, f[1]), None) { Ok(o) => { regs.insert(f[2].parse().unwrap(), o); "u".to_string() } Err(_) => "e".to_string() },
            "list3" => {
                let (a, b, c) = (g(&regs, f[1]), g(&regs, f[2]), g(&regs, f[3]));
                match list!(,a ,@b ,c) { Ok(o) => { regs.insert(f[4].parse().unwrap(), o); "u".to_string() } Err(_) => "e".to_string() }
            }
            // ---- typed iterators: one item per element, converted with TryFrom
            "iteri" => format!("L{}", g(&regs, f[1]).iter::<i64>().map(|x| match x { Ok(v) => format!("i{}", v), Err(_) => "e".to_string() }).collect::<Vec<_>>().join(",")),
            "iterf" => format!("L{}", g(&regs, f[1]).iter::<f64>().map(|x| match x { Ok(v) => format!("f{:x}", v.to_bits()), Err(_) => "e".to_string() }).collect::<Vec<_>>().join(",")),
            "iters" => format!("L{}", g(&regs, f[1]).iter::<String>().map(|x| match x { Ok(v) => format!("s{}", hex_encode(&v)), Err(_) => "e".to_string() }).collect::<Vec<_>>().join(",")),
            "iterb" => format!("L{}", g(&regs, f[1]).iter::<bool>().map(|x| match x { Ok(v) => format!("b{}", v as u8), Err(_) => "e".to_string() }).collect::<Vec<_>>().join(",")),
            "itero" => format!("L{}", g(&regs, f[1]).iter::<TulispObject>().map(|x| match x { Ok(v) => format!("v{}", hex_encode(&v.to_string())), Err(_) => "e".to_string() }).collect::<Vec<_>>().join(",")),
            // ---- conversions through references, options and &str
            "tointr" => match i64::try_from(&g(&regs, f[1])) { Ok(v) => format!("i{}", v), Err(_) => "e".to_string() },
            "tofltr" => match f64::try_from(&g(&regs, f[1])) { Ok(v) => format!("f{:x}", v.to_bits()), Err(_) => "e".to_string() },
            "optint" => match Option::<i64>::try_from(g(&regs, f[1])) { Ok(Some(v)) => format!("i{}", v), Ok(None) => "n".to_string(), Err(_) => "e".to_string() },
            "optflt" => match Option::<f64>::try_from(g(&regs, f[1])) { Ok(Some(v)) => format!("f{:x}", v.to_bits()), Ok(None) => "n".to_string(), Err(_) => "e".to_string() },
            "optstr" => match Option::<String>::try_from(g(&regs, f[1])) { Ok(Some(v)) => format!("s{}", hex_encode(&v)), Ok(None) => "n".to_string(), Err(_) => "e".to_string() },
            "optany" => match Option::<Rc<dyn Any>>::try_from(g(&regs, f[1])) { Ok(Some(_)) => "a".to_string(), Ok(None) => "n".to_string(), Err(_) => "e".to_string() },
            "toany" => match <Rc<dyn Any>>::try_from(g(&regs, f[1])) { Ok(v) => format!("a{}", v.downcast_ref::<u8>().copied().unwrap_or(0)), Err(_) => "e".to_string() },
            "box" => { let b: Rc<dyn Any> = Rc::new(f[1].parse::<u8>().unwrap()); regs.insert(f[2].parse().unwrap(), TulispObject::from(b)); "u".to_string() }
            "strref" => { let s = hex_decode(f[1]); regs.insert(f[2].parse().unwrap(), TulispObject::from(s.as_str())); "u".to_string() }
            // ---- constructors of lists
            "collect" => { let n = f.len() - 1; let o: TulispObject = f[1..n].iter().map(|r| g(&regs, r)).collect(); regs.insert(f[n].parse().unwrap(), o); "u".to_string() }
            "alistfrom" => {
                let n = f.len() - 1;
                let o = match (n - 1) / 2 {
                    0 => tulisp::lists::alist_from([]),
                    1 => tulisp::lists::alist_from([(g(&regs, f[1]), g(&regs, f[2]))]),
                    2 => tulisp::lists::alist_from([(g(&regs, f[1]), g(&regs, f[2])), (g(&regs, f[3]), g(&regs, f[4]))]),
                    _ => tulisp::lists::alist_from([(g(&regs, f[1]), g(&regs, f[2])), (g(&regs, f[3]), g(&regs, f[4])), (g(&regs, f[5]), g(&regs, f[6]))]),
                };
                regs.insert(f[n].parse().unwrap(), o); "u".to_string()
            }
            "plistfrom" => {
                let n = f.len() - 1;
                let o = match (n - 1) / 2 {
                    0 => tulisp::lists::plist_from([]),
                    1 => tulisp::lists::plist_from([(g(&regs, f[1]), g(&regs, f[2]))]),
                    2 => tulisp::lists::plist_from([(g(&regs, f[1]), g(&regs, f[2])), (g(&regs, f[3]), g(&regs, f[4]))]),
                    _ => tulisp::lists::plist_from([(g(&regs, f[1]), g(&regs, f[2])), (g(&regs, f[3]), g(&regs, f[4])), (g(&regs, f[5]), g(&regs, f[6]))]),
                };
                regs.insert(f[n].parse().unwrap(), o); "u".to_string()
            }
            // ---- destruct_bind!: the seven pattern shapes
            "db" => {
                let v = g(&regs, f[2]);
                let pat = f[1];
                let run = |v: TulispObject| -> Result<Vec<TulispObject>, Error> {
                    match pat {
                        "1" => { destruct_bind!((a b) = v); Ok(vec![a, b]) }
                        "2" => { destruct_bind!((a &optional b) = v); Ok(vec![a, b]) }
                        "3" => { destruct_bind!((a &optional b c) = v); Ok(vec![a, b, c]) }
                        "4" => { destruct_bind!((a b &rest r) = v); Ok(vec![a, b, r]) }
                        "5" => { destruct_bind!((a &optional b &rest r) = v); Ok(vec![a, b, r]) }
                        "6" => { destruct_bind!((&optional a b) = v); Ok(vec![a, b]) }
                        "7" => { destruct_bind!((&rest r) = v); Ok(vec![r]) }
                        _ => { destruct_bind!((a) = v); Ok(vec![a]) }
                    }
                };
                match run(v) { Ok(vs) => format!("D{}", vs.iter().map(|x| hex_encode(&x.to_string())).collect::<Vec<_>>().join(",")), Err(_) => "e".to_string() }
            }
            // ---- context entry points that take objects
            "evals" => match ctx.eval_string(&hex_decode(f[1])) { Ok(o) => { regs.insert(f[2].parse().unwrap(), o); "u".to_string() } Err(_) => "e".to_string() },
            "ctxeval" => match ctx.eval(&g(&regs, f[1])) { Ok(o) => { regs.insert(f[2].parse().unwrap(), o); "u".to_string() } Err(_) => "e".to_string() },
            "evalthen" => match ctx.eval_and_then(&g(&regs, f[1]), |v| Ok(v.to_string())) { Ok(s) => format!("v{}", hex_encode(&s)), Err(_) => "e".to_string() },
            "evaleach" => match ctx.eval_each(&g(&regs, f[1])) { Ok(o) => { regs.insert(f[2].parse().unwrap(), o); "u".to_string() } Err(_) => "e".to_string() },
            "ctxfuncall" => match ctx.funcall(&g(&regs, f[1]), &g(&regs, f[2])) { Ok(o) => { regs.insert(f[3].parse().unwrap(), o); "u".to_string() } Err(_) => "e".to_string() },
            "ctxmap" => match ctx.map(&g(&regs, f[1]), &g(&regs, f[2])) { Ok(o) => { regs.insert(f[3].parse().unwrap(), o); "u".to_string() } Err(_) => "e".to_string() },
            "ctxfilter" => match ctx.filter(&g(&regs, f[1]), &g(&regs, f[2])) { Ok(o) => { regs.insert(f[3].parse().unwrap(), o); "u".to_string() } Err(_) => "e".to_string() },
            "ctxreduce" => match ctx.reduce(&g(&regs, f[1]), &g(&regs, f[2]), &g(&regs, f[3])) { Ok(o) => { regs.insert(f[4].parse().unwrap(), o); "u".to_string() } Err(_) => "e".to_string() },
            _ => "?".to_string(),
        };
        outs.push(r);
    }
    outs
}

fn run() {
    let stdin = std::io::stdin();
    let stdout = std::io::stdout();
    let mut out = stdout.lock();
    let mut ctxs: std::collections::HashMap<i64, Ctx> = Default::default();
    let mut cur: i64 = 0;
    let mut case_id = String::from("?");
    let mut idx = 0usize;
    let mut fail_at: Option<u64> = None;
    let announce = std::env::var("TL_ANNOUNCE").is_ok();
    let show_err = std::env::var("TL_SHOWERR").is_ok();
    let workdir = std::env::var("TL_WORKDIR").unwrap_or_else(|_| ".".to_string());
    for line in stdin.lock().lines() {
        let line = line.unwrap();
        let parts: Vec<&str> = line.trim().split(' ').collect();
        match parts[0] {
            "case" => {
                ctxs.clear();
                cur = 0;
                case_id = parts[1].to_string();
                idx = 0;
                fail_at = None;
            }
            "ctx" => cur = parts[1].parse().unwrap(),
            "file" => {
                let name = hex_decode(parts[1]);
                let body = hex_decode(parts[2]);
                let path = format!("{}/{}", workdir, name);
                if let Some(dir) = std::path::Path::new(&path).parent() {
                    std::fs::create_dir_all(dir).unwrap();
                }
                std::fs::write(path, body).unwrap();
            }
            "failat" => {
                fail_at = if parts[1] == "-" { None } else { Some(parts[1].parse().unwrap()) }
            }
            "eval" | "load" => {
                if announce {
                    writeln!(out, "BEGIN {} {}", case_id, idx).unwrap();
                    out.flush().unwrap();
                }
                let c = ctxs.entry(cur).or_insert_with(new_ctx);
                {
                    let mut pr = c.probe.borrow_mut();
                    pr.log.clear();
                    pr.steps = 0;
                    pr.fail_at = fail_at;
                    pr.stack_min = 0;
                    pr.stack_max = 0;
                }
                let text = hex_decode(parts[1]);
                let is_load = parts[0] == "load";
                let res = catch_unwind(AssertUnwindSafe(|| {
                    if is_load {
                        c.ctx.eval_file(&format!("{}/{}", workdir, text))
                    } else {
                        c.ctx.eval_string(&text)
                    }
                }));
                let body = match &res {
                    Ok(Ok(v)) => format!("V {}", hex_encode(&v.to_string())),
                    Ok(Err(e)) => {
                        // rendering must not fail either (C16)
                        let rendered = catch_unwind(AssertUnwindSafe(|| e.format(&c.ctx)));
                        match rendered {
                            Ok(r) => {
                                if show_err {
                                    format!("E {} M {}", kind_name(e.kind()), hex_encode(&r))
                                } else {
                                    format!("E {}", kind_name(e.kind()))
                                }
                            }
                            Err(_) => "P render".to_string(),
                        }
                    }
                    Err(_) => {
                        // the probe may be left borrowed by a panic inside tick
                        "P".to_string()
                    }
                };
                let ticks = match c.probe.try_borrow() {
                    Ok(pr) => {
                        let t: Vec<String> = pr
                            .log
                            .iter()
                            .map(|(i, s)| format!("{}:{}", i, hex_encode(s)))
                            .collect();
                        let growth = pr.stack_max - pr.stack_min;
                        (if t.is_empty() { "-".to_string() } else { t.join(",") }, growth)
                    }
                    Err(_) => ("?".to_string(), 0),
                };
                if std::env::var("TL_STACKPROBE").is_ok() {
                    writeln!(out, "{} {} {} T {} S {}", case_id, idx, body, ticks.0, ticks.1).unwrap();
                } else {
                    writeln!(out, "{} {} {} T {}", case_id, idx, body, ticks.0).unwrap();
                }
                idx += 1;
            }
            "vars" => {
                let c = ctxs.entry(cur).or_insert_with(new_ctx);
                let mut items = vec![];
                for h in &parts[1..] {
                    let name = hex_decode(h);
                    let sym = c.ctx.intern(&name);
                    let mut vals = vec![];
                    let mut objs = vec![];
                    while sym.boundp() && !sym.keywordp() {
                        let v = sym.get().unwrap();
                        vals.push(hex_encode(&v.to_string()));
                        objs.push(v);
                        sym.unset().unwrap();
                    }
                    for v in objs.into_iter().rev() {
                        sym.set_scope(v).unwrap();
                    }
                    items.push(format!("{}={}:{}", h, vals.len(), vals.join(",")));
                }
                writeln!(out, "{} {} VARS {}", case_id, idx, items.join(";")).unwrap();
                idx += 1;
            }
            "parse" => {
                if announce {
                    writeln!(out, "BEGIN {} {}", case_id, idx).unwrap();
                    out.flush().unwrap();
                }
                let c = ctxs.entry(cur).or_insert_with(new_ctx);
                let text = hex_decode(parts[1]);
                let res = catch_unwind(AssertUnwindSafe(|| c.ctx.verif_parse(&text)));
                match res {
                    Ok(Ok(v)) => {
                        let mut s = String::new();
                        let mut first = true;
                        for item in v.base_iter() {
                            if !first {
                                s.push(' ');
                            }
                            first = false;
                            show_obj(&item, &mut s);
                        }
                        writeln!(out, "{} {} PARSE ok {}", case_id, idx, hex_encode(&s)).unwrap();
                    }
                    Ok(Err(e)) => {
                        if e.kind() == ErrorKind::ParsingError {
                            writeln!(out, "{} {} PARSE err", case_id, idx).unwrap()
                        } else {
                            writeln!(out, "{} {} PARSE err-other {}", case_id, idx, kind_name(e.kind())).unwrap()
                        }
                    }
                    Err(_) => writeln!(out, "{} {} PARSE panic", case_id, idx).unwrap(),
                }
                idx += 1;
            }
            "parsex" => {
                if announce {
                    writeln!(out, "BEGIN {} {}", case_id, idx).unwrap();
                    out.flush().unwrap();
                }
                let c = ctxs.entry(cur).or_insert_with(new_ctx);
                {
                    let mut pr = c.probe.borrow_mut();
                    pr.log.clear();
                    pr.steps = 0;
                    pr.fail_at = fail_at;
                }
                let text = hex_decode(parts[1]);
                let res = catch_unwind(AssertUnwindSafe(|| c.ctx.verif_parse(&text)));
                match res {
                    Ok(Ok(v)) => {
                        writeln!(out, "{} {} PARSE ok {}", case_id, idx, hex_encode(&v.to_string())).unwrap()
                    }
                    Ok(Err(e)) => {
                        if e.kind() == ErrorKind::ParsingError {
                            writeln!(out, "{} {} PARSE err", case_id, idx).unwrap()
                        } else {
                            writeln!(out, "{} {} PARSE err-other", case_id, idx).unwrap()
                        }
                    }
                    Err(_) => writeln!(out, "{} {} PARSE panic", case_id, idx).unwrap(),
                }
                idx += 1;
            }
            "api" => {
                if announce {
                    writeln!(out, "BEGIN {} {}", case_id, idx).unwrap();
                    out.flush().unwrap();
                }
                let ops: Vec<String> = parts[1..].iter().filter(|x| !x.is_empty()).map(|x| x.to_string()).collect();
                let res = catch_unwind(AssertUnwindSafe(|| run_api(&ops)));
                match res {
                    Ok(r) => writeln!(out, "{} {} API {}", case_id, idx, r.join("|")).unwrap(),
                    Err(_) => writeln!(out, "{} {} API PANIC", case_id, idx).unwrap(),
                }
                idx += 1;
            }
            "sweep" => {
                let alpha: Vec<char> = hex_decode(parts[1]).chars().collect();
                let n: usize = parts[2].parse().unwrap();
                let f: i64 = parts[3].parse().unwrap();
                let k = alpha.len();
                let c = ctxs.entry(cur).or_insert_with(new_ctx);
                let mut idxs = vec![0usize; n];
                if f >= 0 && n > 0 {
                    idxs[0] = f as usize;
                }
                let lo = if f >= 0 { 1 } else { 0 };
                loop {
                    let text: String = idxs.iter().map(|i| alpha[*i]).collect();
                    if announce {
                        writeln!(out, "BEGIN {} {} {}", case_id, idx, hex_encode(&text)).unwrap();
                        out.flush().unwrap();
                    }
                    let res = catch_unwind(AssertUnwindSafe(|| c.ctx.verif_parse(&text)));
                    let body = match res {
                        Ok(Ok(v)) => {
                            let mut s = String::new();
                            let mut first = true;
                            for item in v.base_iter() {
                                if !first {
                                    s.push(' ');
                                }
                                first = false;
                                show_obj(&item, &mut s);
                            }
                            format!("ok {}", hex_encode(&s))
                        }
                        Ok(Err(e)) => {
                            if e.kind() == ErrorKind::ParsingError {
                                "err".to_string()
                            } else {
                                format!("err-other {}", kind_name(e.kind()))
                            }
                        }
                        Err(_) => "panic".to_string(),
                    };
                    writeln!(out, "{} {} SW {} {}", case_id, idx, hex_encode(&text), body).unwrap();
                    if n == 0 {
                        break;
                    }
                    let mut p = n as i64 - 1;
                    let mut done = false;
                    loop {
                        if p < lo {
                            done = true;
                            break;
                        }
                        if idxs[p as usize] + 1 < k {
                            idxs[p as usize] += 1;
                            break;
                        }
                        idxs[p as usize] = 0;
                        p -= 1;
                    }
                    if done {
                        break;
                    }
                }
                idx += 1;
            }
            "end" | "" => {}
            _ => {
                writeln!(out, "{} {} BADCMD {}", case_id, idx, line).unwrap();
            }
        }
    }
    out.flush().unwrap();
}

fn main() {
    // silence the default panic message; panics are reported in the transcript
    if std::env::var("TL_PANICMSG").is_err() {
        std::panic::set_hook(Box::new(|_| {}));
    }
    let stack_mb: usize = std::env::var("TL_STACK_MB")
        .ok()
        .and_then(|s| s.parse().ok())
        .unwrap_or(512);
    let child = std::thread::Builder::new()
        .stack_size(stack_mb * 1024 * 1024)
        .spawn(run)
        .unwrap();
    let _ = child.join();
}
